"""Scenario driver for C10 (harness code): a sample type that implements the abstract Theta interface with one private array, one
private scalar and one shared array, and the save-then-load round trip of a ThetaHolder through the REAL ThetaHolder.save_h5 / load_h5."""
from batchie.core import Theta, ThetaHolder


class GenericTheta(Theta):
    def __init__(self, A, s, B):
        self.A = A
        self.s = s
        self.B = B

    def predict_viability(self, data):
        raise NotImplementedError

    def predict_conditional_mean(self, data):
        raise NotImplementedError

    def predict_conditional_variance(self, data):
        raise NotImplementedError

    def private_parameters_dict(self):
        return {"A": self.A, "s": self.s}

    def shared_parameters_dict(self):
        return {"B": self.B}

    @classmethod
    def from_dicts(cls, private_params, shared_params):
        return cls(A=private_params["A"], s=private_params["s"], B=shared_params["B"])


def holder_roundtrip(h, fn):
    h.save_h5(fn)
    return ThetaHolder.load_h5(fn)
