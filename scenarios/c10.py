"""Scenario driver for C10 (harness code): a sample type that implements the abstract Theta interface with one private array, one
private scalar, one shared array and one shared scalar, and the save-then-load round trip of a ThetaHolder through the REAL ThetaHolder.save_h5 / load_h5."""
from batchie.core import Theta, ThetaHolder


class GenericTheta(Theta):
    def __init__(self, A, s, B, c):
        self.A = A
        self.s = s
        self.B = B
        self.c = c

    def predict_viability(self, data):
        raise NotImplementedError

    def predict_conditional_mean(self, data):
        raise NotImplementedError

    def predict_conditional_variance(self, data):
        raise NotImplementedError

    def private_parameters_dict(self):
        return {"A": self.A, "s": self.s}

    def shared_parameters_dict(self):
        return {"B": self.B, "c": self.c}

    @classmethod
    def from_dicts(cls, private_params, shared_params):
        return cls(A=private_params["A"], s=private_params["s"], B=shared_params["B"], c=shared_params["c"])


def holder_roundtrip(h, fn):
    h.save_h5(fn)
    return ThetaHolder.load_h5(fn)
