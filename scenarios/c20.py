"""Scenario driver for C20 (harness code calling the real save/load)."""
from batchie.models.main import ModelEvaluation


def evaluation_roundtrip(m, fn):
    m.save_h5(fn)
    return ModelEvaluation.load_h5(fn)
