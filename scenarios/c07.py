"""Scenario drivers for C07 (harness code; the functions called are the real ones, used through their contracts)."""
from batchie.distance_calculation import ChunkedDistanceMatrix


def save_then_load(m, filename):
    m.save(filename)
    return ChunkedDistanceMatrix.load(filename)
