"""Scenario drivers for C02 (harness code calling the real save/load functions)."""
from batchie.data import Screen, ExperimentSpace


def screen_roundtrip(s, fn):
    s.save_h5(fn)
    return Screen.load_h5(fn)


def space_roundtrip(e, fn):
    e.save_h5(fn)
    return ExperimentSpace.load_h5(fn)
