/-
  Mathematical lemmas used by the pyvc verification conditions (instantiated explicitly on the SMT side),
  and the property-level theorems that SMT cannot do (combinadic bijection, counting).
  Compiled against Mathlib on every run of the checks that use them:  lean lean/Batchie.lean
-/
import Mathlib.Data.Nat.Choose.Basic
import Mathlib.Data.Finset.Powerset
import Mathlib.Data.Multiset.Basic
import Mathlib.Algebra.BigOperators.Group.Finset.Basic
import Mathlib.Algebra.BigOperators.Group.Multiset.Basic
import Mathlib.Tactic

namespace Batchie

/-! ### binomial facts (SMT side: `C : Int × Int → Int`, instances guarded by the non-negativity hypotheses) -/

theorem pascal (n k : ℕ) : Nat.choose (n + 1) (k + 1) = Nat.choose n (k + 1) + Nat.choose n k := by
  rw [Nat.choose_succ_succ', Nat.add_comm]

theorem absorb (n k : ℕ) : Nat.choose (n + 1) (k + 1) * (k + 1) = (n + 1) * Nat.choose n k :=
  (Nat.add_one_mul_choose_eq n k).symm

theorem succ_right (n k : ℕ) : Nat.choose n (k + 1) * (k + 1) = Nat.choose n k * (n - k) :=
  Nat.choose_succ_right_eq n k

theorem mul_succ (m j : ℕ) : Nat.choose m j * (m + 1) = Nat.choose (m + 1) j * (m + 1 - j) :=
  Nat.choose_mul_succ_eq m j

theorem choose_zero (n k : ℕ) (h : n < k) : Nat.choose n k = 0 := Nat.choose_eq_zero_of_lt h

theorem choose_pos (n k : ℕ) (h : k ≤ n) : 1 ≤ Nat.choose n k := Nat.choose_pos h

theorem choose_n0 (n : ℕ) : Nat.choose n 0 = 1 := Nat.choose_zero_right n

theorem choose_nonneg (n k : ℕ) : 0 ≤ Nat.choose n k := Nat.zero_le _

/-! ### integer division (z3 `div` = Euclidean division = Lean `Int./`) -/

theorem div_exact (a b : ℤ) (hb : 0 < b) : (b * a) / b = a :=
  Int.mul_ediv_cancel_left a (ne_of_gt hb)

theorem div_eq (x b y : ℤ) (hb : 0 < b) (h : x = b * y) : x / b = y := by
  subst h; exact Int.mul_ediv_cancel_left y (ne_of_gt hb)

/-- C17: quotient bookkeeping of the thinning loop. -/
theorem div_succ (i t : ℤ) (_hi : 0 ≤ i) (ht : 1 ≤ t) :
    i = t * (i / t) + i % t ∧ 0 ≤ i % t ∧ i % t < t ∧
    (((i + 1) % t = 0 → (i + 1) / t = i / t + 1 ∧ i + 1 = t * (i / t + 1)) ∧
     ((i + 1) % t ≠ 0 → (i + 1) / t = i / t)) := by
  have tpos : 0 < t := by omega
  have h1 : t * (i / t) + i % t = i := Int.mul_ediv_add_emod i t
  have h2 := Int.emod_nonneg i (ne_of_gt tpos)
  have h3 := Int.emod_lt_of_pos i tpos
  have hd : t * (i / t + 1) = t * (i / t) + t := by ring
  refine ⟨by omega, h2, h3, ?_, ?_⟩
  · intro h0
    by_cases hr : i % t + 1 = t
    · have key := (Int.ediv_emod_unique tpos (a := i + 1) (q := i / t + 1) (r := 0)).mpr
        ⟨by omega, le_refl 0, tpos⟩
      exact ⟨key.1, by omega⟩
    · have key := (Int.ediv_emod_unique tpos (a := i + 1) (q := i / t) (r := i % t + 1)).mpr
        ⟨by omega, by omega, by omega⟩
      omega
  · intro h0
    by_cases hr : i % t + 1 = t
    · have key := (Int.ediv_emod_unique tpos (a := i + 1) (q := i / t + 1) (r := 0)).mpr
        ⟨by omega, le_refl 0, tpos⟩
      exact absurd key.2 h0
    · have key := (Int.ediv_emod_unique tpos (a := i + 1) (q := i / t) (r := i % t + 1)).mpr
        ⟨by omega, by omega, by omega⟩
      exact key.1

/-- C16: a batch of m*k single-sample plates in which every sample has at most k plates and at most one
    sample is incomplete (strictly between 0 and k) gives every sample zero or exactly k plates.
    `l` is the multiset of the batch plates' sample ids; `l.count s` is b(s). -/
theorem batch_complete (l : Multiset ℕ) (k m : ℕ)
    (hlen : Multiset.card l = m * k) (hle : ∀ s, l.count s ≤ k)
    (huniq : ∀ s s', 0 < l.count s → l.count s < k → 0 < l.count s' → l.count s' < k → s = s') :
    ∀ s, l.count s = 0 ∨ l.count s = k := by
  intro s
  by_contra hcon0
  have hcon := not_or.mp hcon0
  have hs1 : 0 < l.count s := Nat.pos_of_ne_zero hcon.1
  have hs2 : l.count s < k := lt_of_le_of_ne (hle s) hcon.2
  have hmem : s ∈ l.toFinset := by
    rw [Multiset.mem_toFinset]; exact Multiset.count_pos.mp hs1
  have hsum := Multiset.toFinset_sum_count_eq l
  rw [← Finset.add_sum_erase _ _ hmem] at hsum
  have hdvd : k ∣ ∑ a ∈ l.toFinset.erase s, l.count a := by
    apply Finset.dvd_sum
    intro a ha
    have hne : a ≠ s := (Finset.mem_erase.mp ha).1
    by_cases h0 : l.count a = 0
    · rw [h0]; exact dvd_zero k
    · have : l.count a = k := by
        by_contra hk'
        exact hne (huniq a s (Nat.pos_of_ne_zero h0) (lt_of_le_of_ne (hle a) hk') hs1 hs2)
      rw [this]
  obtain ⟨c, hc⟩ := hdvd
  rw [hc, hlen] at hsum
  have h1 : k ∣ l.count s + k * c := by rw [hsum]; exact Dvd.intro_left m rfl
  have h2 : k ∣ l.count s := (Nat.dvd_add_left (Dvd.intro c rfl)).mp h1
  have := Nat.le_of_dvd hs1 h2
  omega

/-! ### C07: tiling of [0,T) by monotone boundaries; pigeonhole for complete matrices -/

/-- boundaries b 0 = 0 ≤ b 1 ≤ … ≤ b N = T: every position below T lies in exactly one section. -/
theorem interval_tiling (b : ℕ → ℕ) (N T : ℕ) (h0 : b 0 = 0) (hN : b N = T) :
    ∀ p, p < T → ∃ c, c < N ∧ b c ≤ p ∧ p < b (c + 1) := by
  intro p hp
  by_contra hcon
  have hall : ∀ c, c ≤ N → b c ≤ p := by
    intro c
    induction c with
    | zero => intro _; omega
    | succ c ih =>
        intro hc
        have ihc := ih (by omega)
        by_contra hlt
        exact hcon ⟨c, by omega, ihc, by omega⟩
  have := hall N (le_refl N)
  omega

theorem interval_tiling_unique (b : ℕ → ℕ) (N : ℕ) (hmono : ∀ c, c < N → b c ≤ b (c + 1))
    (c c' p : ℕ) (hc : c < N) (hc' : c' < N) (h1 : b c ≤ p ∧ p < b (c + 1)) (h2 : b c' ≤ p ∧ p < b (c' + 1)) :
    c = c' := by
  have mono : ∀ x y, x ≤ y → y ≤ N → b x ≤ b y := by
    intro x y hxy
    induction y with
    | zero => intro _; have : x = 0 := by omega
              subst this; exact le_refl _
    | succ y ih =>
        intro hy
        rcases Nat.lt_or_ge x (y + 1) with hlt | hge
        · exact le_trans (ih (by omega) (by omega)) (hmono y (by omega))
        · have : x = y + 1 := by omega
          subst this; exact le_refl _
  rcases Nat.lt_trichotomy c c' with h | h | h
  · have := mono (c + 1) c' (by omega) (by omega); omega
  · exact h
  · have := mono (c' + 1) c (by omega) (by omega); omega

/-- T pairwise distinct valid keys, where valid keys embed injectively into [0,T) via g, hit every valid key. -/
theorem pigeonhole_pairs {α : Type} (T : ℕ) (g : α → ℕ) (key : Fin T → α) (valid : α → Prop)
    (hkv : ∀ k, valid (key k)) (hinj_key : Function.Injective key)
    (hg_range : ∀ p, valid p → g p < T) (hg_inj : ∀ p q, valid p → valid q → g p = g q → p = q) :
    ∀ p, valid p → ∃ k, key k = p := by
  intro p hp
  let h : Fin T → Fin T := fun k => ⟨g (key k), hg_range _ (hkv k)⟩
  have hinj : Function.Injective h := by
    intro a b hab
    have : g (key a) = g (key b) := by simpa [h] using congrArg Fin.val hab
    exact hinj_key (hg_inj _ _ (hkv a) (hkv b) this)
  have hsurj : Function.Surjective h := Finite.injective_iff_surjective.mp hinj
  obtain ⟨k, hk⟩ := hsurj ⟨g p, hg_range p hp⟩
  refine ⟨k, ?_⟩
  have : g (key k) = g p := by simpa [h] using congrArg Fin.val hk
  exact hg_inj _ _ (hkv k) hp this

/-- m pairwise distinct valid keys that hit every valid key: m = T (the matrix is complete). -/
theorem complete_count {α : Type} (T m : ℕ) (g : α → ℕ) (key : Fin m → α) (valid : α → Prop)
    (hkv : ∀ k, valid (key k)) (hinj_key : Function.Injective key)
    (hg_range : ∀ p, valid p → g p < T) (hg_inj : ∀ p q, valid p → valid q → g p = g q → p = q)
    (hg_surj : ∀ t, t < T → ∃ p, valid p ∧ g p = t)
    (hcover : ∀ p, valid p → ∃ k, key k = p) : m = T := by
  let h : Fin m → Fin T := fun k => ⟨g (key k), hg_range _ (hkv k)⟩
  have hinj : Function.Injective h := by
    intro a b hab
    have : g (key a) = g (key b) := by simpa [h] using congrArg Fin.val hab
    exact hinj_key (hg_inj _ _ (hkv a) (hkv b) this)
  have hsurj : Function.Surjective h := by
    intro t
    obtain ⟨p, hp, hgp⟩ := hg_surj t.val t.isLt
    obtain ⟨k, hk⟩ := hcover p hp
    refine ⟨k, ?_⟩
    apply Fin.ext
    simp [h, hk, hgp]
  have := Fintype.card_of_bijective ⟨hinj, hsurj⟩
  simpa using this

/-- C11/C13: marking k pairwise distinct positions below n marks exactly k positions. -/
theorem scatter_count (n k : ℕ) (ix : Fin k → Fin n) (hinj : Function.Injective ix) :
    (Finset.univ.filter (fun p : Fin n => ∃ j, ix j = p)).card = k := by
  have h : Finset.univ.filter (fun p : Fin n => ∃ j, ix j = p) = Finset.univ.image ix := by
    ext p; simp
  rw [h, Finset.card_image_of_injective _ hinj]; simp

/-- C11: the rows selected by a mask and by its complement together are all rows. -/
theorem rank_complement (n : ℕ) (m : Fin n → Bool) :
    (Finset.univ.filter (fun p : Fin n => m p = false)).card + (Finset.univ.filter (fun p : Fin n => m p = true)).card = n := by
  have h := Finset.card_filter_add_card_filter_not (s := (Finset.univ : Finset (Fin n))) (fun p => m p = true)
  simp only [Finset.card_univ, Fintype.card_fin] at h
  have h2 : (Finset.univ.filter (fun p : Fin n => ¬ (m p = true))) = (Finset.univ.filter (fun p : Fin n => m p = false)) := by
    ext p; simp
  rw [h2] at h; omega

theorem rank_none_or_all (n : ℕ) (m : Fin n → Bool) :
    ((∀ p, m p = false) → (Finset.univ.filter (fun p : Fin n => m p = true)).card = 0) ∧
    ((∀ p, m p = true) → (Finset.univ.filter (fun p : Fin n => m p = true)).card = n) := by
  constructor
  · intro h; simp [h]
  · intro h; simp [h]

/-- C11: a boolean selection splits a list into two parts that together are a permutation of it. -/
theorem filter_partition {α : Type} (p : α → Bool) (l : List α) :
    List.Perm (l.filter p ++ l.filter (fun x => !p x)) l :=
  List.filter_append_perm p l

/-! ### C15: the combinadic rank is strictly monotone (hence injective) and bounded by C(n,k);
    with equal finite cardinalities this makes unranking a bijection. -/

/-- rank of a strictly descending list `[c_k, …, c_1]`: Σ_j C(c_j, j). -/
def crank : List ℕ → ℕ
  | [] => 0
  | (c :: t) => Nat.choose c (t.length + 1) + crank t

abbrev Desc (l : List ℕ) : Prop := List.Pairwise (· > ·) l

theorem crank_lt : ∀ (t : List ℕ) (c : ℕ), Desc (c :: t) →
    crank (c :: t) < Nat.choose (c + 1) (t.length + 1)
  | [], c, _ => by simp [crank]
  | (d :: t'), c, h => by
      have h' := List.pairwise_cons.mp h
      have hs : Desc (d :: t') := h'.2
      have hdc : d < c := h'.1 d (List.mem_cons_self)
      have ih := crank_lt t' d hs
      have hle : Nat.choose (d + 1) (t'.length + 1) ≤ Nat.choose c (t'.length + 1) :=
        Nat.choose_le_choose _ (by omega)
      have hp : Nat.choose (c + 1) (t'.length + 1 + 1)
          = Nat.choose c (t'.length + 1) + Nat.choose c (t'.length + 1 + 1) :=
        Nat.choose_succ_succ c (t'.length + 1)
      simp only [crank, List.length_cons] at ih ⊢
      omega

theorem crank_mono : ∀ (a b : List ℕ), a.length = b.length → Desc a → Desc b →
    List.Lex (· < ·) a b → crank a < crank b
  | [], [], _, _, _, h => by cases h
  | [], (_ :: _), hl, _, _, _ => by simp at hl
  | (_ :: _), [], hl, _, _, _ => by simp at hl
  | (x :: a'), (y :: b'), hl, ha, hb, h => by
      have hl' : a'.length = b'.length := by simpa using hl
      cases h with
      | rel hxy =>
          have h1 := crank_lt a' x ha
          have h2 : Nat.choose (x + 1) (a'.length + 1) ≤ Nat.choose y (b'.length + 1) := by
            rw [hl']; exact Nat.choose_le_choose _ (by omega)
          simp only [crank] at h1 ⊢
          omega
      | cons hab =>
          have ih := crank_mono a' b' hl' (List.pairwise_cons.mp ha).2 (List.pairwise_cons.mp hb).2 hab
          simp only [crank, hl']
          omega

theorem crank_lt_choose (l : List ℕ) (n : ℕ) (hd : Desc l) (hb : ∀ x ∈ l, x < n) :
    crank l < Nat.choose n l.length ∨ l = [] := by
  cases l with
  | nil => right; rfl
  | cons c t =>
      left
      have h1 := crank_lt t c hd
      have : Nat.choose (c + 1) (t.length + 1) ≤ Nat.choose n (t.length + 1) :=
        Nat.choose_le_choose _ (by have := hb c (List.mem_cons_self); omega)
      simp only [List.length_cons]; omega

theorem lex_total : ∀ (a b : List ℕ), a.length = b.length → a ≠ b →
    List.Lex (· < ·) a b ∨ List.Lex (· < ·) b a
  | [], [], _, h => absurd rfl h
  | [], (_ :: _), hl, _ => by simp at hl
  | (_ :: _), [], hl, _ => by simp at hl
  | (x :: a'), (y :: b'), hl, h => by
      rcases lt_trichotomy x y with hxy | hxy | hxy
      · left; exact List.Lex.rel hxy
      · subst hxy
        have hl' : a'.length = b'.length := by simpa using hl
        have hne : a' ≠ b' := fun e => h (by rw [e])
        rcases lex_total a' b' hl' hne with h1 | h1
        · left; exact List.Lex.cons h1
        · right; exact List.Lex.cons h1
      · right; exact List.Lex.rel hxy

/-- Injectivity: two strictly descending lists of the same length with the same rank are equal. -/
theorem crank_inj (a b : List ℕ) (hl : a.length = b.length) (ha : Desc a) (hb : Desc b)
    (h : crank a = crank b) : a = b := by
  by_contra hne
  rcases lex_total a b hl hne with hlt | hgt
  · have := crank_mono a b hl ha hb hlt; omega
  · have := crank_mono b a hl.symm hb ha hgt; omega

/-- C15 property-level theorem.  `u` is any function that satisfies the *postcondition* proved (by SMT, from
    the real source) for `generate_combination_at_sorted_index`; then `u` enumerates every strictly
    descending k-tuple below n exactly once, in ascending lexicographic order. -/
theorem unrank_bijective (n k : ℕ) (u : ℕ → List ℕ)
    (hu : ∀ i, i < Nat.choose n k →
      Desc (u i) ∧ (u i).length = k ∧ (∀ x ∈ u i, x < n) ∧ crank (u i) = i) :
    (∀ i j, i < Nat.choose n k → j < Nat.choose n k → u i = u j → i = j) ∧
    (∀ i j, i < j → j < Nat.choose n k → List.Lex (· < ·) (u i) (u j)) ∧
    (∀ l, Desc l → l.length = k → (∀ x ∈ l, x < n) → ∃ i, i < Nat.choose n k ∧ u i = l) := by
  refine ⟨?_, ?_, ?_⟩
  · intro i j hi hj h
    have := (hu i hi).2.2.2
    have := (hu j hj).2.2.2
    rw [h] at *
    omega
  · intro i j hij hj
    have hi : i < Nat.choose n k := lt_trans hij hj
    obtain ⟨di, li, _, ci⟩ := hu i hi
    obtain ⟨dj, lj, _, cj⟩ := hu j hj
    by_cases he : u i = u j
    · rw [he] at ci; omega
    · rcases lex_total (u i) (u j) (by omega) he with h | h
      · exact h
      · have := crank_mono (u j) (u i) (by omega) dj di h; omega
  · intro l dl ll bl
    have hlt : crank l < Nat.choose n k := by
      rcases crank_lt_choose l n dl bl with h | h
      · rw [ll] at h; exact h
      · subst h; simp at ll; subst ll; simp [crank]
    refine ⟨crank l, hlt, ?_⟩
    obtain ⟨d, len, _, c⟩ := hu (crank l) hlt
    exact crank_inj _ _ (by omega) d dl c


/-- C01: if every value 0..v occurs among u 0 .. u (m-1) then v < m (pigeonhole; used for "the experiment-space size strictly
bounds every id"). -/
theorem dense_bound (m : ℕ) (u : ℕ → ℤ) (v : ℤ) (hv : 0 ≤ v)
    (h : ∀ w : ℤ, 0 ≤ w → w ≤ v → ∃ j, j < m ∧ u j = w) : v < m := by
  have hsub : Finset.Icc (0:ℤ) v ⊆ (Finset.range m).image u := by
    intro w hw
    rw [Finset.mem_Icc] at hw
    obtain ⟨j, hj, rfl⟩ := h w hw.1 hw.2
    exact Finset.mem_image.mpr ⟨j, Finset.mem_range.mpr hj, rfl⟩
  have h1 := Finset.card_le_card hsub
  have h2 : ((Finset.range m).image u).card ≤ m := by
    simpa using Finset.card_image_le (s := Finset.range m) (f := u)
  rw [Int.card_Icc] at h1
  have h3 : (v + 1 - 0).toNat ≤ m := le_trans h1 h2
  omega


/-- C01: L pairwise distinct values that all occur among u 0 .. u (m-1) need m >= L (pigeonhole; used for "the number of distinct sample
names equals the length of a duplicate-free mapping"). -/
theorem distinct_le {α : Type} [DecidableEq α] (L m : ℕ) (a u : ℕ → α)
    (hinj : ∀ i j, i < L → j < L → a i = a j → i = j)
    (hin : ∀ i, i < L → ∃ j, j < m ∧ u j = a i) : L ≤ m := by
  have h1 : ((Finset.range L).image a).card = L := by
    rw [Finset.card_image_of_injOn]
    · simp
    · intro i hi j hj h
      exact hinj i j (Finset.mem_range.mp hi) (Finset.mem_range.mp hj) h
  have hsub : (Finset.range L).image a ⊆ (Finset.range m).image u := by
    intro x hx
    obtain ⟨i, hi, rfl⟩ := Finset.mem_image.mp hx
    obtain ⟨j, hj, hj2⟩ := hin i (Finset.mem_range.mp hi)
    exact Finset.mem_image.mpr ⟨j, Finset.mem_range.mpr hj, hj2⟩
  have h2 := Finset.card_le_card hsub
  have h3 : ((Finset.range m).image u).card ≤ m := by
    simpa using Finset.card_image_le (s := Finset.range m) (f := u)
  omega

end Batchie
