"""pyvc symbolic executor / verification-condition generator.

Paths are explored by *re-execution with a decision prefix*: the function body is interpreted from the
start once per path; at a symbolic branch the first feasible alternative is taken and the other one is
queued as a new prefix.  Loops with a LoopSpec are cut by their invariant (init / havoc+assume / keep),
calls to functions with a Contract are replaced by the contract, other /repo functions are inlined,
library calls are dispatched to the models in pyvc.lib.
Every obligation is  (facts so far) => goal ; after being emitted the goal is assumed on that path.
"""
import ast
import z3
from . import repo
from .values import *  # noqa
from .spec import (REGISTRY, CLASS_MODELS, BindError, NS, Contract, LoopSpec, named, z3and, Type,
                   TObj, USED_LEMMAS)

MAX_INLINE_DEPTH = 6
MAX_PATHS = 4000


class PathAbort(Exception):
    """Path ends without reaching the function end (infeasible, loop body end, ...)."""


class PyRaise(Exception):
    def __init__(self, exc, node=None):
        self.exc = exc
        self.node = node


class _Return(Exception):
    def __init__(self, value):
        self.value = value


class _Break(Exception):
    pass


class _Continue(Exception):
    pass


class Oblig:
    def __init__(self, name, hyps, goal, loc, kind):
        self.name, self.hyps, self.goal, self.loc, self.kind = name, hyps, goal, loc, kind

    def smt2(self):
        s = z3.Solver()
        for h in self.hyps:
            s.add(h)
        s.add(z3.Not(self.goal))
        return s.to_smt2()


class Ctx:
    """Per-path context."""

    def __init__(self, prefix, fn_label, feas_rlimit=2_000_000):
        self.prefix = list(prefix)
        self.decisions = []
        self.pending = []  # alternative prefixes discovered on this path
        self.facts = []
        self.qf_facts = []
        self.obligs = []
        self.counter = {}
        self.fn_label = fn_label
        self.feas = z3.Solver()
        self.feas.set("rlimit", feas_rlimit)
        self.ghost = {}
        self.trace = []  # abstract call log (ghost)
        self.unsupported = None
        self.interp = None
        self.tainted = False
        self.scopes = []  # [(bound consts, guard)] : inside, obligations and facts are universally generalised

    def fresh(self, name, sort):
        if self.scopes and not getattr(self, "_allow_fresh_in_scope", False):
            raise Unsupported("a fresh symbol (%s) would be created inside a quantified comprehension body" % name)
        n = self.counter.get(name, 0)
        self.counter[name] = n + 1
        nm = name if n == 0 else "%s!%d" % (name, n)
        return z3.Const(nm, sort)

    def fresh_array(self, name, sort):
        return self.fresh(name, sort)

    def assume(self, f):
        from .spec import Forall, Using, Focus
        if isinstance(f, Using):
            f = f.goal
        if isinstance(f, Forall):
            f = f.as_formula()
        if self.scopes and is_z3(f):
            f = self._generalise(f)
        if f is True:
            return
        if f is False:
            raise PathAbort()
        if not is_z3(f):
            f = z3.BoolVal(bool(f))
        if z3.is_true(f):
            return
        self.facts.append(f)
        if not _has_quant(f):
            self.feas.add(f)

    def _generalise(self, f):
        for vs, guard in reversed(self.scopes):
            if any(_mentions(f, v) for v in vs):
                f = z3.ForAll(list(vs), z3.Implies(guard, f))
            else:
                f = f
        return f

    def prove(self, name, goal, node=None, kind="post"):
        from .spec import Forall, Using, Focus
        if self.scopes and is_z3(goal):
            goal = self._generalise(goal) if any(_mentions(goal, v) for vs, _ in self.scopes for v in vs) else goal
            self.obligs.append(Oblig(name, list(self.facts), z3.simplify(goal), _loc(node), kind))
            return
        if isinstance(goal, Using):
            for f in goal.lemmas:
                self.assume(f)
            return self.prove(name, goal.goal, node, kind)
        if isinstance(goal, Focus):
            g = z3.simplify(goal.goal)
            hyps = [h for h in self.facts if not any(_mentions(h, w) for w in goal.without)]
            self.obligs.append(Oblig(name, hyps, g, _loc(node), kind))
            self.assume(g)
            return
        if isinstance(goal, Forall):
            cs, seeds, body = goal.skolemized(self)
            hyps = list(self.facts)
            if goal.without:
                hyps = [h for h in hyps if not any(_mentions(h, w) for w in goal.without)]
            if getattr(goal, "lemmas", None):
                hyps += list(goal.lemmas(*cs))
            for n_, t in enumerate(seeds):
                # keep the seed term alive in the e-graph: g(t) = c with g, c fresh (conservative)
                g = z3.Function("seed!%s" % t.sort().name(), t.sort(), Int)
                hyps.append(g(t) == self.fresh("seedc", Int))
            self.obligs.append(Oblig(name, hyps, z3.simplify(body), _loc(node), kind))
            self.assume(goal.as_formula())
            return
        if not is_z3(goal):
            goal = z3.BoolVal(bool(goal))
        goal = z3.simplify(goal)
        loc = _loc(node)
        self.obligs.append(Oblig(name, list(self.facts), goal, loc, kind))
        if z3.is_false(goal):
            # a literally-false goal holds only on an infeasible path: do not poison the rest of the path with it
            self.tainted = True
            return
        self.assume(goal)

    def feasible(self, cond):
        self.feas.push()
        self.feas.add(cond)
        r = self.feas.check()
        self.feas.pop()
        return r != z3.unsat

    def decide(self, cond):
        """Branch on a z3 Bool. Returns Python bool for this path."""
        if isinstance(cond, bool):
            return cond
        cond = z3.simplify(cond)
        if z3.is_true(cond):
            return True
        if z3.is_false(cond):
            return False
        if self.scopes:
            raise Unsupported("branching on a symbolic condition inside a quantified comprehension body")
        i = len(self.decisions)
        if i < len(self.prefix):
            v = self.prefix[i]
        else:
            ft = self.feasible(cond)
            ff = self.feasible(z3.Not(cond))
            if ft and ff:
                v = True
                self.pending.append(self.decisions + [False])
            elif ft:
                v = True
            elif ff:
                v = False
            else:
                raise PathAbort()
        self.decisions.append(v)
        self.assume(cond if v else z3.Not(cond))
        return v

    def choose(self, n, label=""):
        """Nondeterministic choice among n alternatives (0..n-1), all explored."""
        for k in range(n - 1):
            i = len(self.decisions)
            if i < len(self.prefix):
                v = self.prefix[i]
            else:
                v = True
                self.pending.append(self.decisions + [False])
            self.decisions.append(v)
            if v:
                return k
        return n - 1

    def classref(self, qualname):
        return self.interp.classref(qualname)


def _mentions(f, v):
    seen = set()
    stack = [f]
    vid = v.get_id()
    while stack:
        e = stack.pop()
        if e.get_id() in seen:
            continue
        seen.add(e.get_id())
        if e.get_id() == vid:
            return True
        if z3.is_quantifier(e):
            stack.append(e.body())
        else:
            stack.extend(e.children())
    return False


def _has_quant(f):
    seen = set()
    stack = [f]
    while stack:
        e = stack.pop()
        if e.get_id() in seen:
            continue
        seen.add(e.get_id())
        if z3.is_quantifier(e):
            return True
        stack.extend(e.children())
    return False


def _loc(node):
    if node is None:
        return ""
    return "line %s" % getattr(node, "lineno", "?")


class Frame:
    def __init__(self, module, fn_node, qualname, locals_, depth=0, cls=None):
        self.module = module
        self.fn_node = fn_node
        self.qualname = qualname
        self.locals = locals_
        self.depth = depth
        self.cls = cls
        self.yielded = None  # SymList when generator
        self.contract = REGISTRY.get(qualname)
        self.loop_keys = repo.loop_keys(fn_node) if fn_node is not None else {}
        self.entry = dict(locals_)
        self.verifying = False


class GenV:
    """Generator object: fully evaluated sequence + cursor (generator bodies here are effect-free)."""

    def __init__(self, seq):
        self.seq = seq  # Seq  (or PyList when concrete)
        self.pos = 0


class Interp:
    def __init__(self, ctx, lib):
        self.ctx = ctx
        ctx.interp = self
        self.lib = lib
        self._classrefs = {}
        self._cur_label = None
        self._cur_frame = None
        if hasattr(lib, "on_new_path"):
            lib.on_new_path(self)

    # ------------------------------------------------------------------ names / modules
    def classref(self, qualname):
        if qualname in self._classrefs:
            return self._classrefs[qualname]
        from .spec import SYNTH_CLASSES
        if qualname in SYNTH_CLASSES:
            cr = ClassRef(qualname, None, None)
            cr.bases_override = SYNTH_CLASSES[qualname]
            self._classrefs[qualname] = cr
            return cr
        try:
            m, node = repo.find(qualname)
        except KeyError:
            m, node = None, None
        cr = ClassRef(qualname, node, m)
        self._classrefs[qualname] = cr
        return cr

    def resolve_dotted(self, dotted, node=None):
        """Resolve an imported dotted name to a value."""
        if dotted in self.lib.VALUES:
            return self.lib.VALUES[dotted]
        if dotted in self.lib.FUNCS:
            return Builtin(dotted)
        if dotted.startswith("batchie"):
            if repo.is_repo_module(dotted):
                return ModuleRef(dotted)
            mod, _, name = dotted.rpartition(".")
            if repo.is_repo_module(mod):
                m = repo.load(mod)
                return self.module_attr(m, name, node)
        return ModuleRef(dotted)

    def module_attr(self, m, name, node=None):
        if name in m.defs:
            d = m.defs[name]
            q = m.dotted + "." + name
            if isinstance(d, ast.ClassDef):
                return self.classref(q)
            return Closure(d, m, qualname=q)
        if name in m.imports:
            return self.resolve_dotted(m.imports[name], node)
        if name in m.globals_src:
            fr = Frame(m, None, m.dotted + ".<module>", {})
            return self.eval(m.globals_src[name], fr)
        raise Unsupported("name %r not found in module %s" % (name, m.dotted), node)

    def lookup(self, name, fr, node):
        if name in fr.locals:
            return fr.locals[name]
        env = getattr(fr, "closure_env", None)
        while env is not None:
            if name in env[0]:
                return env[0][name]
            env = env[1]
        m = fr.module
        if m is not None and (name in m.defs or name in m.imports or name in m.globals_src):
            return self.module_attr(m, name, node)
        if name in self.lib.BUILTINS:
            return Builtin(name)
        if name in ("True", "False", "None"):
            return {"True": True, "False": False, "None": None}[name]
        raise Unsupported("unbound name %r" % name, node)

    # ------------------------------------------------------------------ truthiness & operators
    def truth(self, v, node=None):
        if isinstance(v, bool):
            return v
        if v is None:
            return False
        if isinstance(v, (int, float)):
            return v != 0
        if isinstance(v, str):
            return len(v) > 0
        if isinstance(v, tuple):
            return len(v) > 0
        if is_z3(v):
            if v.sort() == Bool:
                return v
            if v.sort() == Int:
                return v != 0
            if v.sort() == Real:
                return v != 0
            raise Unsupported("truthiness of sort %s" % v.sort(), node)
        if isinstance(v, PyList):
            return len(v.items) > 0
        if isinstance(v, PyDict):
            return len(v.items) > 0
        if isinstance(v, SymList):
            return v.seq.length > 0
        if isinstance(v, Seq):
            return v.length > 0
        if isinstance(v, OptV):
            return z3.And(z3.Not(v.isnone), _b(self.truth(v.val, node)))
        if isinstance(v, (Obj, AObj, Closure, ClassRef)):
            return True
        t = self.lib.truth(self, v, node)
        if t is not NotImplemented:
            return t
        raise Unsupported("truthiness of %r" % (v,), node)

    def branch(self, v, node=None):
        return self.ctx.decide(self.truth(v, node))

    def unopt(self, v, node):
        """use of an Optional value where None is not acceptable: obligation that it is not None, then unwrap"""
        if isinstance(v, OptV):
            self.safe("not_none", z3.Not(v.isnone), node)
            return v.val
        return v

    def binop(self, op, a, b, node):
        a, b = self.unopt(a, node), self.unopt(b, node)
        r = self.lib.binop(self, op, a, b, node)
        if r is not NotImplemented:
            return r
        if isinstance(a, OptV) or isinstance(b, OptV):
            raise Unsupported("arithmetic on Optional", node)
        conc = not is_z3(a) and not is_z3(b)
        if isinstance(op, ast.Add):
            if isinstance(a, PyList) and isinstance(b, PyList):
                return PyList(a.items + b.items)
            if isinstance(a, tuple) and isinstance(b, tuple):
                return a + b
            if isinstance(a, (SymList, PyList)) and isinstance(b, (SymList, PyList)):
                return self.lib.seq_concat(self, a, b, node)
            if conc:
                return a + b
            return _arith(a, b, lambda x, y: x + y)
        if isinstance(op, ast.Sub):
            if conc:
                return a - b
            return _arith(a, b, lambda x, y: x - y)
        if isinstance(op, ast.Mult):
            if isinstance(a, PyList) and isinstance(b, int):
                return PyList(a.items * b)
            if isinstance(a, PyList) and len(a.items) == 1 and is_sym_int(b) and (is_z3(a.items[0]) or isinstance(a.items[0], int)):
                # [x] * n with symbolic n: max(n, 0) copies of x
                x = to_z3(a.items[0], Int) if not is_z3(a.items[0]) else a.items[0]
                L = z3.If(b < 0, z3.IntVal(0), b)
                return SymList(Seq(L, z3.K(Int, x)))
            if conc:
                return a * b
            return _arith(a, b, lambda x, y: x * y)
        if isinstance(op, ast.FloorDiv):
            if conc:
                if b == 0:
                    raise PyRaise(ExcVal("ZeroDivisionError"), node)
                return a // b
            a, b = _coerce2(a, b)
            if a.sort() != Int:
                raise Unsupported("// on reals", node)
            self.safe("div", b != 0, node)
            return pyfloordiv(a, b)
        if isinstance(op, ast.Mod):
            if conc and not isinstance(a, str):
                if b == 0:
                    raise PyRaise(ExcVal("ZeroDivisionError"), node)
                return a % b
            a, b = _coerce2(a, b)
            if a.sort() != Int:
                raise Unsupported("% on reals", node)
            self.safe("div", b != 0, node)
            return a - b * pyfloordiv(a, b)
        if isinstance(op, ast.Div):
            if conc:
                if b == 0:
                    raise PyRaise(ExcVal("ZeroDivisionError"), node)
                return a / b
            a, b = to_z3(a, Real), to_z3(b, Real)
            self.safe("div", b != 0, node)
            return a / b
        if isinstance(op, ast.Pow):
            if conc:
                return a ** b
            if isinstance(b, int) and 0 <= b <= 4:
                r = None
                a = to_z3(a)
                for _ in range(b):
                    r = a if r is None else r * a
                return r if r is not None else z3.IntVal(1)
            raise Unsupported("** with symbolic exponent", node)
        if isinstance(op, (ast.BitAnd, ast.BitOr, ast.BitXor)):
            if conc:
                return {ast.BitAnd: lambda: a & b, ast.BitOr: lambda: a | b, ast.BitXor: lambda: a ^ b}[type(op)]()
            a, b = to_z3(a), to_z3(b)
            if a.sort() == Bool and b.sort() == Bool:
                return {ast.BitAnd: z3.And, ast.BitOr: z3.Or, ast.BitXor: z3.Xor}[type(op)](a, b)
            raise Unsupported("bit operation on ints", node)
        raise Unsupported("binary operator %s" % type(op).__name__, node)

    def safe(self, kind, cond, node):
        """Safety obligation (would raise otherwise)."""
        if cond is True:
            return
        fr = self._cur_frame
        self.ctx.prove("%s/safe:%s@%s" % (self._cur_label, kind, getattr(node, "lineno", "?")), cond, node, "safe")

    def compare(self, op, a, b, node):
        r = self.lib.compare(self, op, a, b, node)
        if r is not NotImplemented:
            return r
        if isinstance(op, (ast.Is, ast.IsNot)):
            res = self.identical(a, b, node)
            return _not(res) if isinstance(op, ast.IsNot) else res
        if isinstance(op, (ast.In, ast.NotIn)):
            res = self.contains(b, a, node)
            return _not(res) if isinstance(op, ast.NotIn) else res
        if isinstance(op, ast.Eq):
            return self.equal(a, b, node)
        if isinstance(op, ast.NotEq):
            return _not(self.equal(a, b, node))
        if isinstance(a, OptV) or isinstance(b, OptV):
            # None < x is a TypeError: obligation "not None", then the ordering of the values
            for x in (a, b):
                if isinstance(x, OptV):
                    self.safe("not_none", z3.Not(x.isnone), node)
            a = a.val if isinstance(a, OptV) else a
            b = b.val if isinstance(b, OptV) else b
        if not is_z3(a) and not is_z3(b):
            return {ast.Lt: lambda: a < b, ast.LtE: lambda: a <= b, ast.Gt: lambda: a > b,
                    ast.GtE: lambda: a >= b}[type(op)]()
        a, b = _coerce2(a, b)
        return {ast.Lt: lambda: a < b, ast.LtE: lambda: a <= b, ast.Gt: lambda: a > b,
                ast.GtE: lambda: a >= b}[type(op)]()

    def identical(self, a, b, node):
        if isinstance(a, OptV):
            a, b = b, a
        if isinstance(b, OptV):
            if a is None:
                return b.isnone
            raise Unsupported("identity on Optional", node)
        if a is None or b is None:
            if is_z3(a) or is_z3(b):
                return False
            return a is b
        if isinstance(a, (Obj, PyList, PyDict, SymList)) or isinstance(b, (Obj, PyList, PyDict, SymList)):
            return a is b
        if isinstance(a, AObj) and isinstance(b, AObj):
            return a.term == b.term
        if isinstance(a, bool) and isinstance(b, bool):
            return a is b
        r = self.lib.identical(self, a, b, node)
        if r is not NotImplemented:
            return r
        raise Unsupported("identity comparison of %r and %r" % (a, b), node)

    def equal(self, a, b, node=None):
        if isinstance(a, OptV) or isinstance(b, OptV):
            if isinstance(b, OptV) and not isinstance(a, OptV):
                a, b = b, a
            if b is None:
                return a.isnone
            if isinstance(b, OptV):
                return z3.Or(z3.And(a.isnone, b.isnone),
                             z3.And(z3.Not(a.isnone), z3.Not(b.isnone), _b(self.equal(a.val, b.val, node))))
            return z3.And(z3.Not(a.isnone), _b(self.equal(a.val, b, node)))
        if a is None or b is None:
            return a is None and b is None
        if isinstance(a, tuple) and isinstance(b, tuple):
            if len(a) != len(b):
                return False
            return _and([self.equal(x, y, node) for x, y in zip(a, b)])
        if isinstance(a, str) or isinstance(b, str):
            if isinstance(a, str) and isinstance(b, str):
                return a == b
            r = self.lib.str_equal(self, a, b, node)
            if r is not NotImplemented:
                return r
        if not is_z3(a) and not is_z3(b) and isinstance(a, (int, float, bool)) and isinstance(b, (int, float, bool)):
            return a == b
        if isinstance(a, AObj) and isinstance(b, AObj):
            return a.term == b.term
        if (is_z3(a) or isinstance(a, (int, float, bool))) and (is_z3(b) or isinstance(b, (int, float, bool))):
            x, y = _coerce2(a, b)
            return x == y
        if isinstance(a, ClassRef) and isinstance(b, ClassRef):
            return a.qualname == b.qualname
        if isinstance(a, Obj) and isinstance(b, Obj):
            return a is b  # default object __eq__ is identity
        raise Unsupported("equality of %r and %r" % (a, b), node)

    def contains(self, container, item, node):
        if isinstance(container, (PyList,)):
            return _or([self.equal(x, item, node) for x in container.items])
        if isinstance(container, tuple):
            return _or([self.equal(x, item, node) for x in container])
        if isinstance(container, PyDict):
            if not _is_conc_key(item):
                return _or([self.equal(k, item, node) for k in container.items])
            return item in container.items
        r = self.lib.contains(self, container, item, node)
        if r is not NotImplemented:
            return r
        raise Unsupported("'in' on %r" % (container,), node)

    # ------------------------------------------------------------------ expressions
    def eval(self, node, fr):
        m = getattr(self, "eval_" + type(node).__name__, None)
        if m is None:
            raise Unsupported("expression %s" % type(node).__name__, node)
        return m(node, fr)

    def eval_Constant(self, node, fr):
        return node.value  # includes Ellipsis

    def eval_Name(self, node, fr):
        v = self.lookup(node.id, fr, node)
        if isinstance(v, OptV):
            # narrow Optional values when the path condition already decides none-ness
            if not self.ctx.feasible(v.isnone):
                return v.val
            if not self.ctx.feasible(z3.Not(v.isnone)):
                return None
        return v

    def eval_Tuple(self, node, fr):
        out = []
        for e in node.elts:
            if isinstance(e, ast.Starred):
                out.extend(self.concrete_items(self.eval(e.value, fr), e))
            else:
                out.append(self.eval(e, fr))
        return tuple(out)

    def eval_List(self, node, fr):
        return PyList(list(self.eval_Tuple(node, fr)))

    def eval_Set(self, node, fr):
        return self.lib.make_set(self, list(self.eval_Tuple(node, fr)), node)

    def eval_Dict(self, node, fr):
        d = PyDict()
        for k, v in zip(node.keys, node.values):
            if k is None:
                raise Unsupported("dict unpacking", node)
            kk = self.eval(k, fr)
            if not _is_conc_key(kk):
                raise Unsupported("dict literal with symbolic key", node)
            d.items[kk] = self.eval(v, fr)
        return d

    def eval_JoinedStr(self, node, fr):
        # f-string: literal text and *integer-valued names* are kept (path components like f"iter_{i}"); anything else is an
        # opaque message placeholder (messages are never inspected)
        parts = []
        for v in node.values:
            if isinstance(v, ast.Constant) and isinstance(v.value, str):
                parts.append(v.value)
            elif isinstance(v, ast.FormattedValue) and isinstance(v.value, ast.Name) and v.conversion == -1 and v.format_spec is None \
                    and v.value.id in fr.locals and (isinstance(fr.locals[v.value.id], int) or is_sym_int(fr.locals[v.value.id])) \
                    and not isinstance(fr.locals[v.value.id], bool):
                parts.append(fr.locals[v.value.id])
            elif isinstance(v, ast.FormattedValue) and isinstance(v.value, ast.Name) and v.conversion == -1 and v.format_spec is None \
                    and isinstance(fr.locals.get(v.value.id), AObj) and fr.locals[v.value.id].clsname == "fs.Path":
                parts.append(fr.locals[v.value.id])  # a path interpolated into a message
            else:
                return "<fstring@%s>" % node.lineno
        if all(isinstance(x, str) for x in parts):
            return "".join(parts)
        from .lib.fs import FStr
        return FStr(parts)

    def eval_BinOp(self, node, fr):
        return self.binop(node.op, self.eval(node.left, fr), self.eval(node.right, fr), node)

    def eval_UnaryOp(self, node, fr):
        v = self.eval(node.operand, fr)
        if isinstance(node.op, ast.Not):
            return _not(self.truth(v, node))
        r = self.lib.unaryop(self, node.op, v, node)
        if r is not NotImplemented:
            return r
        if isinstance(node.op, ast.USub):
            return -v if not is_z3(v) else -v
        if isinstance(node.op, ast.UAdd):
            return v
        if isinstance(node.op, ast.Invert):
            if is_sym_bool(v):
                return z3.Not(v)
            if isinstance(v, bool):
                raise Unsupported("~ on python bool", node)
            if isinstance(v, int):
                return ~v
        raise Unsupported("unary operator", node)

    def eval_BoolOp(self, node, fr):
        # short-circuit with path split only when later operands may have effects/raise; we evaluate lazily
        is_and = isinstance(node.op, ast.And)
        vals = node.values
        if self.ctx.scopes:
            # inside a quantified comprehension body: no path split; operands must be pure (obligations of later
            # operands are NOT weakened by the short-circuit guard, which only makes them stronger)
            ts = [_b(self.truth(self.eval(x, fr), node)) for x in vals]
            return z3.And(*ts) if is_and else z3.Or(*ts)
        v = self.eval(vals[0], fr)
        for nxt in vals[1:]:
            t = self.truth(v, node)
            if isinstance(t, bool):
                if (is_and and not t) or (not is_and and t):
                    return v
                v = self.eval(nxt, fr)
                continue
            # symbolic: branch so that the right operand is only evaluated when needed
            take = self.ctx.decide(t)
            if (is_and and not take) or (not is_and and take):
                return _pybool_of(v, take)
            v = self.eval(nxt, fr)
        return v

    def eval_Compare(self, node, fr):
        left = self.eval(node.left, fr)
        res = []
        for op, rn in zip(node.ops, node.comparators):
            right = self.eval(rn, fr)
            res.append(self.compare(op, left, right, node))
            left = right
        return _and(res)

    def eval_IfExp(self, node, fr):
        if self.branch(self.eval(node.test, fr), node):
            return self.eval(node.body, fr)
        return self.eval(node.orelse, fr)

    def eval_Lambda(self, node, fr):
        c = Closure(node, fr.module, env=(fr.locals, getattr(fr, "closure_env", None)))
        return c

    def eval_Attribute(self, node, fr):
        v = self.eval(node.value, fr)
        return self.getattr(v, node.attr, node, fr)

    def eval_Subscript(self, node, fr):
        v = self.eval(node.value, fr)
        idx = self.eval_index(node.slice, fr)
        return self.getitem(v, idx, node)

    def eval_index(self, sl, fr):
        if isinstance(sl, ast.Slice):
            return SliceV(self.eval(sl.lower, fr) if sl.lower else None,
                          self.eval(sl.upper, fr) if sl.upper else None,
                          self.eval(sl.step, fr) if sl.step else None)
        if isinstance(sl, ast.Tuple):
            return tuple(self.eval_index(e, fr) for e in sl.elts)
        return self.eval(sl, fr)

    def eval_Starred(self, node, fr):
        raise Unsupported("starred expression outside call/tuple", node)

    def eval_Call(self, node, fr):
        f = self.eval(node.func, fr)
        args = []
        for a in node.args:
            if isinstance(a, ast.Starred):
                args.extend(self.concrete_items(self.eval(a.value, fr), a))
            else:
                args.append(self.eval(a, fr))
        kwargs = {}
        for kw in node.keywords:
            if kw.arg is None:
                d = self.eval(kw.value, fr)
                if not isinstance(d, PyDict):
                    raise Unsupported("** of non-dict", node)
                kwargs.update(d.items)
            else:
                kwargs[kw.arg] = self.eval(kw.value, fr)
        return self.call(f, args, kwargs, node, fr)

    def eval_ListComp(self, node, fr):
        return self.lib.comprehension(self, node, fr, "list")

    def eval_SetComp(self, node, fr):
        return self.lib.comprehension(self, node, fr, "set")

    def eval_GeneratorExp(self, node, fr):
        return self.lib.comprehension(self, node, fr, "gen")

    def eval_DictComp(self, node, fr):
        return self.lib.comprehension(self, node, fr, "dict")

    # ------------------------------------------------------------------ attribute / item protocol
    def getattr(self, v, name, node, fr=None):
        v = self.unopt(v, node)
        if isinstance(v, ModuleRef):
            d = v.dotted + "." + name
            if repo.is_repo_module(v.dotted):
                return self.module_attr(repo.load(v.dotted), name, node)
            return self.resolve_dotted(d, node)
        if isinstance(v, Obj):
            if name in v.fields:
                return v.fields[name]
            if name == "__class__":
                return v.cls
            meth = self.find_method(v.cls, name)
            if meth is not None:
                kind, target = meth
                if kind == "property":
                    return self.call(BoundMethod(v, target), [], {}, node, fr)
                if kind == "static":
                    return target
                if kind == "classmethod":
                    return BoundMethod(v.cls, target)
                return BoundMethod(v, target)
            raise Unsupported("attribute %r of %r" % (name, v), node)
        if isinstance(v, AObj):
            model = CLASS_MODELS.get(v.clsname, {})
            if name in model:
                return model[name](self, v)
            from .spec import CLASS_QUAL
            q = CLASS_QUAL.get(v.clsname)
            if q is not None:
                cref = self.classref(q)
                if name == "__class__":
                    return cref
                meth = self.find_method(cref, name)
                if meth is not None:
                    kind, target = meth
                    if kind == "property":
                        return self.call(BoundMethod(v, target), [], {}, node, fr)
                    if kind == "static":
                        return target
                    if kind == "classmethod":
                        return BoundMethod(cref, target)
                    return BoundMethod(v, target)
            raise Unsupported("attribute %r of abstract %s" % (name, v.clsname), node)
        if isinstance(v, ClassRef):
            if name == "__name__":
                return v.qualname.rsplit(".", 1)[-1]
            if name == "__module__":
                return v.qualname.rsplit(".", 1)[0]
            meth = self.find_method(v, name)
            if meth is not None:
                kind, target = meth
                if kind == "classmethod":
                    return BoundMethod(v, target)
                return target
            raise Unsupported("class attribute %s.%s" % (v.qualname, name), node)
        r = self.lib.getattr(self, v, name, node, fr)
        if r is not NotImplemented:
            return r
        raise Unsupported("attribute %r of %r" % (name, v), node)

    def class_mro(self, cref):
        out = [cref]
        if getattr(cref, "bases_override", None):
            for b in cref.bases_override:
                out.extend(self.class_mro(self.classref(b)))
            return out
        if cref.node is not None:
            for b in cref.node.bases:
                try:
                    fr = Frame(cref.module, None, "<bases>", {})
                    bv = self.eval(b, fr)
                except Unsupported:
                    continue
                if isinstance(bv, ClassRef):
                    out.extend(self.class_mro(bv))
        return out

    def find_method(self, cref, name):
        if not isinstance(cref, ClassRef):
            return None
        for c in self.class_mro(cref):
            q = c.qualname + "." + name
            if c.node is None:
                if q in REGISTRY:
                    ct = REGISTRY[q]
                    return (getattr(ct, "method_kind", "method"), Closure(None, None, qualname=q, cls=c))
                continue
            for s in c.node.body:
                if isinstance(s, ast.FunctionDef) and s.name == name:
                    kind = "method"
                    for d in s.decorator_list:
                        dn = d.id if isinstance(d, ast.Name) else (d.attr if isinstance(d, ast.Attribute) else "")
                        if dn == "property":
                            kind = "property"
                        elif dn == "staticmethod":
                            kind = "static"
                        elif dn == "classmethod":
                            kind = "classmethod"
                    return (kind, Closure(s, c.module, qualname=q, cls=c))
        return None

    def isinstance_(self, v, cls, node):
        if isinstance(cls, tuple):
            return _or([self.isinstance_(v, c, node) for c in cls])
        if isinstance(cls, ClassRef):
            if isinstance(v, Obj) and isinstance(v.cls, ClassRef):
                return any(c.qualname == cls.qualname for c in self.class_mro(v.cls))
            if isinstance(v, AObj):
                from .spec import CLASS_QUAL
                q = CLASS_QUAL.get(v.clsname)
                if q is not None:
                    return any(c.qualname == cls.qualname for c in self.class_mro(self.classref(q)))
                return v.clsname == cls.qualname or v.clsname == cls.qualname.rsplit(".", 1)[-1]
            return False
        r = self.lib.isinstance_(self, v, cls, node)
        if r is not NotImplemented:
            return r
        raise Unsupported("isinstance against %r" % (cls,), node)

    def getitem(self, v, idx, node):
        v = self.unopt(v, node)
        if isinstance(v, (tuple, PyList)):
            items = v if isinstance(v, tuple) else v.items
            if isinstance(idx, SliceV):
                if all(isinstance(x, (int, type(None))) for x in (idx.lo, idx.hi, idx.step)):
                    r = items[slice(idx.lo, idx.hi, idx.step)]
                    return tuple(r) if isinstance(v, tuple) else PyList(r)
                raise Unsupported("symbolic slice of concrete list", node)
            if isinstance(idx, int) and not isinstance(idx, bool):
                if -len(items) <= idx < len(items):
                    return items[idx]
                raise PyRaise(ExcVal("IndexError"), node)
            if is_sym_int(idx):
                # symbolic index into concrete list: case split
                self.safe("index", z3.And(idx >= -len(items), idx < len(items)), node)
                for k in range(len(items)):
                    if self.ctx.decide(z3.Or(idx == k, idx == k - len(items))):
                        return items[k]
                raise PathAbort()
            raise Unsupported("index %r into list" % (idx,), node)
        if isinstance(v, PyDict):
            if _is_conc_key(idx):
                if idx in v.items:
                    return v.items[idx]
                if v.default is not None:
                    v.items[idx] = self.lib.default_value(v.default)
                    return v.items[idx]
                raise PyRaise(ExcVal("KeyError"), node)
            raise Unsupported("symbolic key into concrete dict", node)
        if isinstance(v, SymList):
            return self.lib.seq_getitem(self, v, idx, node)
        if isinstance(v, Seq):
            return self.lib.seq_getitem(self, SymList(v), idx, node)
        r = self.lib.getitem(self, v, idx, node)
        if r is not NotImplemented:
            return r
        raise Unsupported("subscript of %r" % (v,), node)

    def setitem(self, v, idx, val, node):
        if isinstance(v, PyList):
            if isinstance(idx, int) and -len(v.items) <= idx < len(v.items):
                v.items[idx] = val
                return
            raise Unsupported("list store at %r" % (idx,), node)
        if isinstance(v, PyDict):
            if _is_conc_key(idx):
                v.items[idx] = val
                return
            raise Unsupported("dict store with symbolic key", node)
        r = self.lib.setitem(self, v, idx, val, node)
        if r is not NotImplemented:
            return
        raise Unsupported("subscript store on %r" % (v,), node)

    def concrete_items(self, v, node):
        """Items of an iterable of concrete length."""
        if isinstance(v, tuple):
            return list(v)
        if isinstance(v, PyList):
            return list(v.items)
        if isinstance(v, PyDict):
            return list(v.items.keys())
        if isinstance(v, RangeV) and v.concrete():
            return list(range(v.start, v.stop, v.step))
        if isinstance(v, ZipV):
            parts = [self.concrete_items(p, node) for p in v.parts]
            return [tuple(t) for t in zip(*parts)]
        if isinstance(v, EnumV):
            return [(v.start + i, x) for i, x in enumerate(self.concrete_items(v.inner, node))]
        if isinstance(v, GenV) and isinstance(v.seq, PyList):
            r = v.seq.items[v.pos:]
            v.pos = len(v.seq.items)
            return r
        r = self.lib.concrete_items(self, v, node)
        if r is not NotImplemented:
            return r
        raise Unsupported("cannot enumerate %r concretely" % (v,), node)

    def sym_iter(self, v, node):
        """(length term, get(k) -> value) for an iterable of symbolic length; or None if concrete."""
        if isinstance(v, RangeV):
            if v.concrete():
                return None
            return v.length(), v.get
        if isinstance(v, SymList):
            w = v.elem_wrap or (lambda x: x)
            seq = v.seq
            return seq.length, (lambda k: _wrap(w, seq.get(k)))
        if isinstance(v, Seq):
            return v.length, v.get
        if isinstance(v, GenV) and isinstance(v.seq, Seq):
            seq, pos = v.seq, v.pos
            return seq.length - pos, (lambda k: seq.get(k + pos))
        if isinstance(v, ZipV):
            subs = [self.sym_iter(p, node) for p in v.parts]
            if all(s is None for s in subs):
                return None
            lens, gets = [], []
            for p, s in zip(v.parts, subs):
                if s is None:
                    items = self.concrete_items(p, node)
                    raise Unsupported("zip of concrete and symbolic iterables", node)
                lens.append(s[0])
                gets.append(s[1])
            L = lens[0]
            for x in lens[1:]:
                L = z3.If(x < L, x, L)
            return L, (lambda k: tuple(g(k) for g in gets))
        if isinstance(v, EnumV):
            s = self.sym_iter(v.inner, node)
            if s is None:
                return None
            st = v.start
            return s[0], (lambda k: (k + st, s[1](k)))
        r = self.lib.sym_iter(self, v, node)
        if r is not NotImplemented:
            return r
        return None

    # ------------------------------------------------------------------ calls
    def call(self, f, args, kwargs, node, fr):
        if isinstance(f, Builtin):
            fn = self.lib.FUNCS.get(f.name) or self.lib.BUILTINS.get(f.name)
            if fn is None:
                raise Unsupported("no model for library function %s" % f.name, node)
            return fn(self, args, kwargs, node, fr)
        if isinstance(f, BoundMethod):
            if isinstance(f.func, Closure):
                return self.call_closure(f.func, [f.self_val] + list(args), kwargs, node, fr)
            if isinstance(f.func, Builtin):
                return self.call(f.func, [f.self_val] + list(args), kwargs, node, fr)
            if callable(f.func):
                return f.func(self, f.self_val, args, kwargs, node, fr)
        if isinstance(f, Closure):
            return self.call_closure(f, list(args), kwargs, node, fr)
        if isinstance(f, ClassRef):
            return self.instantiate(f, args, kwargs, node, fr)
        if isinstance(f, ModuleRef):
            if f.dotted in self.lib.FUNCS:
                return self.lib.FUNCS[f.dotted](self, args, kwargs, node, fr)
            raise Unsupported("no model for library function %s" % f.dotted, node)
        if callable(f):
            return f(self, args, kwargs, node, fr)
        raise Unsupported("call of %r" % (f,), node)

    def instantiate(self, cref, args, kwargs, node, fr):
        if cref.qualname in self.lib.CLASSES:
            return self.lib.CLASSES[cref.qualname](self, args, kwargs, node, fr)
        if cref.node is None and (cref.qualname + ".__init__") not in REGISTRY:
            raise Unsupported("instantiation of unknown class %s" % cref.qualname, node)
        if _is_exception_class(self, cref):
            return ExcVal(cref.qualname.rsplit(".", 1)[-1], tuple(args))
        o = Obj(cref)
        init = self.find_method(cref, "__init__")
        if init is not None:
            self.call_closure(init[1], [o] + list(args), kwargs, node, fr)
        return o

    def bind_args(self, fnode, args, kwargs, node, closure):
        a = fnode.args
        names = [x.arg for x in a.posonlyargs + a.args]
        out = {}
        if len(args) > len(names) and a.vararg is None:
            raise Unsupported("too many positional arguments", node)
        for n, v in zip(names, args):
            out[n] = v
        if a.vararg is not None:
            out[a.vararg.arg] = tuple(args[len(names):])
        defaults = dict(zip(names[len(names) - len(a.defaults):], a.defaults))
        kwonly = [x.arg for x in a.kwonlyargs]
        kwdefaults = dict(zip(kwonly, a.kw_defaults))
        extra = {}
        for k, v in kwargs.items():
            if k in names or k in kwonly:
                out[k] = v
            elif a.kwarg is not None:
                extra[k] = v
            else:
                raise PyRaise(ExcVal("TypeError", ("unexpected keyword %s" % k,)), node)
        if a.kwarg is not None:
            out[a.kwarg.arg] = PyDict(extra)
        dfr = Frame(closure.module, None, "<defaults>", {})
        for n in names + kwonly:
            if n not in out:
                d = defaults.get(n) if n in defaults else kwdefaults.get(n)
                if d is None:
                    raise PyRaise(ExcVal("TypeError", ("missing argument %s" % n,)), node)
                out[n] = self.eval(d, dfr)
        return out

    def call_closure(self, c, args, kwargs, node, fr):
        ct = REGISTRY.get(c.qualname) if c.qualname else None
        verifying_this = fr is not None and getattr(fr, "verifying_qual", None) == c.qualname and False
        if ct is not None and not ct.inline:
            return self.apply_contract(ct, c, args, kwargs, node, fr)
        if c.node is None:
            raise Unsupported("no body and no contract for %s" % c.qualname, node)
        depth = (fr.depth + 1) if fr is not None else 0
        if depth > MAX_INLINE_DEPTH:
            raise Unsupported("inline depth exceeded at %s" % c.qualname, node)
        if isinstance(c.node, ast.Lambda):
            loc = self.bind_args(c.node, args, kwargs, node, c)
            nfr = Frame(c.module, c.node, "<lambda>", loc, depth)
            nfr.closure_env = c.env
            return self.eval(c.node.body, nfr)
        for d in c.node.decorator_list:
            dn = d.id if isinstance(d, ast.Name) else (d.attr if isinstance(d, ast.Attribute) else "?")
            if dn not in ("staticmethod", "classmethod", "property", "abstractmethod"):
                raise Unsupported("decorator @%s on %s is not modelled (it may change the function's meaning)"
                                  % (dn, c.qualname or c.node.name), node)
        loc = self.bind_args(c.node, args, kwargs, node, c)
        nfr = Frame(c.module, c.node, c.qualname or c.node.name, loc, depth, cls=c.cls)
        nfr.closure_env = c.env
        return self.run_body(nfr)

    def run_body(self, nfr):
        is_gen = _is_generator(nfr.fn_node)
        if is_gen:
            yt = getattr(nfr.contract, "yields", None) if nfr.contract is not None else None
            if yt is not None:
                from .spec import _cols_for_type
                nfr.yielded = SymList(Seq(z3.IntVal(0), _cols_for_type(yt, self.ctx, "yielded")))
            else:
                nfr.yielded = PyList([])
        saved = (getattr(self, "_cur_frame", None), getattr(self, "_cur_label", None))
        self._cur_frame = nfr
        if saved[1] is None or nfr.depth == 0:
            self._cur_label = nfr.qualname
        try:
            try:
                self.exec_block(nfr.fn_node.body, nfr)
                ret = None
            except _Return as r:
                ret = r.value
        finally:
            self._cur_frame, self._cur_label = saved[0], saved[1] if saved[1] is not None else None
        if is_gen:
            y = nfr.yielded
            return GenV(y.seq if isinstance(y, SymList) else y)
        return ret

    def apply_contract(self, ct, c, args, kwargs, node, fr):
        """Use a callee's contract at a call site."""
        if ct.apply is not None:
            if c.node is not None:
                loc = self.bind_args(c.node, args, kwargs, node, c)
            else:
                loc = {"args": args, "kwargs": kwargs}
                for (pn, _), v in zip(ct.params, args):
                    loc[pn] = v
                loc.update(kwargs)
            r_ = ct.apply(self, NS(loc, "argument"), node, fr)
            if r_ is not NotImplemented:
                return r_
        if c.node is not None:
            loc = self.bind_args(c.node, args, kwargs, node, c)
        else:
            loc = {}
            for (pn, _), v in zip(ct.params, args):
                loc[pn] = v
            loc.update(kwargs)
        from .verify import snapshot
        old = {k: snapshot(self, v) for k, v in loc.items()}
        loc = dict(loc)
        loc["old"] = NS(old, "entry value")
        loc["ghost"] = self.ctx.ghost
        a = NS(loc, "argument")
        label = self._cur_label
        for i, rq in enumerate(ct._requires):
            for nm, f in named(_aslist(rq(a)), "pre"):
                self.ctx.prove("%s/call:%s:%s@%s" % (label, ct.qualname.rsplit(".", 1)[-1], nm,
                                                     getattr(node, "lineno", "?")), f, node, "call")
        for u in ct.uses:
            for f in _aslist(u(a)):
                self.ctx.assume(f)
        # exceptional outcomes
        for exc, when, iff in ct._raises:
            cond = when(a)
            cond = cond if is_z3(cond) else z3.BoolVal(bool(cond))
            if self.ctx.decide(cond):
                raise PyRaise(ExcVal(exc), node)
        # frame: havoc what the callee may modify
        mf = getattr(ct, "modifies_fields", None)
        if mf is not None and mf:
            recv = loc.get("self")
            if isinstance(recv, Obj):
                self.havoc_object(recv, "self", node, set(mf), rebind=True)
        for pn in getattr(ct, "modifies_params", []) or []:
            if pn in loc and not _immutable(loc[pn]):
                self.havoc_object(loc[pn], pn, node)
        creates = getattr(ct, "creates", None)
        if creates:
            recv = loc.get("self")
            for f, t in creates.items():
                recv.fields[f] = t.fresh(self.ctx, "new.%s" % f)
                if hasattr(recv.fields[f], "origin"):
                    recv.fields[f].origin = "fresh"  # arrays allocated by a constructor belong to the new object
        if ct.returns is None:
            ret = None
        else:
            ret = ct.returns.fresh(self.ctx, "ret_" + ct.qualname.rsplit(".", 1)[-1])
        eret = ret.seq if (ct.kind == "generator" and isinstance(ret, SymList)) else ret
        for nm, e in ct._ensures:
            for f in _aslist(e(a, eret, self)):
                self.ctx.assume(f[1] if isinstance(f, tuple) else f)
        if ct.kind == "generator":
            return GenV(eret)
        return ret

    # ------------------------------------------------------------------ statements
    def exec_block(self, stmts, fr):
        for st in stmts:
            self.exec(st, fr)

    def exec(self, st, fr):
        m = getattr(self, "exec_" + type(st).__name__, None)
        if m is None:
            raise Unsupported("statement %s" % type(st).__name__, st)
        return m(st, fr)

    def exec_Pass(self, st, fr):
        pass

    def exec_Expr(self, st, fr):
        if isinstance(st.value, ast.Yield):
            self.do_yield(self.eval(st.value.value, fr) if st.value.value else None, fr, st)
            return
        self.eval(st.value, fr)

    def do_yield(self, v, fr, node):
        y = fr.yielded
        if isinstance(y, PyList):
            y.items.append(v)
        else:
            self.lib.seq_append(self, y, v, node)

    def exec_Return(self, st, fr):
        raise _Return(self.eval(st.value, fr) if st.value is not None else None)

    def exec_Assign(self, st, fr):
        v = self.eval(st.value, fr)
        for t in st.targets:
            self.assign(t, v, fr)
        ct = getattr(fr, "contract", None)
        if ct is not None and getattr(ct, "afters", None) and len(st.targets) == 1 and isinstance(st.targets[0], ast.Name):
            # ghost lemmas attached to "after the assignment to <name>": proved here (small context), then available below
            for ordinal, f in ct.afters.get(st.targets[0].id, []):
                seen = fr.__dict__.setdefault("_after_seen", {})
                n = seen.get(st.targets[0].id, 0)
                if ordinal is not None and ordinal != self._assign_ordinal(fr, st):
                    continue
                self.ctx.ghost.setdefault("_after_fired", set()).add((st.targets[0].id, ordinal))
                label = "%s/lemma@%s" % (self._cur_label if fr.depth == 0 else fr.qualname, st.targets[0].id)
                for nm, g in named(_aslist(f(self.state_view(fr, None, None))), "lemma"):
                    self.ctx.prove("%s:%s" % (label, nm), g, st, "lemma")

    def _assign_ordinal(self, fr, st):
        """k for the k-th assignment statement (in source order) to that name in the function"""
        name = st.targets[0].id
        k = 0
        for n in ast.walk(fr.fn_node):
            if isinstance(n, ast.Assign) and len(n.targets) == 1 and isinstance(n.targets[0], ast.Name) and n.targets[0].id == name:
                if n is st:
                    return k
                k += 1
        return -1

    def exec_AnnAssign(self, st, fr):
        if st.value is not None:
            self.assign(st.target, self.eval(st.value, fr), fr)

    def exec_AugAssign(self, st, fr):
        if isinstance(st.target, ast.Name):
            cur = self.unopt(self.eval_Name(st.target, fr), st)
            r = self.lib.inplace(self, st.op, cur, lambda: self.eval(st.value, fr), st)
            if r is not NotImplemented:
                return
            fr.locals[st.target.id] = self.binop(st.op, cur, self.eval(st.value, fr), st)
        elif isinstance(st.target, ast.Attribute):
            o = self.eval(st.target.value, fr)
            cur = self.getattr(o, st.target.attr, st, fr)
            r = self.lib.inplace(self, st.op, cur, lambda: self.eval(st.value, fr), st)
            if r is not NotImplemented:
                return
            self.setattr(o, st.target.attr, self.binop(st.op, cur, self.eval(st.value, fr), st), st)
        elif isinstance(st.target, ast.Subscript):
            o = self.eval(st.target.value, fr)
            idx = self.eval_index(st.target.slice, fr)
            cur = self.getitem(o, idx, st)
            self.setitem(o, idx, self.binop(st.op, cur, self.eval(st.value, fr), st), st)
        else:
            raise Unsupported("augmented assignment target", st)

    def setattr(self, o, name, v, node):
        if isinstance(o, Obj):
            o.fields[name] = v
            return
        raise Unsupported("attribute store on %r" % (o,), node)

    def assign(self, t, v, fr):
        if isinstance(t, ast.Name):
            fr.locals[t.id] = v
        elif isinstance(t, (ast.Tuple, ast.List)):
            stars = [k for k, e in enumerate(t.elts) if isinstance(e, ast.Starred)]
            if len(stars) == 1 and isinstance(v, (tuple, PyList)):
                # a, *rest, z = <concrete-length sequence>
                seq = list(v) if isinstance(v, tuple) else list(v.items)
                k0, n_after = stars[0], len(t.elts) - stars[0] - 1
                if len(seq) < len(t.elts) - 1:
                    raise PyRaise(ExcVal("ValueError", ("unpack",)), t)
                for e, x in zip(t.elts[:k0], seq[:k0]):
                    self.assign(e, x, fr)
                self.assign(t.elts[k0].value, PyList(seq[k0:len(seq) - n_after]), fr)
                for e, x in zip(t.elts[k0 + 1:], seq[len(seq) - n_after:] if n_after else []):
                    self.assign(e, x, fr)
                return
            if stars:
                raise Unsupported("starred assignment target", t)
            items = self.unpack(v, len(t.elts), t)
            for e, x in zip(t.elts, items):
                self.assign(e, x, fr)
        elif isinstance(t, ast.Attribute):
            self.setattr(self.eval(t.value, fr), t.attr, v, t)
        elif isinstance(t, ast.Subscript):
            self.setitem(self.eval(t.value, fr), self.eval_index(t.slice, fr), v, t)
        else:
            raise Unsupported("assignment target %s" % type(t).__name__, t)

    def unpack(self, v, n, node):
        if isinstance(v, tuple):
            items = list(v)
        elif isinstance(v, PyList):
            items = list(v.items)
        else:
            r = self.lib.unpack(self, v, n, node)
            if r is NotImplemented:
                raise Unsupported("unpacking %r" % (v,), node)
            items = r
        if len(items) != n:
            raise PyRaise(ExcVal("ValueError", ("unpack",)), node)
        return items

    def exec_If(self, st, fr):
        if self.branch(self.eval(st.test, fr), st):
            self.exec_block(st.body, fr)
        else:
            self.exec_block(st.orelse, fr)

    def exec_Assert(self, st, fr):
        if not self.branch(self.eval(st.test, fr), st):
            raise PyRaise(ExcVal("AssertionError"), st)

    def exec_Raise(self, st, fr):
        if st.exc is None:
            raise Unsupported("bare raise", st)
        e = self.eval(st.exc, fr)
        if isinstance(e, ClassRef):
            e = ExcVal(e.qualname.rsplit(".", 1)[-1])
        if isinstance(e, Builtin):
            e = ExcVal(e.name)
        if not isinstance(e, ExcVal):
            raise Unsupported("raise of %r" % (e,), st)
        raise PyRaise(e, st)

    def exec_Try(self, st, fr):
        if st.finalbody:
            raise Unsupported("try/finally", st)
        try:
            self.exec_block(st.body, fr)
        except PyRaise as pr:
            for h in st.handlers:
                if h.type is None or self.exc_matches(pr.exc, h.type, fr):
                    if h.name:
                        fr.locals[h.name] = pr.exc
                    self.exec_block(h.body, fr)
                    return
            raise
        else:
            self.exec_block(st.orelse, fr)

    def exc_matches(self, exc, tnode, fr):
        names = []
        if isinstance(tnode, ast.Tuple):
            names = [getattr(e, "id", getattr(e, "attr", None)) for e in tnode.elts]
        else:
            names = [getattr(tnode, "id", getattr(tnode, "attr", None))]
        if "Exception" in names or "BaseException" in names:
            return True
        hier = {"KeyError": "LookupError", "IndexError": "LookupError", "ZeroDivisionError": "ArithmeticError",
                "LinAlgError": "ValueError"}
        n = exc.clsname
        while n is not None:
            if n in names:
                return True
            n = hier.get(n)
        return False

    def exec_With(self, st, fr):
        for item in st.items:
            v = self.eval(item.context_expr, fr)
            v = self.lib.with_enter(self, v, item, fr)
            if item.optional_vars is not None:
                self.assign(item.optional_vars, v, fr)
        self.exec_block(st.body, fr)

    def exec_Match(self, st, fr):
        subj = self.eval(st.subject, fr)
        for case in st.cases:
            p = case.pattern
            if isinstance(p, ast.MatchClass) and not p.patterns and not p.kwd_patterns:
                cls = self.eval(p.cls, fr)
                if self.ctx.decide(_b(self.isinstance_(subj, cls, st))):
                    if case.guard is not None and not self.branch(self.eval(case.guard, fr), st):
                        continue
                    self.exec_block(case.body, fr)
                    return
            elif isinstance(p, ast.MatchAs) and p.pattern is None:
                if p.name:
                    fr.locals[p.name] = subj
                if case.guard is not None and not self.branch(self.eval(case.guard, fr), st):
                    continue
                self.exec_block(case.body, fr)
                return
            else:
                raise Unsupported("match pattern %s" % type(p).__name__, st)

    def exec_FunctionDef(self, st, fr):
        fr.locals[st.name] = Closure(st, fr.module, env=(fr.locals, getattr(fr, "closure_env", None)),
                                     qualname=None)

    def exec_Delete(self, st, fr):
        for t in st.targets:
            if isinstance(t, ast.Name):
                fr.locals.pop(t.id, None)
            elif isinstance(t, ast.Subscript):
                o = self.eval(t.value, fr)
                idx = self.eval_index(t.slice, fr)
                r = self.lib.delitem(self, o, idx, t)
                if r is NotImplemented:
                    raise Unsupported("del subscript", st)
            else:
                raise Unsupported("del target", st)

    def exec_Global(self, st, fr):
        raise Unsupported("global statement", st)

    def exec_Import(self, st, fr):
        for a in st.names:
            fr.locals[a.asname or a.name.split(".")[0]] = ModuleRef(a.name if a.asname else a.name.split(".")[0])

    def exec_ImportFrom(self, st, fr):
        for a in st.names:
            fr.locals[a.asname or a.name] = self.resolve_dotted((st.module or "") + "." + a.name, st)

    def exec_Break(self, st, fr):
        raise _Break()

    def exec_Continue(self, st, fr):
        raise _Continue()

    # ------------------------------------------------------------------ loops
    def loop_spec(self, st, fr):
        key = fr.loop_keys.get(id(st))
        ct = fr.contract
        if ct is not None and key in ct.loops:
            return key, ct.loops[key]
        return key, None

    def exec_For(self, st, fr):
        it = self.eval(st.iter, fr)
        sym = self.sym_iter(it, st)
        if sym is None:
            items = self.concrete_items(it, st)
            broke = False
            for x in items:
                self.assign(st.target, x, fr)
                try:
                    self.exec_block(st.body, fr)
                except _Break:
                    broke = True
                    break
                except _Continue:
                    continue
            if not broke:
                self.exec_block(st.orelse, fr)
            return
        L, get = sym
        fr._loop_iter = it  # the iterated value itself (invariants may speak about "the first `it` items of what is being iterated")
        key, spec = self.loop_spec(st, fr)
        if spec is None:
            r = self.lib.auto_loop(self, st, fr, L, get)
            if r is not NotImplemented:
                return
            raise Unsupported("loop %s of %s over a symbolic-length iterable has no invariant" % (key, fr.qualname), st)
        if st.orelse:
            raise Unsupported("for/else with invariant", st)
        label = "%s/%s" % (self._cur_label if fr.depth == 0 else fr.qualname, key)
        ctx = self.ctx
        ctx.assume(L >= 0)
        fr._loop_pre = dict(fr.locals)
        self.prepare_types(spec, fr)
        # init
        self.check_invariant(spec, fr, 0, L, label, "init", st)
        # havoc
        itv = ctx.fresh("it_" + key.replace("#", ""), Int)
        ctx.assume(itv >= 0)
        ctx.assume(itv <= L)
        self.havoc_loop(st, spec, fr)
        self.assume_invariant(spec, fr, itv, L)
        pre = fr._loop_pre
        if ctx.decide(itv < L):
            self.assign(st.target, get(itv), fr)
            try:
                self.exec_block(st.body, fr)
            except _Continue:
                pass
            except _Break:
                return
            fr._loop_pre = pre
            self.check_invariant(spec, fr, itv + 1, L, label, "keep", st)
            raise PathAbort()
        else:
            ctx.assume(itv == L)
            return

    def exec_While(self, st, fr):
        key, spec = self.loop_spec(st, fr)
        if spec is None:
            # try bounded concrete execution (only if the condition stays concrete)
            n = 0
            while True:
                c = self.truth(self.eval(st.test, fr), st)
                if not isinstance(c, bool):
                    raise Unsupported("while loop %s of %s has no invariant" % (key, fr.qualname), st)
                if not c:
                    break
                n += 1
                if n > 10000:
                    raise Unsupported("concrete while loop too long", st)
                try:
                    self.exec_block(st.body, fr)
                except _Break:
                    return
                except _Continue:
                    continue
            self.exec_block(st.orelse, fr)
            return
        label = "%s/%s" % (self._cur_label if fr.depth == 0 else fr.qualname, key)
        ctx = self.ctx
        pre = dict(fr.locals)
        fr._loop_pre = pre
        self.prepare_types(spec, fr)
        self.check_invariant(spec, fr, None, None, label, "init", st)
        self.havoc_loop(st, spec, fr)
        fr._loop_pre = pre
        self.assume_invariant(spec, fr, None, None)
        if self.branch(self.eval(st.test, fr), st):
            dec0 = spec.decreases(self.state_view(fr, None, None)) if spec.decreases else None
            try:
                self.exec_block(st.body, fr)
            except _Continue:
                pass
            except _Break:
                return
            fr._loop_pre = pre
            self.check_invariant(spec, fr, None, None, label, "keep", st)
            if dec0 is not None:
                dec1 = spec.decreases(self.state_view(fr, None, None))
                ctx.prove("%s/dec" % label, z3.And(dec0 >= 0, dec1 < dec0), st, "dec")
            raise PathAbort()
        else:
            return

    def state_view(self, fr, itv, L):
        d = dict(fr.locals)
        d["it"] = itv
        d["L"] = L
        d["iterated"] = getattr(fr, "_loop_iter", None)
        d["old"] = NS(fr.entry, "entry value")
        d["pre"] = NS(getattr(fr, "_loop_pre", {}), "loop-entry value")
        d["yielded"] = fr.yielded.seq if isinstance(fr.yielded, SymList) else fr.yielded
        d["ghost"] = self.ctx.ghost
        d["interp"] = self
        return NS(d, "local variable")

    def check_invariant(self, spec, fr, itv, L, label, phase, node):
        for n in getattr(spec, "fresh_vars", None) or []:
            v = fr.locals.get(n)
            v = v.val if isinstance(v, OptV) else v
            if v is not None and getattr(v, "origin", "fresh") != "fresh":
                self.ctx.prove("%s/fresh:%s:%s" % (label, n, phase), z3.BoolVal(False), node, "frame")
        s = self.state_view(fr, itv, L)
        if spec.use:
            for f in _aslist(spec.use(s)):
                self.ctx.assume(f)
        for nm, f in named(_aslist(spec.invariant(s)), "inv"):
            self.ctx.prove("%s/%s:%s" % (label, nm, phase), f, node, "inv")

    def assume_invariant(self, spec, fr, itv, L):
        for n in getattr(spec, "fresh_vars", None) or []:
            v = fr.locals.get(n)
            v = v.val if isinstance(v, OptV) else v
            if v is not None and hasattr(v, "origin"):
                v.origin = "fresh"
        s = self.state_view(fr, itv, L)
        for nm, f in named(_aslist(spec.invariant(s)), "inv"):
            self.ctx.assume(f)
        if spec.use:
            for f in _aslist(spec.use(s)):
                self.ctx.assume(f)

    def prepare_types(self, spec, fr):
        """Fix the sorts of lazily typed containers (empty dict/set literals) named in spec.types."""
        for n, t in spec.types.items():
            v = fr.locals.get(n)
            if isinstance(t, tuple) and v is not None and hasattr(v, "init_sorts") and not v.ready:
                v.init_sorts(self, *t)
            elif isinstance(t, tuple) and isinstance(v, PyDict) and not v.items:
                # an empty dict literal that the loop fills with symbolic keys: re-type it as a symbolic map
                for k2, x in fr.locals.items():
                    if x is v and k2 != n:
                        raise Unsupported("empty dict %r is aliased by %r at loop entry" % (n, k2))
                from .lib.maps import SymMap
                m_ = SymMap()
                m_.init_sorts(self, *t)
                fr.locals[n] = m_
            elif isinstance(v, PyList) and not v.items and hasattr(t, "empty"):
                # an empty list literal that the loop fills: re-type it as a symbolic-length list
                for k2, x in fr.locals.items():
                    if x is v and k2 != n:
                        raise Unsupported("empty list %r is aliased by %r at loop entry" % (n, k2))
                fr.locals[n] = t.empty(self.ctx, n)

    def havoc_loop(self, st, spec, fr):
        names, mutated = _assigned_in(st)
        for n in sorted(names):
            if n in spec.types and not isinstance(spec.types[n], tuple) and not isinstance(fr.locals.get(n), SymList):
                fr.locals[n] = spec.types[n].fresh(self.ctx, n)
                continue
            if n not in fr.locals:
                continue  # first assigned inside the loop: not live at loop head
            fr.locals[n] = self.fresh_like(fr.locals[n], n, st)
        for n in sorted(mutated):
            if n in fr.locals and not _immutable(fr.locals[n]):
                v = fr.locals[n]
                if isinstance(v, Obj):
                    fields = self.obj_write_set(v, mutated[n])
                    self.havoc_object(v, n, st, fields)
                else:
                    self.havoc_object(v, n, st)
        if fr.yielded is not None and _contains_yield(st):
            if isinstance(fr.yielded, PyList):
                raise Unsupported("yield inside an invariant loop needs Contract.yields (element type)", st)
            self.havoc_object(fr.yielded, "yielded", st)
        if spec.modifies:
            for v in spec.modifies(self.state_view(fr, None, None)):
                self.havoc_object(v, "mod", st)

    def fresh_like(self, v, name, node):
        ctx = self.ctx
        if isinstance(v, bool):
            return ctx.fresh(name, Bool)
        if isinstance(v, int):
            return ctx.fresh(name, Int)
        if isinstance(v, float):
            return ctx.fresh(name, Real)
        if is_z3(v):
            return ctx.fresh(name, v.sort())
        if isinstance(v, tuple):
            return tuple(self.fresh_like(x, "%s_%d" % (name, i), node) for i, x in enumerate(v))
        if isinstance(v, OptV):
            return OptV(ctx.fresh(name + "_isnone", Bool), self.fresh_like(v.val, name, node))
        if isinstance(v, AObj):
            return AObj(v.clsname, ctx.fresh(name, v.term.sort()))
        if isinstance(v, (Obj, SymList, PyList, PyDict)):
            # rebinding a name to an object inside a loop: cannot infer which object
            raise Unsupported("variable %r holding a mutable object is reassigned in an invariant loop; "
                              "declare its type in the loop spec" % name, node)
        r = self.lib.fresh_like(self, v, name, node)
        if r is not NotImplemented:
            return r
        raise Unsupported("cannot havoc variable %r = %r (declare its type in the loop spec)" % (name, v), node)

    def obj_write_set(self, o, reasons):
        """Fields of heap object o that a loop body may write, from the syntactic reasons collected by
        _assigned_in: ('attr', f) direct store, ('call', m) method call, ('item',) subscript store."""
        fields = set()
        seen = set()

        def method_writes(cref, mname):
            if (cref.qualname, mname) in seen:
                return
            seen.add((cref.qualname, mname))
            q = None
            meth = self.find_method(cref, mname)
            if meth is None:
                if mname in o.fields:  # call on a field value, e.g. self.thetas.append
                    fields.add(mname)
                    return
                fields.add("*")
                return
            kind, clo = meth
            ct = REGISTRY.get(clo.qualname)
            if ct is not None and not ct.inline:
                mf = getattr(ct, "modifies_fields", None)
                if mf is None:
                    fields.add("*")
                else:
                    fields.update(mf)
                return
            if clo.node is None:
                fields.add("*")
                return
            selfname = clo.node.args.args[0].arg if clo.node.args.args else None
            names, mut = _assigned_in_body(clo.node.body)
            for r in mut.get(selfname, ()):
                if r[0] == "attr":
                    fields.add(r[1])
                elif r[0] == "call":
                    method_writes(cref, r[1])
                else:
                    fields.add("*")
            # objects passed elsewhere are not tracked: calls with self as argument
            for n2 in ast.walk(clo.node):
                if isinstance(n2, ast.Call):
                    for a in n2.args:
                        if isinstance(a, ast.Name) and a.id == selfname:
                            fields.add("*")

        for r in reasons:
            if r[0] == "attr":
                fields.add(r[1])
            elif r[0] == "call":
                if isinstance(o.cls, ClassRef):
                    method_writes(o.cls, r[1])
                else:
                    fields.add("*")
            else:
                fields.add("*")
        return fields

    def havoc_object(self, v, name, node, fields=None, rebind=False):
        ctx = self.ctx
        if isinstance(v, SymList):
            n = ctx.fresh(name + "_len", Int)
            ctx.assume(n >= 0)
            v.seq = Seq(n, cols_fresh_like(v.seq.cols, lambda s: ctx.fresh(name, s)))
            return
        if isinstance(v, Obj):
            for f, x in list(v.fields.items()):
                if fields is not None and "*" not in fields and f not in fields:
                    continue
                if isinstance(x, (Obj, SymList, PyList, PyDict)):
                    self.havoc_object(x, "%s.%s" % (name, f), node)
                elif isinstance(x, (Closure, ClassRef, Builtin, ModuleRef, str)) or x is None:
                    pass
                else:
                    r = self.lib.havoc_object(self, x, "%s.%s" % (name, f), node)
                    if r is NotImplemented or rebind:
                        v.fields[f] = self.fresh_like(x, "%s.%s" % (name, f), node)
            return
        r = self.lib.havoc_object(self, v, name, node)
        if r is not NotImplemented:
            return
        raise Unsupported("cannot havoc mutated object %r = %r" % (name, v), node)


class SliceV:
    def __init__(self, lo, hi, step):
        self.lo, self.hi, self.step = lo, hi, step


# ---------------------------------------------------------------------- helpers

def pyfloordiv(a, b):
    """Python floor division over z3 ints (z3's div is Euclidean)."""
    if z3.is_int_value(b):
        if b.as_long() > 0:
            return a / b
        return (-a) / (-b)
    return z3.If(b > 0, a / b, (-a) / (-b))


def _coerce2(a, b):
    a = to_z3(a) if not is_z3(a) else a
    b = to_z3(b) if not is_z3(b) else b
    if a.sort() == b.sort():
        return a, b
    if a.sort() == Bool:
        a = z3.If(a, 1, 0)
    if b.sort() == Bool:
        b = z3.If(b, 1, 0)
    if a.sort() == Real and b.sort() == Int:
        b = z3.ToReal(b)
    elif a.sort() == Int and b.sort() == Real:
        a = z3.ToReal(a)
    return a, b


def _arith(a, b, f):
    a, b = _coerce2(a, b)
    if a.sort() == Bool:
        a, b = z3.If(a, 1, 0), z3.If(b, 1, 0)
    return f(a, b)


def _b(x):
    return x if is_z3(x) else z3.BoolVal(bool(x))


def _not(x):
    if isinstance(x, bool):
        return not x
    return z3.Not(x)


def _and(xs):
    if any(x is False for x in xs):
        return False
    xs = [x for x in xs if x is not True]
    if not xs:
        return True
    return z3.And(*xs) if len(xs) > 1 else xs[0]


def _or(xs):
    if any(x is True for x in xs):
        return True
    xs = [x for x in xs if x is not False]
    if not xs:
        return False
    return z3.Or(*xs) if len(xs) > 1 else xs[0]


def _immutable(v):
    return (v is None or is_z3(v) or isinstance(v, (int, float, str, bool, tuple, OptV, AObj, Closure, ClassRef,
                                                    Builtin, ModuleRef, RangeV)))


def _pybool_of(v, take):
    return v


def _wrap(w, x):
    return w(x)


def _aslist(x):
    if x is None:
        return []
    if isinstance(x, (list, tuple)) and not (isinstance(x, tuple) and len(x) == 2 and isinstance(x[0], str)):
        return list(x)
    return [x]


def _is_conc_key(k):
    if isinstance(k, (int, str, bool, float)) or k is None:
        return True
    if isinstance(k, tuple):
        return all(_is_conc_key(x) for x in k)
    return False


def _is_generator(fn_node):
    if fn_node is None or isinstance(fn_node, ast.Lambda):
        return False
    for n in ast.walk(fn_node):
        if isinstance(n, (ast.Yield, ast.YieldFrom)):
            # ignore nested defs
            return True
    return False


def _contains_yield(st):
    return any(isinstance(n, (ast.Yield, ast.YieldFrom)) for n in ast.walk(st))


def _is_exception_class(interp, cref):
    n = cref.qualname.rsplit(".", 1)[-1]
    return n.endswith("Error") or n.endswith("Exception")


MUTATORS = {"append", "extend", "add", "update", "pop", "remove", "insert", "clear", "sort", "setdefault",
            "discard", "fill"}


def _assigned_in(loop):
    body = loop.body + getattr(loop, "orelse", [])
    names, mutated = _assigned_in_body(body)
    if isinstance(loop, ast.For):
        _target(loop.target, names, mutated)
    return names, mutated


def _target(t, names, mutated):
    if isinstance(t, ast.Name):
        names.add(t.id)
    elif isinstance(t, (ast.Tuple, ast.List)):
        for e in t.elts:
            _target(e, names, mutated)
    elif isinstance(t, ast.Starred):
        _target(t.value, names, mutated)
    elif isinstance(t, (ast.Attribute, ast.Subscript)):
        _mut_reason(t, mutated, store=True)


def _mut_reason(t, mutated, store=False, call=None):
    """record why the root object of access path t is mutated"""
    path = []
    b = t
    while isinstance(b, (ast.Attribute, ast.Subscript)):
        path.append(b)
        b = b.value
    if not isinstance(b, ast.Name):
        return
    path.reverse()  # outermost-from-root first
    if not path:
        if call is not None:
            mutated.setdefault(b.id, set()).add(("item",))
        return
    first = path[0]
    if isinstance(first, ast.Attribute):
        if len(path) == 1 and call is not None:
            mutated.setdefault(b.id, set()).add(("call", first.attr))
        else:
            mutated.setdefault(b.id, set()).add(("attr", first.attr))
    else:
        mutated.setdefault(b.id, set()).add(("item",))


def _assigned_in_body(body):
    """Names (re)bound inside statements, and {name: reasons} for names whose object is mutated in place."""
    names, mutated = set(), {}
    for st in body:
        for n in ast.walk(st):
            if isinstance(n, ast.Assign):
                for t in n.targets:
                    _target(t, names, mutated)
            elif isinstance(n, (ast.AugAssign, ast.AnnAssign)):
                _target(n.target, names, mutated)
                if isinstance(n, ast.AugAssign) and isinstance(n.target, ast.Name):
                    mutated.setdefault(n.target.id, set()).add(("item",))  # a += .. mutates arrays in place
            elif isinstance(n, ast.For):
                _target(n.target, names, mutated)
            elif isinstance(n, ast.With):
                for it in n.items:
                    if it.optional_vars is not None:
                        _target(it.optional_vars, names, mutated)
            elif isinstance(n, ast.NamedExpr):
                _target(n.target, names, mutated)
            elif isinstance(n, ast.Delete):
                for t in n.targets:
                    _target(t, names, mutated)
            elif isinstance(n, ast.Call) and isinstance(n.func, ast.Attribute):
                # any method call may mutate its receiver
                _mut_reason(n.func, mutated, call=True)
    return names, mutated
