"""Small CLI for development: python3-vt -m pyvc.run contracts.c15 [qualname-substring]"""
import importlib
import sys
import time
from . import smt
smt.early_pool()
from .spec import REGISTRY
from .verify import verify_contract


def main():
    mod = sys.argv[1]
    filt = sys.argv[2] if len(sys.argv) > 2 else ""
    importlib.import_module(mod)
    for q, ct in list(REGISTRY.items()):
        if filt not in q or ct.trusted or ct.abstract:
            continue
        for rep in verify_contract(ct):
            print("==", rep.qualname, rep.status, rep.detail, "paths", rep.paths, "obligs", len(rep.obligs),
                  "gen %.2fs" % rep.time_s)
            t0 = time.time()
            res = smt.discharge([o for o in rep.obligs if o.kind != "canary"]) + smt.discharge(
                [o for o in rep.obligs if o.kind == "canary"], rlimit=2_000_000, want_model=False)
            bad = [r for r in res if r["result"] != "unsat" and not r["name"].endswith("/canary")]
            can = [r["result"] for r in res if r["name"].endswith("/canary")]
            print("   discharged %d/%d in %.2fs  canary(consistent path ends)=%d/%d" % (
                len(res) - len(bad) - len(can), len(res) - len(can), time.time() - t0, sum(1 for x in can if x != "unsat"), len(can)))
            import os
            if os.environ.get("PYVC_SLOW"):
                for r in sorted(res, key=lambda r: -r["time_s"])[:int(os.environ["PYVC_SLOW"])]:
                    print("   slow %.2fs %s %s %dB" % (r["time_s"], r["result"], r["name"], r["smt2_bytes"]))
            seen = set()
            if os.environ.get("PYVC_DUMP"):
                os.makedirs(os.environ["PYVC_DUMP"], exist_ok=True)
                for k_, r in enumerate(bad):
                    open(os.path.join(os.environ["PYVC_DUMP"], "fail_%d.smt2" % k_), "w").write(r["text"])
            for r in bad:
                if (r["name"], r["hash"]) in seen:
                    continue
                seen.add((r["name"], r["hash"]))
                print("   FAIL", r["name"], r["loc"], r["result"], r["reason"], r["time_s"],
                      {k: v for k, v in (r["model"] or {}).items() if "!" not in k or True} if r["result"] == "sat" else "")


if __name__ == "__main__":
    main()
