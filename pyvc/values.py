"""Symbolic value domain of pyvc.

A *value* is one of
  * a Python constant: int, bool, float, str, None, tuple of values          (concrete)
  * a z3 expression of sort Int / Bool / Real / Str / Val / other uninterpreted sort
  * PyList   -- mutable list of concrete length (items are values)
  * PyDict   -- mutable dict with concrete (hashable Python) keys, insertion ordered
  * SymList  -- mutable list of symbolic length, holding an immutable Seq
  * Seq      -- immutable symbolic-length sequence: (length, columns) struct-of-z3-Arrays
  * Obj      -- heap object with concrete identity (fields: dict name -> value)
  * AObj     -- abstract immutable object: a z3 term of an uninterpreted sort + per-class attribute model
  * OptV     -- Optional[T] with symbolic none-ness
  * Arr      -- numpy array (see arrays.py)
  * RangeV / ZipV / EnumV -- lazy iterables
  * Closure / BoundMethod / Builtin / ClassRef / ModuleRef -- callables & namespaces
"""
import z3

Int = z3.IntSort()
Bool = z3.BoolSort()
Real = z3.RealSort()
Str = z3.DeclareSort("Str")  # opaque strings (names); equality only (+ an order where axiomatised)
Val = z3.DeclareSort("Val")  # opaque float payloads, equality = bit identity
Ref = z3.DeclareSort("Ref")  # opaque object tokens


class Unsupported(Exception):
    def __init__(self, msg, node=None):
        super().__init__(msg)
        self.node = node


def is_z3(v):
    return isinstance(v, z3.ExprRef)


def is_sym_int(v):
    return is_z3(v) and v.sort() == Int


def is_sym_bool(v):
    return is_z3(v) and v.sort() == Bool


def is_sym_real(v):
    return is_z3(v) and v.sort() == Real


def is_concrete_num(v):
    return isinstance(v, (int, float)) and not isinstance(v, bool) or isinstance(v, bool)


def to_z3(v, want=None):
    """Lift a Python constant to z3; pass z3 through."""
    if is_z3(v):
        if want is not None and v.sort() != want:
            if want == Real and v.sort() == Int:
                return z3.ToReal(v)
            if want == Int and v.sort() == Bool:
                return z3.If(v, 1, 0)
            if want == Real and v.sort() == Bool:
                return z3.If(v, z3.RealVal(1), z3.RealVal(0))
        return v
    if isinstance(v, bool):
        if want == Int:
            return z3.IntVal(1 if v else 0)
        if want == Real:
            return z3.RealVal(1 if v else 0)
        return z3.BoolVal(v)
    if isinstance(v, int):
        if want == Real:
            return z3.RealVal(v)
        return z3.IntVal(v)
    if isinstance(v, float):
        return z3.RealVal(repr(v))
    raise Unsupported("cannot lift %r to z3" % (v,))


class OptV:
    """Optional value: none-ness symbolic."""

    def __init__(self, isnone, val):
        self.isnone = isnone  # z3 Bool
        self.val = val


class PyList:
    def __init__(self, items=None):
        self.items = list(items or [])

    def __repr__(self):
        return "PyList(%r)" % (self.items,)


class PyDict:
    def __init__(self, items=None, default=None):
        self.items = dict(items or {})
        self.default = default  # for defaultdict: a thunk-like marker ('int', 'list')

    def __repr__(self):
        return "PyDict(%r)" % (self.items,)


class Seq:
    """Immutable sequence of symbolic length. cols: a column structure:
         z3 Array(Int -> T)  |  tuple of column structures  (struct of arrays).
       get(k) maps Select over the structure."""

    def __init__(self, length, cols):
        self.length = length
        self.cols = cols

    def get(self, k):
        return _sel(self.cols, k)

    def store(self, k, v):
        return Seq(self.length, _store(self.cols, k, v))

    def with_len(self, n):
        return Seq(n, self.cols)


def _sel(cols, k):
    if isinstance(cols, tuple):
        return tuple(_sel(c, k) for c in cols)
    return z3.Select(cols, k)


def _store(cols, k, v):
    if isinstance(cols, tuple):
        if not isinstance(v, tuple) or len(v) != len(cols):
            raise Unsupported("storing value of wrong structure into Seq")
        return tuple(_store(c, k, x) for c, x in zip(cols, v))
    return z3.Store(cols, k, to_z3(v, cols.sort().range()))


def cols_like_value(v, fresh):
    """Fresh column structure able to hold values shaped like v. fresh(sort_of_array) -> z3 Array const."""
    if isinstance(v, tuple):
        return tuple(cols_like_value(x, fresh) for x in v)
    if is_z3(v):
        return fresh(z3.ArraySort(Int, v.sort()))
    if isinstance(v, bool):
        return fresh(z3.ArraySort(Int, Bool))
    if isinstance(v, int):
        return fresh(z3.ArraySort(Int, Int))
    if isinstance(v, float):
        return fresh(z3.ArraySort(Int, Real))
    if isinstance(v, AObj):
        return fresh(z3.ArraySort(Int, v.term.sort()))
    raise Unsupported("cannot build Seq column for %r" % (v,))


def cols_fresh_like(cols, fresh):
    if isinstance(cols, tuple):
        return tuple(cols_fresh_like(c, fresh) for c in cols)
    return fresh(cols.sort())


class SymList:
    def __init__(self, seq, elem_wrap=None):
        self.seq = seq
        self.elem_wrap = elem_wrap  # optional: function z3 term -> value (e.g. AObj wrapper)


class Obj:
    _n = 0

    def __init__(self, cls, fields=None, label=None):
        self.cls = cls  # ClassRef or dotted string for opaque classes
        self.fields = dict(fields or {})
        Obj._n += 1
        self.label = label or "obj%d" % Obj._n

    def __getattr__(self, k):
        f = self.__dict__.get("fields", {})
        if k in f:
            return f[k]
        raise AttributeError(k)

    def __repr__(self):
        return "<Obj %s %s>" % (getattr(self.cls, "qualname", self.cls), self.label)


class AObj:
    """Abstract immutable object: attribute access is resolved by the class model registered in spec."""

    def __init__(self, clsname, term):
        self.clsname = clsname
        self.term = term

    def __repr__(self):
        return "<AObj %s %s>" % (self.clsname, self.term)


class RangeV:
    def __init__(self, start, stop, step):
        self.start, self.stop, self.step = start, stop, step

    def concrete(self):
        return all(isinstance(x, int) for x in (self.start, self.stop, self.step))

    def length(self):
        if self.concrete():
            return len(range(self.start, self.stop, self.step))
        if self.step == 1:
            d = to_z3(self.stop, Int) - to_z3(self.start, Int)
        elif self.step == -1:
            d = to_z3(self.start, Int) - to_z3(self.stop, Int)
        else:
            raise Unsupported("range with symbolic bounds and step %r" % (self.step,))
        return z3.If(d > 0, d, z3.IntVal(0))

    def get(self, k):
        if self.concrete() and isinstance(k, int):
            return range(self.start, self.stop, self.step)[k]
        return to_z3(self.start, Int) + to_z3(k, Int) * self.step


class ZipV:
    def __init__(self, parts):
        self.parts = parts


class EnumV:
    def __init__(self, inner, start=0):
        self.inner = inner
        self.start = start


class Closure:
    def __init__(self, node, module, env=None, qualname=None, cls=None):
        self.node = node  # ast.FunctionDef or ast.Lambda
        self.module = module
        self.env = env  # enclosing locals (dict) for nested defs / lambdas
        self.qualname = qualname
        self.cls = cls


class BoundMethod:
    def __init__(self, self_val, func):
        self.self_val = self_val
        self.func = func  # Closure / Builtin / ContractedFn


class Builtin:
    def __init__(self, name):
        self.name = name

    def __repr__(self):
        return "<Builtin %s>" % self.name


class ModuleRef:
    def __init__(self, dotted):
        self.dotted = dotted

    def __repr__(self):
        return "<Module %s>" % self.dotted


class ClassRef:
    def __init__(self, qualname, node=None, module=None):
        self.qualname = qualname
        self.node = node
        self.module = module

    def __repr__(self):
        return "<Class %s>" % self.qualname


class ExcVal:
    def __init__(self, clsname, args=()):
        self.clsname = clsname
        self.args = args

    def __repr__(self):
        return "%s%r" % (self.clsname, tuple(self.args))
