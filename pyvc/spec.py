"""Contract DSL and registry (sidecar contracts: nothing is written into /repo).

A Contract is bound to a function of /repo by qualified name.  It carries
  params    : [(name, Type)]            how to build symbolic inputs when the function is a *carrier*
  requires  : [lambda a: formula]        a = namespace of entry arguments
  ensures   : [(name, lambda a, ret, st: formula)]     st = final state view (heap / ghost)
  raises    : [(ExcName, lambda a: cond, iff)]         iff=True: raised  <=>  cond (and first matching wins)
                                                       iff=False: may be raised only when cond
  returns   : Type                       how to build the result when the contract is *used* at a call site
  loops     : {key: LoopSpec}            invariants / variants, bound by loop key ('for#0', 'while#1', ...)
  apply     : optional custom function(interp, frame, args) -> value  (used at call sites instead of
              returns+ensures when the result needs structure, e.g. generators / mutating methods)
"""
import z3
from .values import *  # noqa

REGISTRY = {}
CLASS_MODELS = {}  # class short/qual name -> {attr: function(interp, aobj) -> value}
LEMMAS = {}  # name -> Lemma
SYNTH_CLASSES = {}  # synthetic class name -> list of base qualnames (symbolic "any subclass of these")


def synthetic_class(name, bases):
    SYNTH_CLASSES[name] = list(bases)
    return name


class BindError(Exception):
    """A contract refers to something the current source no longer has (renamed local, removed loop)."""


class NS:
    """Read-only namespace over a dict; missing key -> BindError."""

    def __init__(self, d, what="name"):
        object.__setattr__(self, "_d", d)
        object.__setattr__(self, "_what", what)

    def __getattr__(self, k):
        d = object.__getattribute__(self, "_d")
        if k in d:
            return d[k]
        raise BindError("%s %r not bound in current source" % (object.__getattribute__(self, "_what"), k))

    def __contains__(self, k):
        return k in object.__getattribute__(self, "_d")


class LoopSpec:
    def __init__(self, invariant, decreases=None, use=None, types=None, modifies=None, ghost_init=None,
                 ghost_step=None, fresh_vars=None):
        self.fresh_vars = fresh_vars  # names asserted (and checked) to hold arrays created inside this function
        self.invariant = invariant  # lambda s: [(name, formula)] or [formula]
        self.decreases = decreases  # lambda s: int term  (while loops)
        self.use = use  # lambda s: [lemma instance formulas]
        self.types = types or {}  # var name -> Type for variables whose havoc shape is not inferable
        self.modifies = modifies  # lambda s: extra values to havoc
        self.ghost_init = ghost_init
        self.ghost_step = ghost_step


class Contract:
    def __init__(self, qualname, params=None, returns=None, kind="function", abstract=False):
        self.qualname = qualname
        self.params = params or []
        self.returns = returns
        self.kind = kind
        self.abstract = abstract
        self._requires = []
        self._ensures = []
        self._raises = []
        self.loops = {}
        self.apply = None
        self.uses = []  # lambda a: [lemma instances] assumed at function entry
        self.inline = False
        self.variants = None  # optional list of (label, params override dict)
        self.setup = None  # optional lambda(interp, a) executed after inputs are built (ghost init)
        self.trusted = False  # body not verified (assumed contract)
        self.note = ""
        REGISTRY[qualname] = self

    def requires(self, f):
        self._requires.append(f)
        return self

    def ensures(self, name, f):
        self._ensures.append((name, f))
        return self

    def raises(self, exc, when, iff=True):
        self._raises.append((exc, when, iff))
        return self

    def loop(self, key, invariant, **kw):
        self.loops[key] = LoopSpec(invariant, **kw)
        return self

    def use(self, f):
        self.uses.append(f)
        return self

    def after(self, name, f, ordinal=None):
        """ghost lemma: after the (ordinal-th, in source order; None = every) assignment to local `name`, prove the clauses
        f(view) -> [(name, formula|Forall)] in the context of that program point, then keep them as facts"""
        if not hasattr(self, "afters") or self.afters is None:
            self.afters = {}
        self.afters.setdefault(name, []).append((ordinal, f))
        return self


def contract(qualname, **kw):
    return Contract(qualname, **kw)


# ----------------------------------------------------------------------------- types

class Type:
    def fresh(self, ctx, name):
        raise NotImplementedError


class Prim(Type):
    def __init__(self, sort, constraint=None):
        self.sort = sort
        self.constraint = constraint

    def fresh(self, ctx, name):
        v = ctx.fresh(name, self.sort)
        if self.constraint is not None:
            ctx.assume(self.constraint(v))
        return v


TInt = Prim(Int)
TNat = Prim(Int, lambda v: v >= 0)
TBool = Prim(Bool)
TReal = Prim(Real)
TStr = Prim(Str)
TVal = Prim(Val)


class TConst(Type):
    def __init__(self, v):
        self.v = v

    def fresh(self, ctx, name):
        return self.v


TNone = TConst(None)


class TClass(Type):
    """the class object itself (cls parameter of classmethods)"""

    def __init__(self, qualname):
        self.qualname = qualname

    def fresh(self, ctx, name):
        return ctx.classref(self.qualname)


class TRef(Type):
    """the object already built for an earlier parameter (aliasing between parameters)"""

    def __init__(self, param, path=()):
        self.param, self.path = param, path

    def fresh(self, ctx, name):
        v = ctx.ghost["_args"][self.param]
        for p in self.path:
            v = v.fields[p]
        return v


class TPyList(Type):
    """Python list of concrete length with the given element types"""

    def __init__(self, *elts):
        self.elts = elts

    def fresh(self, ctx, name):
        return PyList([t.fresh(ctx, "%s_%d" % (name, i)) for i, t in enumerate(self.elts)])


class TTuple(Type):
    def __init__(self, *elts):
        self.elts = elts

    def fresh(self, ctx, name):
        return tuple(t.fresh(ctx, "%s_%d" % (name, i)) for i, t in enumerate(self.elts))


class TOpt(Type):
    def __init__(self, inner):
        self.inner = inner

    def fresh(self, ctx, name):
        return OptV(ctx.fresh(name + "_isnone", Bool), self.inner.fresh(ctx, name))


def _cols_for_type(t, ctx, name):
    if isinstance(t, Prim):
        return ctx.fresh(name, z3.ArraySort(Int, t.sort))
    if isinstance(t, TTuple):
        return tuple(_cols_for_type(e, ctx, "%s_%d" % (name, i)) for i, e in enumerate(t.elts))
    if isinstance(t, TAObj):
        return ctx.fresh(name, z3.ArraySort(Int, t.sort))
    raise Unsupported("no column representation for type %r" % (t,))


class TSeq(Type):
    """Python list (mutable, symbolic length) of elem type."""

    def __init__(self, elem, elem_constraint=None):
        self.elem = elem
        self.elem_constraint = elem_constraint

    def fresh(self, ctx, name):
        n = ctx.fresh(name + "_len", Int)
        ctx.assume(n >= 0)
        cols = _cols_for_type(self.elem, ctx, name)
        wrap = None
        if isinstance(self.elem, TAObj):
            cn = self.elem.clsname
            wrap = lambda t: AObj(cn, t)  # noqa
        return SymList(Seq(n, cols), elem_wrap=wrap)


CLASS_QUAL = {}  # short class name used in AObj -> qualified /repo class (for method lookup on abstract objects)
ABSTRACT_FIELDS = {}  # class short name -> {field: Type}


def _afun(cls, field, suffix, rng):
    return z3.Function("%s.%s%s" % (cls, field, suffix), Ref, rng)


def abstract_field_value(cls, field, t, term, interp):
    """value of field `field` (declared type t) of the abstract object `term` of class cls"""
    from .lib.arrays import TArr, Arr, arr_sort, dtype_of_sort
    if isinstance(t, Prim):
        return _afun(cls, field, "", t.sort)(term)
    if isinstance(t, TArr):
        dims = tuple(_afun(cls, field, ".dim%d" % d, Int)(term) for d in range(t.ndim))
        for d in dims:
            interp.ctx.assume(d >= 0)
        r = Arr(dims, _afun(cls, field, "", arr_sort(t.elem, t.ndim))(term), t.dtype or dtype_of_sort(t.elem), fresh=False)
        r.readonly = True
        return r
    if isinstance(t, TTuple):
        return tuple(abstract_field_value(cls, "%s.%d" % (field, k), e, term, interp) for k, e in enumerate(t.elts))
    if isinstance(t, TAObj):
        return AObj(t.clsname, _afun(cls, field, "", t.sort)(term))
    if isinstance(t, TSeq):
        n = _afun(cls, field, ".len", Int)(term)
        interp.ctx.assume(n >= 0)
        if isinstance(t.elem, TAObj):
            cn = t.elem.clsname
            return SymList(Seq(n, _afun(cls, field, "", z3.ArraySort(Int, t.elem.sort))(term)), elem_wrap=lambda x: AObj(cn, x))
        if isinstance(t.elem, Prim):
            return SymList(Seq(n, _afun(cls, field, "", z3.ArraySort(Int, t.elem.sort))(term)))
    raise Unsupported("abstract field of type %r" % (t,))


def abstract_class(short, qual, fields):
    """Declare an immutable abstract view of a /repo class: fields become uninterpreted functions of the token;
    every other attribute is resolved on the real class (methods/properties run with self = the token)."""
    CLASS_QUAL[short] = qual
    ABSTRACT_FIELDS[short] = dict(fields)
    model = CLASS_MODELS.setdefault(short, {})
    for f, t in fields.items():
        model[f] = (lambda i, p, _f=f, _t=t: abstract_field_value(short, _f, _t, p.term, i))
    return model


def _tseq_empty(self, ctx, name):
    sl = self.fresh(ctx, name)
    sl.seq = Seq(z3.IntVal(0), sl.seq.cols)
    return sl


TSeq.empty = _tseq_empty


class TAObj(Type):
    def __init__(self, clsname, sort=None):
        self.clsname = clsname
        self.sort = Ref if sort is None else sort

    def fresh(self, ctx, name):
        return AObj(self.clsname, ctx.fresh(name, self.sort))


class TObj(Type):
    """Heap object with concrete identity; fields: {name: Type}. cls: qualified class name in /repo."""

    def __init__(self, cls, fields=None, ghost=None):
        self.cls = cls
        self.fields = fields or {}
        self.ghost = ghost or {}

    def fresh(self, ctx, name):
        o = Obj(ctx.classref(self.cls), label=name)
        for f, t in self.fields.items():
            o.fields[f] = t.fresh(ctx, "%s.%s" % (name, f))
        for f, t in self.ghost.items():
            o.fields[f] = t.fresh(ctx, "%s.%s" % (name, f))
        return o


# ----------------------------------------------------------------------------- spec functions & lemmas

class Lemma:
    """A universally quantified fact, proved once (by Lean or by SMT induction obligations) and then
    *instantiated explicitly* in VCs (quantified nonlinear axioms make z3 answer unknown)."""

    def __init__(self, name, inst, proof, statement):
        self.name = name
        self.inst = inst  # python function(*terms) -> z3 formula
        self.proof = proof  # 'lean:<Theorem>' | 'smt' | 'def'
        self.statement = statement
        LEMMAS[name] = self

    def __call__(self, *a):
        USED_LEMMAS.add(self.name)
        return self.inst(*[to_z3(x) if not is_z3(x) else x for x in a])


USED_LEMMAS = set()


class Forall:
    """Universally quantified clause with proof hints.
       vars_: [(name, sort)], body: f(*vars) -> formula, patterns: f(*vars) -> [pattern terms] (for use as a hypothesis),
       hints: f(*consts) -> [ground terms] that are mentioned as seeds for E-matching when the clause is *proved*
       (the engine skolemises the quantifier itself, so hints can mention the skolem constants)."""

    def __init__(self, vars_, body, patterns=None, hints=None, without=None, lemmas=None):
        """without: terms (typically array constants of unrelated fields); hypotheses mentioning any of them are left out of
        this clause's VC (sound: fewer hypotheses) to keep the query small."""
        self.vars_, self.body, self.patterns, self.hints, self.without = vars_, body, patterns, hints, without
        self.lemmas = lemmas  # f(*skolem consts) -> [instances of already proved lemmas], hypotheses of this clause's VC only

    def as_formula(self):
        vs = [z3.Const(n, srt) for n, srt in self.vars_]
        pats = self.patterns(*vs) if self.patterns else []
        return z3.ForAll(vs, self.body(*vs), patterns=pats) if pats else z3.ForAll(vs, self.body(*vs))

    def skolemized(self, ctx):
        cs = [ctx.fresh("sk_" + n, srt) for n, srt in self.vars_]
        seeds = self.hints(*cs) if self.hints else []
        return cs, seeds, self.body(*cs)


class Focus:
    """a proof goal whose VC leaves out every hypothesis mentioning one of the given terms (sound: fewer hypotheses; keeps the query small)"""

    def __init__(self, goal, without):
        self.goal, self.without = goal, list(without)


class Using:
    """a proof goal together with explicitly instantiated (already proved) lemma instances"""

    def __init__(self, lemmas, goal):
        self.lemmas, self.goal = lemmas, goal


def z3and(xs):
    xs = [x if is_z3(x) else z3.BoolVal(bool(x)) for x in xs]
    if not xs:
        return z3.BoolVal(True)
    return z3.And(*xs) if len(xs) > 1 else xs[0]


def named(items, prefix):
    """normalise [(name, f) | f] -> [(name, f)]"""
    out = []
    for i, it in enumerate(items):
        if isinstance(it, tuple) and len(it) == 2 and isinstance(it[0], str):
            out.append((it[0], it[1] if (is_z3(it[1]) or isinstance(it[1], (Forall, Using, Focus))) else z3.BoolVal(bool(it[1]))))
        else:
            out.append(("%s%d" % (prefix, i), it if (is_z3(it) or isinstance(it, (Forall, Using, Focus))) else z3.BoolVal(bool(it))))
    return out
