"""Front end: locate functions in /repo's *current working tree* by qualified name and
normalise their AST.  Nothing is cached across runs; every check re-reads the source.

Dropped by normalisation (reported in evidence as `dropped_by_extraction`):
  * docstrings
  * type annotations (parameter / return / variable annotations without a value)
  * `logger.<level>(...)`, `logging.<level>(...)`, `print(...)`, `warnings.warn(...)` expression statements
  * `tqdm(x, ...)`, `tqdm.tqdm(x, ...)` -> x ; `trange(a, ...)`, `tqdm.trange(a, ...)` -> range(a)
Nothing else is removed.
"""
import ast
import os

REPO = os.environ.get("BATCHIE_REPO", "/repo")
SRC = os.path.join(REPO, "src")

DROPPED = [
    "docstrings",
    "type annotations",
    "logger.*/logging.* call statements (and the expressions inside them)",
    "print(...) statements",
    "warnings.warn(...) statements",
    "tqdm/trange wrappers (identity on the iterable; trange(n) -> range(n))",
]


def module_path(dotted):
    """batchie.scoring.main -> /repo/src/batchie/scoring/main.py ; 'nextflow.scripts.batchie' special."""
    if dotted == "nextflow_script":
        return os.path.join(REPO, "nextflow", "scripts", "batchie.py")
    if dotted.startswith("scenarios"):
        # property-level scenario drivers (harness code under /verif/scenarios calling the real functions)
        return os.path.join(os.path.dirname(os.path.dirname(os.path.abspath(__file__))), *dotted.split(".")) + ".py"
    p = os.path.join(SRC, *dotted.split("."))
    if os.path.isdir(p):
        return os.path.join(p, "__init__.py")
    return p + ".py"


class _Normalise(ast.NodeTransformer):
    def _is_log_call(self, node):
        if not isinstance(node, ast.Expr) or not isinstance(node.value, ast.Call):
            return False
        f = node.value.func
        if isinstance(f, ast.Name) and f.id == "print":
            return True
        if isinstance(f, ast.Attribute) and isinstance(f.value, ast.Name):
            if f.value.id in ("logger", "logging", "log") and f.attr in (
                "debug", "info", "warning", "warn", "error", "critical", "exception",
            ):
                return True
            if f.value.id == "warnings" and f.attr == "warn":
                return True
        return False

    def _strip_body(self, body):
        out = []
        for i, st in enumerate(body):
            if (
                i == 0
                and isinstance(st, ast.Expr)
                and isinstance(st.value, ast.Constant)
                and isinstance(st.value.value, str)
            ):
                continue
            if self._is_log_call(st):
                continue
            if isinstance(st, ast.AnnAssign) and st.value is None:
                continue
            out.append(st)
        if not out:
            out = [ast.Pass()]
        return out

    def generic_visit(self, node):
        node = super().generic_visit(node)
        for fld in ("body", "orelse", "finalbody"):
            b = getattr(node, fld, None)
            if isinstance(b, list) and b and isinstance(b[0], ast.stmt):
                setattr(node, fld, self._strip_body(b))
        return node

    def visit_Call(self, node):
        node = self.generic_visit(node)
        f = node.func
        name = None
        if isinstance(f, ast.Name):
            name = f.id
        elif isinstance(f, ast.Attribute) and isinstance(f.value, ast.Name) and f.value.id == "tqdm":
            name = f.attr
        if name == "tqdm" and node.args:
            return node.args[0]
        if name == "trange" and node.args:
            return ast.copy_location(
                ast.Call(func=ast.Name(id="range", ctx=ast.Load()), args=[node.args[0]], keywords=[]), node
            )
        return node


class Module:
    def __init__(self, dotted):
        self.dotted = dotted
        self.path = module_path(dotted)
        with open(self.path) as f:
            self.source = f.read()
        self.tree = _Normalise().visit(ast.parse(self.source, filename=self.path))
        ast.fix_missing_locations(self.tree)
        self.imports = {}  # local name -> dotted target
        self.defs = {}  # name -> ast node (FunctionDef / ClassDef)
        self.globals_src = {}  # name -> ast expr (simple module constants)
        for st in self.tree.body:
            self._scan(st)

    def _scan(self, st):
        if isinstance(st, ast.Import):
            for a in st.names:
                self.imports[a.asname or a.name.split(".")[0]] = a.name if a.asname else a.name.split(".")[0]
        elif isinstance(st, ast.ImportFrom):
            base = st.module or ""
            for a in st.names:
                self.imports[a.asname or a.name] = base + "." + a.name
        elif isinstance(st, (ast.FunctionDef, ast.ClassDef)):
            self.defs[st.name] = st
        elif isinstance(st, ast.Assign) and len(st.targets) == 1 and isinstance(st.targets[0], ast.Name):
            self.globals_src[st.targets[0].id] = st.value
        elif isinstance(st, (ast.If, ast.Try)):
            for s in st.body:
                self._scan(s)

    def find(self, qual):
        """qual relative to the module: 'f' or 'Class.method'."""
        parts = qual.split(".")
        node = self.defs.get(parts[0])
        for p in parts[1:]:
            if node is None:
                return None
            nxt = None
            for s in node.body:
                if isinstance(s, (ast.FunctionDef, ast.ClassDef)) and s.name == p:
                    nxt = s
            node = nxt
        return node


_cache = {}


def load(dotted):
    if dotted not in _cache:
        _cache[dotted] = Module(dotted)
    return _cache[dotted]


def reset():
    _cache.clear()


def split_qualname(qualname):
    """'batchie.scoring.main.ChunkedScoresHolder.add_score' -> (module dotted, 'ChunkedScoresHolder.add_score')"""
    if qualname.startswith("nextflow_script."):
        return "nextflow_script", qualname[len("nextflow_script."):]
    if qualname.startswith("scenarios."):
        parts = qualname.split(".")
        return ".".join(parts[:2]), ".".join(parts[2:])
    parts = qualname.split(".")
    for i in range(len(parts), 0, -1):
        d = ".".join(parts[:i])
        p = module_path(d)
        if os.path.isfile(p) and not p.endswith("__init__.py"):
            return d, ".".join(parts[i:])
    raise KeyError(qualname)


def find(qualname):
    mod, rest = split_qualname(qualname)
    m = load(mod)
    node = m.find(rest)
    return m, node


def is_repo_module(dotted):
    if dotted.startswith("scenarios."):
        return os.path.isfile(module_path(dotted))
    if not dotted.startswith("batchie"):
        return False
    return os.path.isfile(module_path(dotted))


def loop_keys(fn_node):
    """Stable keys for the loops of a function: 'for#<k>' / 'while#<k>' by ordinal among loops of the same
    kind, in source order (pre-order)."""
    keys = {}
    cnt = {"for": 0, "while": 0}

    def walk(n):
        for ch in ast.iter_child_nodes(n):
            if isinstance(ch, (ast.FunctionDef, ast.Lambda, ast.ClassDef)) and ch is not fn_node:
                continue
            if isinstance(ch, ast.For):
                keys[id(ch)] = "for#%d" % cnt["for"]
                cnt["for"] += 1
            elif isinstance(ch, ast.While):
                keys[id(ch)] = "while#%d" % cnt["while"]
                cnt["while"] += 1
            walk(ch)

    walk(fn_node)
    return keys
