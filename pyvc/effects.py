"""Flow-insensitive effect inference over /repo's current source (frame conditions: det / reads).

For every function reachable from an entry point the analysis collects *primitive effects*:
  NONDET  call of a numpy.random module-level function (np.random.normal, ...), `random.*`, os.urandom, time.*, uuid,
          default_rng()/SeedSequence() without a seed
  NEEDS   default_rng() without a seed inside `if <param> is None:`  -> nondeterministic unless the caller passes <param>
  SETITER iteration over a set (order depends on PYTHONHASHSEED for str elements)
  READ    attribute read of a watched Screen field (observations, single_treatment_effects, ...)
Calls are resolved modularly: module functions by import, `self.m` through the class hierarchy (all overrides),
`x.m` by the annotated/constructed type of x when known, otherwise by every /repo class defining m (over-approximation).
An obligation det:<entry> holds iff no NONDET/SETITER site is reachable and every NEEDS is discharged by an argument at
some call site on the path.  Each violating site has a refactor-stable key  <qualname>#<callee>#<ordinal>.
"""
import ast
import os
from . import repo

WATCHED_READS = {"observations", "_observations", "single_treatment_effects", "set_observed"}
NONDET_MODULES = {"random", "secrets", "uuid", "time"}
PURE_ATTR_CALLS = {"append", "extend", "items", "keys", "values", "get", "format", "join", "copy", "astype", "sum", "mean", "all",
                   "any", "reshape", "flatten", "tolist", "item", "split", "lower", "update", "add", "pop", "sort", "argmin",
                   "argmax", "max", "min", "info", "warning", "debug", "error", "create_dataset", "create_group", "startswith",
                   "endswith", "strip", "encode", "decode", "fill", "setdefault", "index", "count", "insert", "remove", "clear"}
GEN_METHODS = {"choice", "permutation", "shuffle", "random", "normal", "gamma", "integers", "uniform", "standard_normal",
               "multivariate_normal", "beta", "binomial", "poisson", "exponential", "spawn", "generate_state"}


class Site:
    def __init__(self, kind, qualname, callee, ordinal, lineno, extra=None):
        self.kind, self.qualname, self.callee, self.ordinal, self.lineno, self.extra = kind, qualname, callee, ordinal, lineno, extra

    @property
    def key(self):
        return "%s#%s#%d" % (self.qualname, self.callee, self.ordinal)

    def __repr__(self):
        return "%s:%s@%s" % (self.kind, self.key, self.lineno)


class Universe:
    # explicit receiver-type hints for calls the light-weight inference cannot type:
    #   {(caller qualname, method name): [callee qualnames]}   -- listed in the trusted base of the property that sets them
    def __init__(self, packages=("batchie",), hints=None):
        self.hints = hints or {}
        self._init(packages)

    def _init(self, packages):
        self.modules = {}
        self.functions = {}  # qualname -> (module, node, classqual or None)
        self.classes = {}  # qualname -> (module, node)
        self.methods_by_name = {}
        self.bases = {}
        root = os.path.join(repo.SRC, "batchie")
        for dp, dn, fn in os.walk(root):
            for f in fn:
                if not f.endswith(".py") or f.endswith("_test.py") or f == "conftest.py":
                    continue
                rel = os.path.relpath(os.path.join(dp, f), repo.SRC)[:-3].replace(os.sep, ".")
                if rel.endswith(".__init__"):
                    rel = rel[:-9]
                try:
                    m = repo.load(rel)
                except SyntaxError:
                    continue
                self.modules[rel] = m
                for name, node in m.defs.items():
                    if isinstance(node, ast.FunctionDef):
                        self.functions[rel + "." + name] = (m, node, None)
                    elif isinstance(node, ast.ClassDef):
                        cq = rel + "." + name
                        self.classes[cq] = (m, node)
                        for s in node.body:
                            if isinstance(s, ast.FunctionDef):
                                self.functions[cq + "." + s.name] = (m, s, cq)
                                self.methods_by_name.setdefault(s.name, []).append(cq)
        for cq, (m, node) in self.classes.items():
            bs = []
            for b in node.bases:
                r = self.resolve_name(m, _dotted(b))
                if r in self.classes:
                    bs.append(r)
            self.bases[cq] = bs
        self._memo = {}

    # ------------------------------------------------------------------ resolution
    def resolve_name(self, m, dotted):
        """resolve a dotted expression in module m to a repo qualname or an external dotted name"""
        if dotted is None:
            return None
        head, _, rest = dotted.partition(".")
        if head in m.defs:
            q = m.dotted + "." + head
        elif head in m.imports:
            q = m.imports[head]
        else:
            return dotted
        return q + ("." + rest if rest else "")

    def subclasses(self, cq):
        out = [cq]
        for c, bs in self.bases.items():
            if cq in bs:
                out.extend(self.subclasses(c))
        return out

    def mro(self, cq):
        out = [cq]
        for b in self.bases.get(cq, []):
            out.extend(self.mro(b))
        return out

    def find_method(self, cq, name):
        for c in self.mro(cq):
            if c + "." + name in self.functions:
                return c + "." + name
        return None

    def dispatch(self, cq, name):
        """all implementations a call x.name() may reach when x : cq (static type)"""
        out = set()
        for c in self.subclasses(cq):
            f = self.find_method(c, name)
            if f:
                out.add(f)
        return sorted(out)

    # ------------------------------------------------------------------ per-function analysis
    def analyze(self, qualname, stack=()):
        if qualname in self._memo:
            return self._memo[qualname]
        if qualname in stack or qualname not in self.functions:
            return {"sites": [], "needs": {}, "calls": []}
        m, node, cq = self.functions[qualname]
        res = self._scan(qualname, m, node, cq)
        sites = list(res["sites"])
        needs = dict(res["needs"])
        for callee, passed, lineno in res["calls"]:
            sub = self.analyze(callee, stack + (qualname,))
            for s in sub["sites"]:
                if s not in sites:
                    sites.append(s)
            cm, cnode, _ = self.functions[callee]
            params = [a.arg for a in cnode.args.args + cnode.args.kwonlyargs]
            for p, site in sub["needs"].items():
                arg = passed.get(p)
                if arg is None and p in params:
                    pos = params.index(p) - (1 if params and params[0] in ("self", "cls") else 0)
                    arg = passed.get(pos)
                if arg is None or (isinstance(arg, ast.Constant) and arg.value is None):
                    sites.append(Site("NONDET", qualname, "%s(%s not passed)" % (callee.rsplit(".", 1)[-1], p), 0, lineno, site))
                elif isinstance(arg, ast.Name) and arg.id in res["guarded_params"]:
                    pass  # forwarded parameter that this function guards itself
                elif isinstance(arg, ast.Name) and arg.id in [a.arg for a in node.args.args + node.args.kwonlyargs] and _may_be_none(node, arg.id):
                    needs.setdefault(arg.id, site)
        out = {"sites": sites, "needs": needs, "calls": res["calls"]}
        self._memo[qualname] = out
        return out

    def _scan(self, qualname, m, node, cq):
        sites, calls, needs = [], [], {}
        ordn = {}
        guarded = set()
        types = {}
        for a in node.args.args + node.args.kwonlyargs:
            if a.annotation is not None:
                t = self.resolve_name(m, _dotted(_strip_optional(a.annotation)))
                if t in self.classes:
                    types[a.arg] = t
        if cq and node.args.args and node.args.args[0].arg in ("self",):
            types[node.args.args[0].arg] = cq
        elem_types = {}  # name -> element class for lists of repo objects

        def type_of_expr(e):
            """(class or None, element class or None) of an expression, by annotations / constructors / .plates"""
            if isinstance(e, ast.Name):
                return types.get(e.id), elem_types.get(e.id)
            if isinstance(e, ast.Attribute) and e.attr == "plates":
                return None, "batchie.data.Plate"
            if isinstance(e, ast.Call):
                d = _dotted(e.func)
                t = self.resolve_name(m, d) if d else None
                if t in self.classes:
                    return t, None
                ret = None
                retmod = m
                if t in self.functions:
                    ret = self.functions[t][1].returns
                    retmod = self.functions[t][0]
                elif isinstance(e.func, ast.Attribute):
                    rt, _ = type_of_expr(e.func.value)
                    if rt:
                        f = self.find_method(rt, e.func.attr)
                        if f:
                            ret = self.functions[f][1].returns
                            retmod = self.functions[f][0]
                    if e.func.attr == "tolist" or (isinstance(e.func.value, ast.Subscript)):
                        return None, type_of_expr(e.func.value)[1]
                if isinstance(e.func, ast.Name) and e.func.id in ("sorted", "list", "reversed") and e.args:
                    return None, type_of_expr(e.args[0])[1]
                if d in ("np.array_split", "numpy.array_split") and e.args:
                    return None, type_of_expr(e.args[0])[1]
                if ret is not None:
                    rt = self.resolve_name(retmod, _dotted(_strip_optional(ret)))
                    if rt in self.classes:
                        return rt, None
            if isinstance(e, ast.Subscript):
                return None, type_of_expr(e.value)[1]
            if isinstance(e, ast.ListComp) and len(e.generators) == 1:
                g = e.generators[0]
                _, et = type_of_expr(g.iter)
                if isinstance(e.elt, ast.Name) and isinstance(g.target, ast.Name) and e.elt.id == g.target.id:
                    return None, et
                return None, type_of_expr(e.elt)[0]
            return None, None

        for _round in range(2):
            for st in ast.walk(node):
                if isinstance(st, ast.Assign) and len(st.targets) == 1 and isinstance(st.targets[0], ast.Name):
                    t, et = type_of_expr(st.value)
                    if t:
                        types[st.targets[0].id] = t
                    if et:
                        elem_types[st.targets[0].id] = et
                if isinstance(st, (ast.For, ast.comprehension)) and isinstance(st.target, ast.Name):
                    _, et = type_of_expr(st.iter)
                    if et:
                        types[st.target.id] = et
        for st in ast.walk(node):
            if isinstance(st, ast.Assign) and len(st.targets) == 1 and isinstance(st.targets[0], ast.Name) and isinstance(st.value, ast.Call):
                t = self.resolve_name(m, _dotted(st.value.func))
                if t in self.classes:
                    types[st.targets[0].id] = t
            if isinstance(st, ast.AnnAssign) and isinstance(st.target, ast.Name):
                t = self.resolve_name(m, _dotted(_strip_optional(st.annotation)))
                if t in self.classes:
                    types[st.target.id] = t

        def site(kind, callee, lineno, extra=None):
            k = ordn.get(callee, 0)
            ordn[callee] = k + 1
            s = Site(kind, qualname, callee, k, lineno, extra)
            sites.append(s)
            return s

        def visit(n, guard_param=None):
            if isinstance(n, ast.If):
                gp = _is_none_test(n.test)
                for c in n.body:
                    visit(c, gp or guard_param)
                for c in n.orelse:
                    visit(c, guard_param)
                visit_expr(n.test, guard_param)
                return
            if isinstance(n, (ast.For, ast.comprehension)):
                it = n.iter
                if _is_set_expr(it):
                    site("SETITER", "set-iteration", getattr(n, "lineno", getattr(it, "lineno", 0)))
            for ch in ast.iter_child_nodes(n):
                if isinstance(ch, ast.expr):
                    visit_expr(ch, guard_param)
                else:
                    visit(ch, guard_param)

        def visit_expr(e, guard_param):
            for n in ast.walk(e):
                if isinstance(n, ast.comprehension) and _is_set_expr(n.iter):
                    site("SETITER", "set-iteration", getattr(n.iter, "lineno", 0))
                if isinstance(n, ast.Attribute) and isinstance(n.ctx, ast.Load) and n.attr in WATCHED_READS:
                    site("READ", n.attr, n.lineno)
                if not isinstance(n, ast.Call):
                    continue
                d = _dotted(n.func)
                full = self.resolve_name(m, d) if d else None
                passed = {k.arg: k.value for k in n.keywords if k.arg}
                for i_, a in enumerate(n.args):
                    passed[i_] = a
                if full:
                    if full.startswith("numpy.random.") or full.startswith("np.random."):
                        fn = full.split(".", 2)[2]
                        if fn in ("default_rng", "SeedSequence"):
                            if not n.args or (isinstance(n.args[0], ast.Constant) and n.args[0].value is None):
                                if guard_param:
                                    needs.setdefault(guard_param, "%s#%s" % (qualname, fn))
                                    guarded.add(guard_param)
                                else:
                                    site("NONDET", "numpy.random." + fn + "()", n.lineno)
                        elif fn.split(".")[0] in ("Generator", "BitGenerator", "PCG64"):
                            pass
                        else:
                            site("NONDET", "numpy.random." + fn, n.lineno)
                        continue
                    head = full.split(".")[0]
                    if head in NONDET_MODULES or full in ("os.urandom", "os.getpid", "id", "hash"):
                        if not (head == "time" and False):
                            site("NONDET", full, n.lineno)
                        continue
                    if full in self.functions:
                        calls.append((full, passed, n.lineno))
                        continue
                    if full in self.classes:
                        init = self.find_method(full, "__init__")
                        if init:
                            calls.append((init, passed, n.lineno))
                        continue
                    # Class.method / module.Class.method
                    if full.rsplit(".", 1)[0] in self.classes:
                        f = self.find_method(full.rsplit(".", 1)[0], full.rsplit(".", 1)[1])
                        if f:
                            calls.append((f, passed, n.lineno))
                            continue
                if isinstance(n.func, ast.Attribute):
                    meth = n.func.attr
                    recv = n.func.value
                    rname = recv.id if isinstance(recv, ast.Name) else None
                    rd = _dotted(recv) or ""
                    if meth in GEN_METHODS and ("rng" in rd.lower() or "seed" in rd.lower()):
                        continue  # draws from the generator that was handed in
                    if (qualname, meth) in self.hints:
                        for f in self.hints[(qualname, meth)]:
                            calls.append((f, passed, n.lineno))
                        continue
                    if rname and rname in types:
                        for f in self.dispatch(types[rname], meth):
                            calls.append((f, passed, n.lineno))
                        continue
                    if rname and (rname in m.imports) and not repo.is_repo_module(m.imports[rname]):
                        continue  # library module call (np.*, h5py.*, ...)
                    if rd.startswith("self.") and cq:
                        pass
                    if cq and self.find_method(cq, meth) and not rd.startswith("self"):
                        # same-class heuristic: inside a method of C an untyped receiver calling a method that C has
                        # (e.g. `first.combine(x)` in C.concat) is taken to be a C
                        for f in self.dispatch(cq, meth):
                            calls.append((f, passed, n.lineno))
                        continue
                    cands = self.methods_by_name.get(meth, [])
                    if cands and meth not in PURE_ATTR_CALLS:
                        for c in cands:
                            calls.append((c + "." + meth, passed, n.lineno))

        for st in node.body:
            visit(st)
        # property reads: attribute access x.p where p is a property of a repo class (resolved by name)
        for n in ast.walk(node):
            if isinstance(n, ast.Attribute) and isinstance(n.ctx, ast.Load):
                for c in self.methods_by_name.get(n.attr, []):
                    mm, fnode, _ = self.functions[c + "." + n.attr]
                    if any((isinstance(d, ast.Name) and d.id == "property") for d in fnode.decorator_list):
                        rname = n.value.id if isinstance(n.value, ast.Name) else None
                        if rname and rname in types and c not in [x for x in self.mro(types[rname])] and c not in self.subclasses(types[rname]):
                            continue
                        if (qualname, n.attr) in self.hints and (c + "." + n.attr) not in self.hints[(qualname, n.attr)]:
                            continue
                        calls.append((c + "." + n.attr, {}, n.lineno))
        return {"sites": sites, "calls": calls, "needs": needs, "guarded_params": guarded}


def _dotted(e):
    parts = []
    while isinstance(e, ast.Attribute):
        parts.append(e.attr)
        e = e.value
    if isinstance(e, ast.Name):
        parts.append(e.id)
        return ".".join(reversed(parts))
    return None


def _strip_optional(a):
    if isinstance(a, ast.Subscript):
        d = _dotted(a.value)
        if d and d.split(".")[-1] in ("Optional",):
            return a.slice
        if d and d.split(".")[-1] in ("list", "List"):
            return ast.Constant(value=None)
    if isinstance(a, ast.Constant) and isinstance(a.value, str):
        return ast.Name(id=a.value, ctx=ast.Load())
    return a


def _is_none_test(t):
    if isinstance(t, ast.Compare) and len(t.ops) == 1 and isinstance(t.ops[0], ast.Is) and isinstance(t.left, ast.Name) \
            and isinstance(t.comparators[0], ast.Constant) and t.comparators[0].value is None:
        return t.left.id
    return None


def _is_set_expr(e):
    if isinstance(e, (ast.Set, ast.SetComp)):
        return True
    if isinstance(e, ast.Call) and isinstance(e.func, ast.Name) and e.func.id in ("set", "frozenset"):
        return True
    if isinstance(e, ast.Call) and isinstance(e.func, ast.Name) and e.func.id in ("list", "tuple", "enumerate") and e.args:
        return _is_set_expr(e.args[0])
    return False


def _may_be_none(fnode, pname):
    a = fnode.args
    names = [x.arg for x in a.args]
    defaults = dict(zip(names[len(names) - len(a.defaults):], a.defaults))
    for x, d in zip(a.kwonlyargs, a.kw_defaults):
        if d is not None:
            defaults[x.arg] = d
    d = defaults.get(pname)
    return isinstance(d, ast.Constant) and d.value is None
