"""Body verification of one function against its contract, and lemma obligations."""
import time
import traceback
import z3
from . import repo, lib
from .values import *  # noqa
from .engine import (Ctx, Interp, Frame, PathAbort, PyRaise, Oblig, GenV, MAX_PATHS, _aslist)
from .spec import REGISTRY, NS, BindError, named, LEMMAS


class FnReport:
    def __init__(self, qualname):
        self.qualname = qualname
        self.obligs = []
        self.paths = 0
        self.status = "ok"  # ok | unsupported | unbound | error
        self.detail = ""
        self.time_s = 0.0


def snapshot(interp, v):
    if isinstance(v, Obj):
        return NS({k: snapshot(interp, x) for k, x in v.fields.items()}, "field")
    if isinstance(v, SymList):
        return v.seq
    if isinstance(v, PyList):
        return tuple(snapshot(interp, x) for x in v.items)
    if isinstance(v, PyDict):
        return {k: snapshot(interp, x) for k, x in v.items.items()}
    r = lib._run("snapshot", interp, v)
    if r is not NotImplemented:
        return r
    return v


def loop_signature(n):
    """coarse signature of a loop header: kind, names bound by the target, names read in the iterable / test (constants, slices and call
    structure are deliberately ignored so that an edited bound still binds - and is then judged by the invariant)"""
    import ast as _a
    if isinstance(n, _a.For):
        tg = sorted({x.id for x in _a.walk(n.target) if isinstance(x, _a.Name)})
        rd = sorted({x.id for x in _a.walk(n.iter) if isinstance(x, _a.Name)} | {x.attr for x in _a.walk(n.iter) if isinstance(x, _a.Attribute)})
        return "for %s in {%s}" % (",".join(tg), ",".join(rd))
    rd = sorted({x.id for x in _a.walk(n.test) if isinstance(x, _a.Name)} | {x.attr for x in _a.walk(n.test) if isinstance(x, _a.Attribute)})
    return "while {%s}" % ",".join(rd)


_LOOP_SIGS = [None]


def recorded_loop_signatures():
    if _LOOP_SIGS[0] is None:
        import json as _j, os as _o
        pth = _o.path.join(_o.path.dirname(_o.path.dirname(_o.path.abspath(__file__))), "contracts", "loop_signatures.json")
        try:
            _LOOP_SIGS[0] = _j.load(open(pth))
        except Exception:
            _LOOP_SIGS[0] = {}
    return _LOOP_SIGS[0]


def verify_function(ct, label=None, params=None, observe=None):
    """observe: optional callback(interp, frame, ret, a) -> dict, evaluated at every normal path end; the
    (facts, observation) pairs are returned in rep.summaries (symbolic summaries for relational lemmas)."""
    rep = FnReport(ct.qualname if label is None else "%s[%s]" % (ct.qualname, label))
    rep.summaries = []
    t0 = time.time()
    try:
        m, node = repo.find(ct.qualname.split("@")[0])
    except (KeyError, FileNotFoundError, SyntaxError) as e:
        rep.status, rep.detail = "unbound", "cannot load %s: %r" % (ct.qualname, e)
        return rep
    if node is None:
        rep.status, rep.detail = "unbound", "function %s not found in current source" % ct.qualname
        return rep
    import ast as _ast
    for d in node.decorator_list:
        dn = d.id if isinstance(d, _ast.Name) else (d.attr if isinstance(d, _ast.Attribute) else "?")
        if dn not in ("staticmethod", "classmethod", "property", "abstractmethod"):
            rep.status, rep.detail = "unsupported", "decorator @%s on %s is not modelled" % (dn, ct.qualname)
            return rep
    params = params if params is not None else ct.params
    full_node = node
    region = getattr(ct, "region", None)
    if region is not None:
        # verify a REGION = a contiguous run of top-level statements of the function; its live-in variables are the
        # contract's params (their declared types are assumptions about what precedes), the posts speak about locals
        import copy as _copy
        body = node.body
        idx = [k for k, stt in enumerate(body) if region[0](stt)]
        jdx = [k for k, stt in enumerate(body) if region[1](stt)]
        if not idx or not jdx or jdx[-1] < idx[0]:
            rep.status, rep.detail = "unbound", "region of %s not found in current source" % ct.qualname
            return rep
        node = _copy.copy(node)
        node.body = body[idx[0]:jdx[-1] + 1]
        node.args = _copy.deepcopy(node.args)
        node.args.args, node.args.defaults, node.args.kwonlyargs, node.args.kw_defaults = [_ast.arg(arg=pn) for pn, _ in params], [], [], []
        rep.region = "statements %d..%d of %d (lines %s-%s); the rest of the function is not under this contract" % (
            idx[0], jdx[-1], len(body), getattr(node.body[0], "lineno", "?"), getattr(node.body[-1], "end_lineno", "?"))
    # a contract whose proof structure no longer binds to the code (a loop it gives an invariant for, or a statement it attaches a ghost
    # lemma to, is gone) is UNBOUND: undecided, never a violation by itself
    have_loops = set(repo.loop_keys(full_node).values())
    gone = [k for k in ct.loops if k not in have_loops]
    if gone:
        rep.status, rep.detail = "unbound", "contract gives invariants for loops %s that the current source does not have" % gone
        return rep
    rec = recorded_loop_signatures().get(ct.qualname, {})
    if rec:
        import ast as _ast2
        keys_now = repo.loop_keys(full_node)
        sig_now = {keys_now[id(n_)]: loop_signature(n_) for n_ in _ast2.walk(full_node) if id(n_) in keys_now}
        moved = [k for k in ct.loops if rec.get(k) is not None and sig_now.get(k) != rec.get(k)]
        if moved:
            rep.status = "unbound"
            rep.detail = "loops %s are not the loops the invariants were written for (header now %s, recorded %s): a loop was inserted, removed or rewritten" % (
                moved, [sig_now.get(k) for k in moved], [rec.get(k) for k in moved])
            return rep
    fired_hooks = set()
    worklist = [[]]
    seen = set()
    cls = None
    if "." in repo.split_qualname(ct.qualname.split("@")[0])[1]:
        cls_q = ct.qualname.split("@")[0].rsplit(".", 1)[0]
    else:
        cls_q = None
    while worklist:
        prefix = worklist.pop()
        rep.paths += 1
        if rep.paths > MAX_PATHS:
            rep.status, rep.detail = "unsupported", "more than %d paths" % MAX_PATHS
            break
        ctx = Ctx(prefix, rep.qualname)
        interp = Interp(ctx, lib)
        flabel = rep.qualname
        try:
            args = {}
            ctx.ghost["_args"] = args
            ctx.ghost["_origin"] = "param"
            for pn, pt in params:
                args[pn] = pt.fresh(ctx, pn)
            ctx.ghost["_origin"] = "unknown"
            old = {k: snapshot(interp, v) for k, v in args.items()}
            ad = dict(args)
            ad["old"] = NS(old, "entry value")
            ad["ghost"] = ctx.ghost
            a = NS(ad, "argument")
            if ct.setup is not None:
                ct.setup(interp, a)
            for rq in ct._requires:
                for f in _aslist(rq(a)):
                    ctx.assume(f[1] if isinstance(f, tuple) else f)
            for u in ct.uses:
                for f in _aslist(u(a)):
                    ctx.assume(f)
            fr = Frame(m, node, ct.qualname, dict(args), 0, cls=interp.classref(cls_q) if cls_q else None)
            if region is not None:
                fr.loop_keys = repo.loop_keys(full_node)
                fr.contract = ct
            fr.entry = dict(args)
            fr.entry.update({"old": ad["old"]})
            interp._cur_label = flabel
            interp._cur_frame = fr
            try:
                ret = interp.run_body(fr)
                interp._cur_label = flabel
                if isinstance(ret, GenV) and ct.kind == "generator":
                    ret = ret.seq
                # must-raise conditions did not hold
                for exc, when, iff in ct._raises:
                    if iff:
                        c = when(a)
                        ctx.prove("%s/raises:%s:must" % (flabel, exc), z3.Not(c) if is_z3(c) else (not c), node, "raises")
                if observe is not None:
                    rep.summaries.append((list(ctx.facts), observe(interp, fr, ret, a), dict(args)))
                for nm, e in ct._ensures:
                    for sub, f in named(_aslist(e(a, ret, interp)), nm + "#"):
                        nm2 = nm if sub.startswith(nm + "#") and len(_aslist(e(a, ret, interp))) == 1 else "%s:%s" % (nm, sub)
                        ctx.prove("%s/post:%s" % (flabel, nm2), f, node, "post")
            except PyRaise as pr:
                interp._cur_label = flabel
                exc = pr.exc.clsname
                ctx.ghost["raised"] = pr.exc  # contracts may speak about the exception's arguments (e.g. the path named in a message)
                conds = []
                for e2, when, iff in ct._raises:
                    if e2 == exc:
                        c = when(a)
                        conds.append(c if is_z3(c) else z3.BoolVal(bool(c)))
                goal = z3.Or(*conds) if conds else z3.BoolVal(False)
                ctx.prove("%s/raises:%s:allowed@%s" % (flabel, exc, getattr(pr.node, "lineno", "?")), goal, pr.node, "raises")
            if not ctx.tainted:
                ctx.obligs.append(Oblig("%s/canary" % flabel, list(ctx.facts), z3.BoolVal(False), "", "canary"))
        except PathAbort:
            pass
        except Unsupported as e:
            rep.status = "unsupported"
            rep.detail = "%s (line %s)" % (e, getattr(getattr(e, "node", None), "lineno", "?"))
            rep.obligs.extend(ctx.obligs)
            break
        except BindError as e:
            rep.status, rep.detail = "unbound", str(e)
            break
        except RecursionError as e:
            rep.status, rep.detail = "unsupported", "recursion limit"
            break
        except (TypeError, AttributeError, KeyError, IndexError, ValueError, z3.Z3Exception) as e:
            # the executor (or a contract's spec function) met a value shape it has no rule for - typically after an edit of
            # the code under contract: the function is UNDECIDED (exit 2), never a pass, never a violation by itself
            import traceback as _tb
            rep.status = "unsupported"
            rep.detail = "executor has no rule for a value met here (%s: %s) at %s" % (type(e).__name__, str(e)[:200], _tb.format_exc().strip().splitlines()[-3].strip()[:160])
            rep.obligs.extend(ctx.obligs)
            break
        fired_hooks |= ctx.ghost.get("_after_fired", set())
        worklist.extend(ctx.pending)
        for o in ctx.obligs:
            rep.obligs.append(o)
    declared = {(nm, o) for nm, hs in (getattr(ct, "afters", None) or {}).items() for (o, _f) in hs}
    missing = sorted(d for d in declared if d not in fired_hooks)
    if missing and rep.status == "ok":
        rep.status = "unbound"
        rep.detail = "ghost lemmas attached to assignments %s never applied: those statements are no longer in the function in that form" % missing
    rep.time_s = time.time() - t0
    return rep


def verify_contract(ct):
    """All variants of a carrier."""
    if ct.variants:
        return [verify_function(ct, label=lab, params=ps) for lab, ps in ct.variants]
    return [verify_function(ct)]


def lemma_obligations(prop_lemmas):
    """prop_lemmas: list of (name, [hyps], goal). Pure formulas over contracts/spec functions."""
    out = []
    for name, hyps, goal in prop_lemmas:
        out.append(Oblig(name, list(hyps), goal, "", "lemma"))
    return out
