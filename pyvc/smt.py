"""SMT back end: every obligation is discharged in its own z3 solver instance (worker processes),
budget given as z3 `rlimit` (deterministic: a verdict cannot flip under machine load); wall-clock
timeout only as a safety net.  Thorough tier re-checks through SMT-LIB export with /usr/bin/cvc5."""
import hashlib
import multiprocessing as mp
import os
import subprocess
import tempfile
import time

RLIMIT = int(os.environ.get("PYVC_RLIMIT", "60000000"))
WALL_S = int(os.environ.get("PYVC_WALL_S", "90"))


def _solve(job):
    key, text, rlimit, want_model = job
    import z3
    t0 = time.time()
    try:
        # Attempt schedule: the first attempt decides almost everything; an `unknown` is retried with other
        # (fixed, hence reproducible) random seeds / quantifier settings.  Any `unsat` is a proof; `sat` stops at once.
        # E-matching first (every library axiom carries patterns; model-based instantiation over array sorts is slow and
        # only needed for the few pattern-less clauses), then MBQI, then another seed
        # Attempt schedule.  E-matching only (every library axiom carries patterns); the legacy arithmetic solver (2) is the
        # fast one for array VCs, the default (nla) one for div/mod VCs; short tries first, then long ones, MBQI last.
        # Any `unsat` is a proof; `sat` stops at once.  (options, rlimit multiplier, wall seconds)
        A, Bq = {"smt.mbqi": False, "smt.arith.solver": 2}, {"smt.mbqi": False}
        if "(div " in text or "(mod " in text:
            A, Bq = Bq, A
        # front end: "core" = z3.SimpleSolver (the SMT kernel alone) / "default" = z3.Solver (kernel behind z3's preprocessing
        # tactics).  The preprocessing was measured to throw away the seed terms that contracts supply as E-matching hints
        # (a 0.0 s proof became `unknown` after 20 s), so the kernel is tried first; the default front end stays in the schedule
        # because it decides some arithmetic-heavy VCs faster.
        attempts = [("core", A, 1, 12), ("default", A, 1, 12), ("default", Bq, 1, 12), ("core", Bq, 1, 12),
                    ("default", A, 2, WALL_S), ("default", Bq, 2, WALL_S), ("default", {}, 1, WALL_S)]
        res, model, reason = "unknown", None, ""
        for n_att, (front, opts, mult, wall) in enumerate(attempts):
            # a FRESH z3 context per attempt: the verdict then depends on the query text only, not on what this worker
            # process solved before (AST ids / symbol tables of a shared context were measured to flip 2 s proofs to unknown)
            zctx = z3.Context()
            s = z3.SimpleSolver(ctx=zctx) if front == "core" else z3.Solver(ctx=zctx)
            s.set("rlimit", int(rlimit * mult))
            s.set("timeout", int(wall * 1000))
            for k_, v_ in opts.items():
                s.set(k_, v_)
            s.from_string(text)
            r = s.check()
            res = str(r)
            if r == z3.unsat:
                reason = "" if n_att == 0 else "proved on attempt %d (%s) %r" % (n_att + 1, front, opts)
                break
            if r == z3.sat:
                if want_model:
                    m = s.model()
                    model = {str(d): str(m[d]) for d in m.decls() if d.arity() == 0}
                break
            reason = s.reason_unknown()
            if rlimit <= 25_000_000:
                break  # cheap checks (canaries, literally-false goals) are not retried
        if os.environ.get("PYVC_SAVE_ALL") and len(text) == int(os.environ.get("PYVC_SAVE_LEN", "0")):
            open(os.path.join(os.environ["PYVC_SAVE_ALL"], "t_%s_%s_%.0f.smt2" % (key[:10], res, time.time() - t0)), "w").write(text)
        if os.environ.get("PYVC_SAVE_SLOW") and time.time() - t0 > 15:
            open(os.path.join(os.environ["PYVC_SAVE_SLOW"], "slow_%s.smt2" % key[:10]), "w").write(text)
            open(os.path.join(os.environ["PYVC_SAVE_SLOW"], "slow_%s.log" % key[:10]), "w").write("%s %s %.1fs attempts=%d\n" % (res, reason, time.time() - t0, n_att + 1))
        return key, res, time.time() - t0, model, reason
    except Exception as e:  # solver crash: undecided, never a violation by itself
        return key, "error", time.time() - t0, None, repr(e)


_pool = None


def pool():
    global _pool
    if _pool is None:
        _pool = mp.get_context("fork").Pool(min(16, os.cpu_count() or 4))
    return _pool


def early_pool():
    """Fork the worker pool before the main process builds any z3 terms: workers then parse each obligation in
    a clean z3 context (a forked copy of a populated context was measured to turn sub-second proofs into
    rlimit-unknowns)."""
    return pool()


def discharge(obligs, rlimit=None, want_model=True):
    """obligs: list of engine.Oblig. Returns list of dict results aligned with obligs (deduplicated by text)."""
    rlimit = rlimit or RLIMIT
    import z3 as _z3
    texts = [o.smt2() for o in obligs]
    uniq = {}
    lim = {}
    for o, t in zip(obligs, texts):
        h = hashlib.sha1(t.encode()).hexdigest()
        uniq.setdefault(h, t)
        # a goal that is literally False can only be discharged by refuting the path: give it a small budget
        lim[h] = min(rlimit, 25_000_000) if (_z3.is_false(o.goal) and o.kind in ("canary", "frame")) else rlimit
    jobs = [(h, t, lim[h], want_model) for h, t in uniq.items()]
    results = {}
    for k, r, dt, m, why in pool().imap_unordered(_solve, jobs, chunksize=1):
        results[k] = (r, dt, m, why)
    out = []
    for o, t in zip(obligs, texts):
        h = hashlib.sha1(t.encode()).hexdigest()
        r, dt, m, why = results[h]
        out.append({"name": o.name, "loc": o.loc, "kind": o.kind, "result": r, "time_s": round(dt, 4),
                    "model": m, "reason": why, "hash": h, "smt2_bytes": len(t), "text": t})
    return out


def cvc5_check(text, timeout_s=30):
    """Cross-check one SMT-LIB text with /usr/bin/cvc5. Returns 'unsat' | 'sat' | 'unknown' | 'error'."""
    with tempfile.NamedTemporaryFile("w", suffix=".smt2", delete=False, dir=os.environ.get("PYVC_TMP", None)) as f:
        f.write("(set-logic ALL)\n" + text + "\n")
        path = f.name
    try:
        p = subprocess.run(["/usr/bin/cvc5", "--tlimit=%d" % (timeout_s * 1000), path],
                           capture_output=True, text=True, timeout=timeout_s + 10)
        out = p.stdout.strip().splitlines()
        return out[0] if out and out[0] in ("sat", "unsat", "unknown") else "error"
    except Exception:
        return "error"
    finally:
        os.unlink(path)
