"""Plate-wise dependency typing (a non-interference contract, decided by a syntax-directed type checker on the real source).

Contract form:   requires  X : P(nd)   for the plate-indexed inputs X (axis 0 = plate),  Y : G for the others
                 ensures   result : P(1)
where  v : P(nd)  means "v is an nd-dimensional array whose slice v[p] is a function of the slices X[p] of the plate-indexed inputs
and of the G values only" and  v : G  means "v does not depend on the plate-indexed inputs at all".  Every numpy operation used must
preserve this reading (element-wise maps, broadcasting against G values that do not reach axis 0, gathers that keep axis 0 intact,
reductions along an axis other than 0).  Anything the checker has no rule for makes the obligation UNDECIDED (never a pass).
What is assumed: numpy's broadcasting/indexing/reduction semantics as read by the rules below; floating point is irrelevant here (the
claim is about which inputs a value is computed from, not about its numerical value)."""
import ast


class P:
    def __init__(self, nd):
        self.nd = nd

    def __repr__(self):
        return "P(%d)" % self.nd


class G:
    def __init__(self, nd=None, lead1=False):
        self.nd, self.lead1 = nd, lead1  # lead1: axis 0 has length 1 (built with np.newaxis)

    def __repr__(self):
        return "G(%s%s)" % (self.nd, ",lead1" if self.lead1 else "")


class ShapeOf:
    def __init__(self, v):
        self.v = v


class NPlates:
    """the number of plates: a function of which plates are scored together"""


class Undecided(Exception):
    pass


class Violation(Exception):
    pass


ELEMENTWISE = {"isnan", "nan_to_num", "square", "log", "exp", "sqrt", "abs", "negative", "log1p", "expm1", "asarray", "float32", "float64"}
REDUCE = {"sum", "logsumexp", "max", "min", "mean", "prod", "amax", "amin", "nansum", "any", "all"}


class Checker:
    def __init__(self, fn_node, plate_params, global_params):
        self.fn = fn_node
        self.env = {}
        for a in fn_node.args.args + fn_node.args.kwonlyargs:
            if a.arg in plate_params:
                self.env[a.arg] = P(plate_params[a.arg])
            elif a.arg in global_params:
                self.env[a.arg] = G(global_params[a.arg])
            else:
                raise Undecided("parameter %s has no declared dependency type" % a.arg)
        self.result = None

    # ---------------------------------------------------------------- statements
    def run(self):
        self.block(self.fn.body)
        if self.result is None:
            raise Undecided("no return statement reached")
        return self.result

    def block(self, stmts):
        for st in stmts:
            self.stmt(st)

    def stmt(self, st):
        if isinstance(st, ast.Expr):
            if isinstance(st.value, ast.Constant):
                return
            self.expr(st.value)
            return
        if isinstance(st, ast.If):
            t = self.expr(st.test)
            if isinstance(t, P):
                raise Undecided("branch on plate-dependent data (line %d)" % st.lineno)
            # both branches are analysed; variables must get the same kind on both
            env0 = dict(self.env)
            self.block(st.body)
            env1 = self.env
            self.env = dict(env0)
            self.block(st.orelse)
            for k in set(env1) | set(self.env):
                a, b = env1.get(k), self.env.get(k)
                if a is None or b is None:
                    continue
                if type(a) is not type(b) or getattr(a, "nd", None) != getattr(b, "nd", None):
                    # a raise-only branch leaves env unchanged: keep the other one when equal to the entry value
                    if b is env0.get(k):
                        self.env[k] = a
                    elif a is env0.get(k):
                        pass
                    else:
                        raise Undecided("variable %s has different dependency types on the two branches (line %d)" % (k, st.lineno))
            return
        if isinstance(st, ast.Raise):
            return
        if isinstance(st, ast.With):
            self.block(st.body)
            return
        if isinstance(st, ast.Return):
            self.result = self.expr(st.value)
            return
        if isinstance(st, ast.Assign):
            v = self.expr(st.value)
            for t in st.targets:
                self.assign(t, v, st)
            return
        if isinstance(st, ast.AugAssign) and isinstance(st.target, ast.Name):
            v = self.binop(self.expr(st.target), self.expr(st.value), st)
            self.env[st.target.id] = v
            return
        raise Undecided("statement %s (line %d)" % (type(st).__name__, st.lineno))

    def assign(self, t, v, st):
        if isinstance(t, ast.Name):
            self.env[t.id] = v
            return
        if isinstance(t, ast.Tuple):
            if isinstance(v, ShapeOf) and isinstance(v.v, P):
                for k, e in enumerate(t.elts):
                    self.env[e.id] = NPlates() if k == 0 else G(0)
                return
            if isinstance(v, (G, ShapeOf)):
                for e in t.elts:
                    self.assign(e, G(v.nd if isinstance(v, G) and v.nd == 1 else None), st)
                return
        raise Undecided("assignment target (line %d)" % st.lineno)

    # ---------------------------------------------------------------- expressions
    def expr(self, e):
        if isinstance(e, ast.Constant):
            return G(0)
        if isinstance(e, ast.Name):
            if e.id in self.env:
                return self.env[e.id]
            return G(None)  # module-level names (np, comb, logsumexp, helper functions)
        if isinstance(e, ast.Attribute):
            v = self.expr(e.value)
            if e.attr == "shape":
                return ShapeOf(v)
            if e.attr in ("T", "size", "ndim", "dtype") and isinstance(v, G):
                return G(None)
            if isinstance(v, G):
                return G(None)
            raise Undecided("attribute .%s of a plate-indexed value (line %d)" % (e.attr, e.lineno))
        if isinstance(e, ast.UnaryOp):
            return self.expr(e.operand)
        if isinstance(e, ast.BinOp):
            return self.binop(self.expr(e.left), self.expr(e.right), e)
        if isinstance(e, ast.BoolOp):
            vs = [self.expr(x) for x in e.values]
            if any(isinstance(v, (P, NPlates)) for v in vs):
                raise Undecided("boolean operator on plate data (line %d)" % e.lineno)
            return G(0)
        if isinstance(e, ast.Compare):
            vs = [self.expr(e.left)] + [self.expr(c) for c in e.comparators]
            if any(isinstance(v, P) for v in vs):
                raise Undecided("comparison of plate-indexed arrays (line %d)" % e.lineno)
            return G(0)
        if isinstance(e, ast.Subscript):
            return self.subscript(e)
        if isinstance(e, (ast.Tuple, ast.List)):
            vs = [self.expr(x) for x in e.elts]
            if any(isinstance(v, (P, NPlates)) for v in vs):
                raise Undecided("tuple/list holding plate data (line %d)" % e.lineno)
            return G(None)
        if isinstance(e, ast.ListComp):
            for g in e.generators:
                it = self.expr(g.iter)
                if isinstance(it, (P, NPlates)):
                    raise Undecided("comprehension over plate data (line %d)" % e.lineno)
                for n in ast.walk(g.target):
                    if isinstance(n, ast.Name):
                        self.env[n.id] = G(None)
            v = self.expr(e.elt)
            if isinstance(v, (P, NPlates)):
                raise Undecided("comprehension producing plate data (line %d)" % e.lineno)
            return G(None)
        if isinstance(e, ast.Starred):
            return self.expr(e.value)
        if isinstance(e, ast.Call):
            return self.call(e)
        if isinstance(e, ast.JoinedStr):
            return G(0)
        raise Undecided("expression %s (line %d)" % (type(e).__name__, e.lineno))

    def binop(self, a, b, node):
        for x in (a, b):
            if isinstance(x, NPlates):
                raise Violation("arithmetic with the number of plates (line %d): the value depends on which plates are scored together" % node.lineno)
            if isinstance(x, ShapeOf):
                raise Undecided("arithmetic on a shape tuple (line %d)" % node.lineno)
        if isinstance(a, G) and isinstance(b, G):
            nd = None if a.nd is None or b.nd is None else max(a.nd, b.nd)
            return G(nd, lead1=(a.lead1 and (b.nd is not None and a.nd is not None and b.nd <= a.nd)) or (b.lead1 and (a.nd is not None and b.nd is not None and a.nd <= b.nd)))
        if isinstance(a, P) and isinstance(b, P):
            return P(max(a.nd, b.nd)) if a.nd == b.nd else self._undec("operands with plate axes of different rank (line %d)" % node.lineno)
        p, g = (a, b) if isinstance(a, P) else (b, a)
        if g.nd is None:
            raise Undecided("broadcast of a plate-indexed array with a value of unknown rank (line %d)" % node.lineno)
        if g.nd < p.nd or (g.nd == p.nd and g.lead1):
            return P(p.nd)
        if g.nd == p.nd:
            raise Undecided("global array of the same rank as the plate-indexed one, axis 0 not known to be 1 (line %d)" % node.lineno)
        raise Violation("a global array of higher rank broadcasts over the plate axis (line %d)" % node.lineno)

    def _undec(self, msg):
        raise Undecided(msg)

    def subscript(self, e):
        v = self.expr(e.value)
        sl = e.slice
        items = list(sl.elts) if isinstance(sl, ast.Tuple) else [sl]
        kinds = []
        for it in items:
            if isinstance(it, ast.Slice):
                full = it.lower is None and it.upper is None and it.step is None
                kinds.append("full" if full else "slice")
                for part in (it.lower, it.upper, it.step):
                    if part is not None and isinstance(self.expr(part), (P, NPlates)):
                        raise Undecided("slice bound from plate data (line %d)" % e.lineno)
            elif isinstance(it, ast.Attribute) and it.attr == "newaxis" or (isinstance(it, ast.Constant) and it.value is None):
                kinds.append("new")
            else:
                iv = self.expr(it)
                if isinstance(iv, (P, NPlates)):
                    raise Undecided("index computed from plate data (line %d)" % e.lineno)
                kinds.append("int" if (isinstance(iv, G) and iv.nd == 0) else "arr")
        if isinstance(v, ShapeOf):
            if isinstance(v.v, P) and kinds == ["int"] and isinstance(items[0], ast.Constant) and items[0].value == 0:
                return NPlates()
            return G(0)
        if isinstance(v, G):
            nd = None
            if v.nd is not None:
                nd = v.nd - sum(1 for k in kinds if k == "int") + sum(1 for k in kinds if k == "new")
                n_arr = sum(1 for k in kinds if k == "arr")
                if n_arr > 1:
                    nd -= (n_arr - 1)  # fancy indices broadcast together into one axis
            return G(nd, lead1=(kinds[0] == "new"))
        # plate-indexed: axis 0 must be taken whole
        if kinds[0] != "full":
            raise Violation("the plate axis is indexed / sliced / shifted (line %d): entry p of the result no longer comes from plate p" % e.lineno)
        n_arr = sum(1 for k in kinds if k == "arr")
        if n_arr > 1:
            raise Undecided("several fancy indices on a plate-indexed array (line %d)" % e.lineno)
        return P(v.nd - sum(1 for k in kinds if k == "int") + sum(1 for k in kinds if k == "new"))

    def call(self, e):
        f = e.func
        name = f.attr if isinstance(f, ast.Attribute) else (f.id if isinstance(f, ast.Name) else None)
        args = [self.expr(a) for a in e.args]
        kw = {k.arg: k.value for k in e.keywords}
        kwv = {k: self.expr(v) for k, v in kw.items()}
        allv = args + list(kwv.values())
        if not any(isinstance(v, (P, NPlates, ShapeOf)) for v in allv):
            # method on a plate-indexed receiver?
            if isinstance(f, ast.Attribute):
                recv = self.expr(f.value)
                if isinstance(recv, P):
                    return self.method(recv, name, e, kw)
            if name in ELEMENTWISE and args and isinstance(args[0], G):
                return G(args[0].nd, args[0].lead1)
            if name == "array" and args and isinstance(args[0], G):
                return G(args[0].nd)
            if name == "zip" and len(e.args) == 1 and isinstance(e.args[0], ast.Starred) and isinstance(e.args[0].value, ast.ListComp) \
                    and isinstance(e.args[0].value.elt, ast.Call) and getattr(e.args[0].value.elt.func, "id", "") == "get_combination_at_sorted_index":
                return G(1)  # zip(*[k-tuples of ints]): each component is a flat sequence of ints (C15: the unranker returns k integers)
            return G(None if name not in ("comb", "min", "max", "len", "int", "float") else 0)
        if any(isinstance(v, NPlates) for v in allv):
            raise Violation("%s(...) uses the number of plates (line %d)" % (name, e.lineno))
        if name in ELEMENTWISE and isinstance(args[0], P):
            return P(args[0].nd)
        if name in REDUCE and isinstance(args[0], P):
            return self.reduce(args[0], kw, e.args[1:] if len(e.args) > 1 else [], e, name)
        if name in ("format", "ValueError", "info", "debug", "warning"):
            return G(0)
        raise Undecided("no dependency rule for %s(...) on plate-indexed data (line %d)" % (name, e.lineno))

    def method(self, recv, name, e, kw):
        if name in REDUCE:
            return self.reduce(recv, kw, e.args, e, name)
        if name in ("copy", "astype"):
            return P(recv.nd)
        raise Undecided("method .%s on plate-indexed data (line %d)" % (name, e.lineno))

    def reduce(self, x, kw, pos, e, name):
        ax = kw.get("axis", pos[0] if pos else None)
        if ax is None:
            raise Violation("%s without axis reduces over the plate axis too (line %d): every plate's value depends on all plates" % (name, e.lineno))
        if isinstance(ax, ast.UnaryOp) and isinstance(ax.op, ast.USub) and isinstance(ax.operand, ast.Constant):
            a = -ax.operand.value
        elif isinstance(ax, ast.Constant) and isinstance(ax.value, int):
            a = ax.value
        else:
            raise Undecided("%s over a non-literal axis (line %d)" % (name, e.lineno))
        if a < 0:
            a += x.nd
        if a == 0:
            raise Violation("%s along axis 0 mixes plates (line %d)" % (name, e.lineno))
        if not (0 < a < x.nd):
            raise Undecided("%s axis %d out of range for rank %d (line %d)" % (name, a, x.nd, e.lineno))
        if "keepdims" in kw:
            return P(x.nd)
        return P(x.nd - 1)


def check(fn_node, plate_params, global_params):
    """returns ('proved', detail) | ('violated', reason) | ('undecided', reason)"""
    try:
        r = Checker(fn_node, plate_params, global_params).run()
    except Violation as v:
        return "violated", str(v)
    except Undecided as u:
        return "undecided", str(u)
    if isinstance(r, P) and r.nd == 1:
        return "proved", "result : P(1)"
    return "violated" if isinstance(r, (G, NPlates)) is False and isinstance(r, P) else "undecided", "result has dependency type %r, expected P(1)" % (r,)
