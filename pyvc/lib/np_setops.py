"""numpy set-like / ordering / stacking models."""
import z3
from ..values import *  # noqa
from . import model, hook, TRUSTED, FUNCS, VALUES, BUILTINS
from .arrays import (Arr, define1, define2, new_arr, dtype_arg, SORT_OF, FLOAT_AS, rank, idx, rank_axioms,
                     check_live, DTypeV, norm_index, write)

str_lt = z3.Function("str_lt", Str, Str, Bool)  # strict total order on names (numpy's string order; opaque)


def lt(sort, x, y):
    if sort == Str:
        return str_lt(x, y)
    if sort == Bool:
        return z3.And(z3.Not(x), y)
    return x < y


def str_order_axioms():
    a, b, c = z3.Consts("a!so b!so c!so", Str)
    return [z3.ForAll([a, b], z3.Or(str_lt(a, b), a == b, str_lt(b, a)), patterns=[str_lt(a, b)]),
            z3.ForAll([a, b], z3.Not(z3.And(str_lt(a, b), str_lt(b, a))), patterns=[str_lt(a, b)]),
            z3.ForAll([a, b, c], z3.Implies(z3.And(str_lt(a, b), str_lt(b, c)), str_lt(a, c)),
                      patterns=[z3.MultiPattern(str_lt(a, b), str_lt(b, c))])]


def roweq(a, r, b, r2):
    """row r of 2-D a equals row r2 of 2-D b (over the real columns only)"""
    cols = a.shape[1]
    if isinstance(cols, int):
        return z3.And(*[a.at(r, c) == b.at(r2, c) for c in range(cols)]) if cols else z3.BoolVal(True)
    cs = z3.simplify(to_z3(cols, Int))
    if z3.is_int_value(cs):
        n = cs.as_long()
        return z3.And(*[a.at(r, c) == b.at(r2, c) for c in range(n)]) if n else z3.BoolVal(True)
    c = z3.Int("c!req")
    return z3.ForAll([c], z3.Implies(z3.And(c >= 0, c < cs), a.at(r, c) == b.at(r2, c)))


@model("numpy.unique", "unique(a): strictly increasing array with the same element set; return_index: first occurrences; "
                       "axis=0: distinct rows (first-occurrence indices); return_counts: multiplicities")
def _unique(i, args, kw, node, fr):
    a = args[0]
    check_live(a, node)
    ret_index = kw.get("return_index", False)
    ret_counts = kw.get("return_counts", False)
    if kw.get("return_inverse"):
        raise Unsupported("unique(return_inverse)", node)
    A = i.ctx.assume
    n = to_z3(a.shape[0], Int)
    k, k2, j = z3.Int("k!u"), z3.Int("k2!u"), z3.Int("j!u")
    if a.ndim == 1 and kw.get("axis") in (None, 0):
        # unique is a function of its input: the same array value (same data term and length) gives the same result
        ckey = ("unique1", a.data.get_id(), n.get_id(), bool(ret_index))
        cache = i.ctx.ghost.setdefault("_unique_cache", {})
        if ckey in cache:
            u0, first0 = cache[ckey]
            i.ctx.ghost["last_unique"] = u0
            return (Arr(u0.shape, u0.data, u0.dtype, fresh=True), Arr((u0.shape[0],), first0, "int")) if ret_index else Arr(u0.shape, u0.data, u0.dtype, fresh=True)
        es = a.elem_sort
        u = new_arr(i, (i.ctx.fresh("nuniq", Int),), es, "uniq", a.dtype)
        m = u.shape[0]
        first = i.ctx.fresh("ufirst", z3.ArraySort(Int, Int))  # index of first occurrence of u[k]
        pos = z3.Function("upos!%d" % u.ident, es, Int)  # position of a value in u
        A(z3.And(m >= 0, m <= n, z3.Implies(n > 0, m >= 1)))
        A(z3.ForAll([k, k2], z3.Implies(z3.And(k >= 0, k < k2, k2 < m), lt(es, z3.Select(u.data, k), z3.Select(u.data, k2))),
                    patterns=[z3.MultiPattern(z3.Select(u.data, k), z3.Select(u.data, k2))]))
        A(z3.ForAll([k], z3.Implies(z3.And(k >= 0, k < m),
                                    z3.And(z3.Select(first, k) >= 0, z3.Select(first, k) < n,
                                           z3.Select(a.data, z3.Select(first, k)) == z3.Select(u.data, k),
                                           pos(z3.Select(u.data, k)) == k)),
                    patterns=[z3.Select(u.data, k)]))
        A(z3.ForAll([j], z3.Implies(z3.And(j >= 0, j < n),
                                    z3.And(pos(z3.Select(a.data, j)) >= 0, pos(z3.Select(a.data, j)) < m,
                                           z3.Select(u.data, pos(z3.Select(a.data, j))) == z3.Select(a.data, j),
                                           z3.Select(first, pos(z3.Select(a.data, j))) <= j)),
                    patterns=[z3.Select(a.data, j)]))
        if es == Str:
            for f in str_order_axioms():
                A(f)
        out = [u]
        i.ctx.ghost["last_unique"] = u
        cache[ckey] = (u, first)
        if ret_index:
            out.append(Arr((m,), first, "int"))
        if ret_counts:
            raise Unsupported("unique(return_counts)", node)
        return out[0] if len(out) == 1 else tuple(out)
    if a.ndim == 2 and kw.get("axis") == 0:
        m = i.ctx.fresh("nuniq", Int)
        u = new_arr(i, (m, a.shape[1]), a.elem_sort, "uniqrows", a.dtype)
        first = i.ctx.fresh("ufirst", z3.ArraySort(Int, Int))
        rpos = z3.Function("urow!%d" % u.ident, Int, Int)  # row index -> index of its class in u
        A(z3.And(m >= 0, m <= n, z3.Implies(n > 0, m >= 1)))
        fk = z3.Select(first, k)
        A(z3.ForAll([k], z3.Implies(z3.And(k >= 0, k < m), z3.And(fk >= 0, fk < n, roweq(u, k, a, fk), rpos(fk) == k)),
                    patterns=[z3.Select(first, k)]))
        A(z3.ForAll([j], z3.Implies(z3.And(j >= 0, j < n),
                                    z3.And(rpos(j) >= 0, rpos(j) < m, roweq(a, j, a, z3.Select(first, rpos(j))),
                                           z3.Select(first, rpos(j)) <= j)),
                    patterns=[rpos(j)]))
        # distinct classes have distinct rows
        A(z3.ForAll([k, k2], z3.Implies(z3.And(k >= 0, k < k2, k2 < m), z3.Not(roweq(a, z3.Select(first, k), a, z3.Select(first, k2)))),
                    patterns=[z3.MultiPattern(z3.Select(first, k), z3.Select(first, k2))]))
        i.ctx.ghost.setdefault("unique_rows", []).append({"first": first, "rpos": rpos, "m": m, "src": a})
        out = [u]
        if ret_index:
            out.append(Arr((m,), first, "int"))
        if ret_counts:
            raise Unsupported("unique(return_counts)", node)
        return out[0] if len(out) == 1 else tuple(out)
    raise Unsupported("np.unique on %d-D array with axis=%r" % (a.ndim, kw.get("axis")), node)


@model("numpy.sort", "sort(a) 1-D: ascending permutation of a")
def _sort(i, args, kw, node, fr):
    a = args[0]
    check_live(a, node)
    if a.ndim != 1 or kw.get("axis") not in (None, -1, 0):
        raise Unsupported("np.sort of 2-D / axis", node)
    n = to_z3(a.shape[0], Int)
    s = new_arr(i, (a.shape[0],), a.elem_sort, "sorted", a.dtype)
    perm = i.ctx.fresh("perm", z3.ArraySort(Int, Int))
    inv = i.ctx.fresh("perminv", z3.ArraySort(Int, Int))
    k, k2 = z3.Int("k!s"), z3.Int("k2!s")
    A = i.ctx.assume
    es = a.elem_sort
    A(z3.ForAll([k, k2], z3.Implies(z3.And(k >= 0, k < k2, k2 < n), z3.Not(lt(es, z3.Select(s.data, k2), z3.Select(s.data, k)))),
                patterns=[z3.MultiPattern(z3.Select(s.data, k), z3.Select(s.data, k2))]))
    pk = z3.Select(perm, k)
    A(z3.ForAll([k], z3.Implies(z3.And(k >= 0, k < n), z3.And(pk >= 0, pk < n, z3.Select(s.data, k) == z3.Select(a.data, pk),
                                                              z3.Select(inv, pk) == k)), patterns=[z3.Select(s.data, k)]))
    ik = z3.Select(inv, k)
    A(z3.ForAll([k], z3.Implies(z3.And(k >= 0, k < n), z3.And(ik >= 0, ik < n, z3.Select(perm, ik) == k)), patterns=[z3.Select(a.data, k)]))
    if es == Str:
        for f in str_order_axioms():
            A(f)
    return s


@model("numpy.setdiff1d", "setdiff1d(a, b): sorted unique values of a not in b")
def _setdiff1d(i, args, kw, node, fr):
    a, b = args[0], args[1]
    if isinstance(b, PyList):
        from .np_core import _array
        b = _array(i, [b], {}, node, fr)
    ua = _unique(i, [a], {}, node, fr)
    from .np_core import _isin
    keep = _isin(i, [ua, b], {"invert": True}, node, fr)
    from .arrays import select_mask
    return select_mask(i, ua, keep, node)


@model("numpy.array_equal", "array_equal(a,b): same shape and all elements equal")
def _array_equal(i, args, kw, node, fr):
    a, b = args
    if not (isinstance(a, Arr) and isinstance(b, Arr)) or a.ndim != 1 or b.ndim != 1:
        raise Unsupported("array_equal on non 1-D arrays", node)
    k = z3.Int("k!ae")
    n = to_z3(a.shape[0], Int)
    return z3.And(n == to_z3(b.shape[0], Int),
                  z3.ForAll([k], z3.Implies(z3.And(k >= 0, k < n), z3.Select(a.data, k) == z3.Select(b.data, k))))


@model("numpy.argmin", "argmin(a): first index of a minimal element (1-D, non-empty)")
def _argmin(i, args, kw, node, fr):
    return _argext(i, args[0], node, True)


@model("numpy.argmax", "argmax(a): first index of a maximal element (1-D, non-empty)")
def _argmax(i, args, kw, node, fr):
    return _argext(i, args[0], node, False)


def _argext(i, a, node, is_min):
    check_live(a, node)
    if a.ndim != 1:
        raise Unsupported("argmin/argmax of 2-D", node)
    n = to_z3(a.shape[0], Int)
    i.safe("nonempty", n > 0, node)
    r = i.ctx.fresh("argmin" if is_min else "argmax", Int)
    k = z3.Int("k!am")
    ar, ak = z3.Select(a.data, r), z3.Select(a.data, k)
    better = (ak < ar) if is_min else (ak > ar)
    no_worse = (ak <= ar) if is_min else (ak >= ar)
    i.ctx.assume(z3.And(r >= 0, r < n))
    i.ctx.assume(z3.ForAll([k], z3.Implies(z3.And(k >= 0, k < n), z3.And(z3.Not(better), z3.Implies(k < r, z3.Not(no_worse)))),
                           patterns=[z3.Select(a.data, k)]))
    return r


FUNCS["numpy.ndarray.argmin"] = _argmin
FUNCS["numpy.ndarray.argmax"] = _argmax


@model("numpy.vstack", "vstack(list of 1-D arrays of equal length): row k is the k-th array")
def _vstack(i, args, kw, node, fr):
    parts = i.concrete_items(args[0], node)
    if not parts or not all(isinstance(p, Arr) and p.ndim == 1 for p in parts):
        raise Unsupported("vstack of non 1-D arrays / symbolic list", node)
    n = parts[0].shape[0]
    for p in parts[1:]:
        i.safe("shape", to_z3(p.shape[0], Int) == to_z3(n, Int), node)
    es = parts[0].elem_sort
    out = new_arr(i, (len(parts), n), es, "vstack", parts[0].dtype)
    d = out.data
    for r, p in enumerate(parts):
        check_live(p, node)
        d = z3.Store(d, r, p.data)
    nm = i.ctx.fresh("vstack", d.sort())
    i.ctx.assume(nm == d)
    out.data = nm
    return out


@model("numpy.issubdtype", "issubdtype(dtype, kind) by element sort")
def _issubdtype(i, args, kw, node, fr):
    dt, kind = args
    if not isinstance(dt, DTypeV):
        raise Unsupported("issubdtype of %r" % (dt,), node)
    name = kind.name if isinstance(kind, Builtin) else str(kind)
    s = dt.sort
    if name in ("bool", "bool_"):
        return s == Bool
    if name in ("int", "int64", "integer"):
        return s == Int  # numpy: bool is not a subdtype of int
    if name in ("float", "float64", "floating"):
        return s in (Real, Val)
    if name in ("str", "str_"):
        return s == Str
    raise Unsupported("issubdtype kind %r" % (kind,), node)


class ConcSet:
    """set built from a concrete-length collection of scalars: only len() and membership"""

    def __init__(self, items):
        self.items = items


def _set_builtin(i, args, kw, node, fr):
    if not args:
        from .maps import SymSet
        return SymSet()
    items = i.concrete_items(args[0], node)
    return ConcSet(items)


BUILTINS["set"] = _set_builtin


@hook("len")
def _len(i, v, node):
    if isinstance(v, ConcSet):
        tot = 0
        for k, x in enumerate(v.items):
            dup = [i.equal(x, y, node) for y in v.items[:k]]
            isnew = z3.Not(z3.Or(*[d if is_z3(d) else z3.BoolVal(d) for d in dup])) if dup else z3.BoolVal(True)
            tot = tot + z3.If(isnew, 1, 0)
        return z3.simplify(tot) if is_z3(tot) else tot
    return NotImplemented


@hook("make_set")
def _make_set(i, items, node):
    return ConcSet(items)


TRUSTED["set(list)"] = "len(set(xs)) = number of distinct values"


@model("numpy.split", "split(a, k) with an integer k: k equal consecutive sections (ValueError unless len % k == 0)")
def _split(i, args, kw, node, fr):
    a, k = args[0], args[1]
    if not isinstance(k, int) or a.ndim != 1:
        raise Unsupported("np.split with symbolic section count / 2-D", node)
    from ..engine import PyRaise
    n = to_z3(a.shape[0], Int)
    part = i.ctx.fresh("section_len", Int)
    if i.ctx.decide(n % k != 0):
        raise PyRaise(ExcVal("ValueError"), node)
    i.ctx.assume(z3.And(part >= 0, part * k == n))
    out = []
    for c in range(k):
        out.append(define1(i, part, a.elem_sort, (lambda kk, _c=c: z3.Select(a.data, kk + _c * part)), "section", a.dtype))
    return PyList(out)
