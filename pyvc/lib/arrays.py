"""numpy array theory (assumed contracts on numpy; each model documented in TRUSTED).

An Arr is a heap object (reference semantics): ndim 1 or 2, shape (z3 Int terms), dtype tag and a z3 Array
term holding the contents (1-D: Array(Int,T); 2-D: Array(Int, Array(Int,T))).  In-place writes replace the
contents term.  Operations that build a new array return a *fresh* Arr whose contents are a fresh z3 constant
constrained by a quantified pointwise axiom with an E-matching pattern on Select(new, k).

Selection theory (boolean masks):  rank(m, i) = #True in m[0..i),  idx(m, n, k) = position of the k-th True.
"""
import z3
from ..values import *  # noqa
from .. import values as V
from . import model, hook, TRUSTED, FUNCS

BoolArr = z3.ArraySort(Int, Bool)
rank = z3.Function("rank", BoolArr, Int, Int)
idx = z3.Function("idx", BoolArr, Int, Int, Int)  # (mask, n, k)

SORT_OF = {"int": Int, "bool": Bool, "float": Real, "str": Str, "val": Val}
FLOAT_AS = ["float"]  # 'float' (reals) or 'val' (opaque payloads); switched per property


class Arr:
    _n = 0

    def __init__(self, shape, data, dtype, fresh=True):
        self.shape = tuple(shape)
        self.data = data
        self.dtype = dtype
        self.fresh = fresh  # not aliasing any input / field (ownership for frame conditions)
        self.origin = "fresh" if fresh else "unknown"  # fresh | param | unknown  (who may alias this array)
        self.stale = False
        self.views = []
        Arr._n += 1
        self.ident = Arr._n

    @property
    def ndim(self):
        return len(self.shape)

    @property
    def elem_sort(self):
        s = self.data.sort().range()
        if self.ndim == 2:
            s = s.range()
        return s

    def at(self, *ix):
        d = self.data
        for i in ix:
            d = z3.Select(d, to_z3(i, Int))
        return d

    def __repr__(self):
        return "<Arr#%d %s %s>" % (self.ident, self.dtype, "x".join(str(s) for s in self.shape))


def dtype_of_sort(s):
    for k, v in SORT_OF.items():
        if v == s:
            return k
    return "obj"


def arr_sort(elem, ndim):
    s = z3.ArraySort(Int, elem)
    return s if ndim == 1 else z3.ArraySort(Int, s)


def new_arr(i, shape, elem, name="arr", dtype=None):
    shape = tuple(to_z3(s, Int) if not isinstance(s, int) else s for s in shape)
    a = Arr(shape, i.ctx.fresh(name, arr_sort(elem, len(shape))), dtype or dtype_of_sort(elem))
    for s in shape:
        if is_z3(s):
            i.ctx.assume(s >= 0)
    return a


def _pattern_ok(t):
    """z3 patterns may not contain ite / boolean connectives / quantifiers"""
    stack, seen = [t], set()
    while stack:
        e = stack.pop()
        if e.get_id() in seen:
            continue
        seen.add(e.get_id())
        if z3.is_quantifier(e) or not z3.is_app(e):
            return False
        k = e.decl().kind()
        if k in (z3.Z3_OP_ITE, z3.Z3_OP_AND, z3.Z3_OP_OR, z3.Z3_OP_NOT, z3.Z3_OP_IMPLIES, z3.Z3_OP_EQ, z3.Z3_OP_LE, z3.Z3_OP_LT, z3.Z3_OP_GE, z3.Z3_OP_GT):
            return False
        stack.extend(e.children())
    return True


def define1(i, n, elem, f, name="arr", dtype=None, alts=None):
    """fresh 1-D array r of length n with  forall k in [0,n). r[k] == f(k).
    alts: functions k -> source term; each becomes an alternative trigger so that the axiom also fires from the
    operands' side (E-matching chains must connect in both directions)."""
    r = new_arr(i, (n,), elem, name, dtype)
    k = z3.Int("k!" + name)
    body = f(k)
    body = to_z3(body, elem) if not is_z3(body) or body.sort() != elem else body
    pats = [z3.Select(r.data, k)]
    for alt in alts or []:
        try:
            t = alt(k)
            if is_z3(t) and not z3.is_const(t) and z3.is_app(t) and t.decl().kind() in (z3.Z3_OP_SELECT, z3.Z3_OP_UNINTERPRETED) and _pattern_ok(t):
                pats.append(t)
        except Exception:
            pass
    try:
        ax = z3.ForAll([k], z3.Implies(z3.And(k >= 0, k < to_z3(n, Int)), z3.Select(r.data, k) == body), patterns=pats)
    except z3.Z3Exception:
        ax = z3.ForAll([k], z3.Implies(z3.And(k >= 0, k < to_z3(n, Int)), z3.Select(r.data, k) == body), patterns=pats[:1])
    i.ctx.assume(ax)
    return r


def define2(i, rows, cols, elem, f, name="arr", dtype=None):
    r = new_arr(i, (rows, cols), elem, name, dtype)
    a, b = z3.Int("r!" + name), z3.Int("c!" + name)
    body = f(a, b)
    body = to_z3(body, elem) if not is_z3(body) or body.sort() != elem else body
    i.ctx.assume(z3.ForAll([a, b], z3.Implies(z3.And(a >= 0, a < to_z3(rows, Int), b >= 0, b < to_z3(cols, Int)),
                                              z3.Select(z3.Select(r.data, a), b) == body),
                           patterns=[z3.Select(z3.Select(r.data, a), b)]))
    return r


VAL0 = z3.Const("val_zero", Val)  # the float 0.0 as an opaque payload
VAL1 = z3.Const("val_one", Val)
VALNAN = z3.Const("val_nan", Val)
isnan = z3.Function("isnan", Val, Bool)
isfinite = z3.Function("isfinite", Val, Bool)  # neither NaN nor +-inf


def val_axioms():
    x = z3.Const("x!fin", Val)
    return [z3.Distinct(VAL0, VAL1, VALNAN), isnan(VALNAN), z3.Not(isnan(VAL0)), z3.Not(isnan(VAL1)), isfinite(VAL0), isfinite(VAL1),
            z3.ForAll([x], z3.Implies(isfinite(x), z3.Not(isnan(x))), patterns=[isfinite(x)])]


def const_of(dtype_sort, v):
    if dtype_sort == Val:
        if v == 0:
            return VAL0
        if v == 1:
            return VAL1
        raise Unsupported("Val constant %r" % (v,))
    if dtype_sort == Int:
        return z3.IntVal(int(v))
    if dtype_sort == Real:
        return z3.RealVal(v)
    if dtype_sort == Bool:
        return z3.BoolVal(bool(v))
    raise Unsupported("constant array of sort %s" % dtype_sort)


def dtype_arg(i, v, node, default="float"):
    """numpy dtype argument -> element sort"""
    if v is None:
        return SORT_OF[FLOAT_AS[0]] if default == "float" else SORT_OF[default]
    name = v.name if isinstance(v, Builtin) else (v.dotted.rsplit(".", 1)[-1] if isinstance(v, ModuleRef) else v)
    if name in ("int", "int64", "int32", "intp"):
        return Int
    if name in ("float", "float64", "float32", "double"):
        return SORT_OF[FLOAT_AS[0]]
    if name in ("bool", "bool_"):
        return Bool
    if name in ("str", "str_", "object", "U"):
        return Str
    if isinstance(v, DTypeV):
        return v.sort
    raise Unsupported("dtype %r" % (v,), node)


class DTypeV:
    def __init__(self, sort):
        self.sort = sort


def check_live(a, node):
    if a.stale:
        raise Unsupported("read of an array view after its base was written (view aliasing not modelled)", node)


def write(i, a, newdata, node, check=True):
    if not check:
        pass
    elif getattr(a, "readonly", False):
        # frame condition: arrays owned by an abstract (immutable) object / declared read-only must not be written
        i.ctx.prove("%s/frame:writes:array_of_immutable_object@%s" % (i._cur_label, getattr(node, "lineno", "?")),
                    z3.BoolVal(False), node, "frame")
    elif getattr(a, "origin", "fresh") == "unknown":
        # the array may alias an object we cannot see (loop-havoc'd variable, callee result): a write through it
        # could change that object
        i.ctx.prove("%s/frame:writes:possibly_aliased_array@%s" % (i._cur_label, getattr(node, "lineno", "?")),
                    z3.BoolVal(False), node, "frame")
    if getattr(a, "is_view", False):
        raise Unsupported("in-place write through a basic-slice view (aliasing not modelled)", node)
    for v in a.views:
        v.stale = True
    a.views = []
    if not (z3.is_const(newdata) and newdata.decl().kind() == z3.Z3_OP_UNINTERPRETED):
        # name the updated contents so that quantifier patterns stay over plain array constants
        nm = i.ctx.fresh("upd", newdata.sort())
        i.ctx.assume(nm == newdata)
        newdata = nm
    a.data = newdata


# ------------------------------------------------------------------ selection theory axioms

def rank_axioms(i, m, n):
    """Facts about rank/idx for mask m of length n (added once per mask term)."""
    key = ("rank", m.get_id(), n.get_id() if is_z3(n) else n)
    seen = i.ctx.ghost.setdefault("_rank_seen", set())
    if key in seen:
        return
    seen.add(key)
    n = to_z3(n, Int)
    k = z3.Int("k!rk")
    j = z3.Int("j!rk")
    A = i.ctx.assume
    A(rank(m, 0) == 0)
    A(z3.ForAll([k], z3.Implies(z3.And(k >= 0, k < n), rank(m, k + 1) == rank(m, k) + z3.If(z3.Select(m, k), 1, 0)),
                patterns=[z3.Select(m, k)]))
    A(z3.ForAll([k], z3.Implies(z3.And(k >= 0, k <= n), z3.And(rank(m, k) >= 0, rank(m, k) <= k, rank(m, k) <= rank(m, n))),
                patterns=[rank(m, k)]))
    # idx is the inverse of rank on True positions
    A(z3.ForAll([k], z3.Implies(z3.And(k >= 0, k < n, z3.Select(m, k)), idx(m, n, rank(m, k)) == k),
                patterns=[z3.Select(m, k)]))
    A(z3.ForAll([j], z3.Implies(z3.And(j >= 0, j < rank(m, n)),
                                z3.And(idx(m, n, j) >= 0, idx(m, n, j) < n, z3.Select(m, idx(m, n, j)),
                                       rank(m, idx(m, n, j)) == j)),
                patterns=[idx(m, n, j)]))
    # monotone
    j2 = z3.Int("j2!rk")
    A(z3.ForAll([j, j2], z3.Implies(z3.And(j >= 0, j < j2, j2 < rank(m, n)), idx(m, n, j) < idx(m, n, j2)),
                patterns=[z3.MultiPattern(idx(m, n, j), idx(m, n, j2))]))


TRUSTED["numpy boolean-mask selection"] = (
    "a[m] lists a[k] for the True positions k of m in increasing order (rank/idx theory: rank(m,k+1)=rank(m,k)+[m[k]], "
    "idx inverse of rank on True positions, idx strictly increasing); result is a fresh array")


def select_mask(i, a, m, node):
    """a[m] for 1-D a and boolean mask m of the same length."""
    n = a.shape[0]
    i.safe("index", to_z3(m.shape[0], Int) == to_z3(n, Int), node)
    rank_axioms(i, m.data, n)
    cnt = rank(m.data, to_z3(n, Int))
    if a.ndim == 1:
        r = define1(i, cnt, a.elem_sort, lambda k: z3.Select(a.data, idx(m.data, to_z3(n, Int), k)), "sel", a.dtype)
        p = z3.Int("p!selb")
        i.ctx.assume(z3.ForAll([p], z3.Implies(z3.And(p >= 0, p < to_z3(n, Int), z3.Select(m.data, p)),
                                               z3.Select(r.data, rank(m.data, p)) == z3.Select(a.data, p)),
                               patterns=[z3.MultiPattern(z3.Select(m.data, p), z3.Select(a.data, p))]))
        return r
    r = new_arr(i, (cnt, a.shape[1]), a.elem_sort, "sel", a.dtype)
    k = z3.Int("k!sel2")
    i.ctx.assume(z3.ForAll([k], z3.Implies(z3.And(k >= 0, k < cnt),
                                           z3.Select(r.data, k) == z3.Select(a.data, idx(m.data, to_z3(n, Int), k))),
                           patterns=[z3.Select(r.data, k)]))
    p = z3.Int("p!selb2")
    i.ctx.assume(z3.ForAll([p], z3.Implies(z3.And(p >= 0, p < to_z3(n, Int), z3.Select(m.data, p)),
                                           z3.Select(r.data, rank(m.data, p)) == z3.Select(a.data, p)),
                           patterns=[z3.MultiPattern(z3.Select(m.data, p), z3.Select(a.data, p))]))
    return r


# ------------------------------------------------------------------ hooks

@hook("len")
def _len(i, v, node):
    if isinstance(v, Arr):
        return v.shape[0]
    return NotImplemented


@hook("snapshot")
def _snap(i, v):
    if isinstance(v, Arr):
        s = Arr(v.shape, v.data, v.dtype, v.fresh)
        return s
    return NotImplemented


@hook("havoc_object")
def _havoc(i, v, name, node):
    if isinstance(v, Arr):
        # contents change; shape is kept (resizing arrays are rebound, not mutated)
        write(i, v, i.ctx.fresh(name, v.data.sort()), node, check=False)
        return True
    return NotImplemented


@hook("fresh_like")
def _fresh_like(i, v, name, node):
    if isinstance(v, Arr):
        shape = tuple(i.ctx.fresh("%s_dim%d" % (name, d), Int) for d in range(v.ndim))
        for s in shape:
            i.ctx.assume(s >= 0)
        r = Arr(shape, i.ctx.fresh(name, v.data.sort()), v.dtype)
        r.origin = v.origin
        r.fresh = v.fresh
        return r
    return NotImplemented


@hook("truth")
def _truth(i, v, node):
    if isinstance(v, Arr):
        raise Unsupported("truth value of an array", node)
    return NotImplemented


def norm_index(i, k, n, node, what="index"):
    """python index normalisation with bounds obligation"""
    n = to_z3(n, Int)
    if isinstance(k, int) and not isinstance(k, bool):
        if k >= 0:
            i.safe(what, n > k, node)
            return z3.IntVal(k)
        i.safe(what, n + k >= 0, node)
        return n + k
    k = to_z3(k, Int)
    i.safe(what, z3.And(k >= -n, k < n), node)
    if not i.ctx.feasible(k < 0):
        return k  # provably non-negative on this path: no wrap-around term needed
    return z3.If(k < 0, k + n, k)


def slice_bounds(sl, n):
    from . import _norm_bound
    n = to_z3(n, Int)
    if sl.step not in (None, 1):
        raise Unsupported("stepped slice")
    lo = z3.IntVal(0) if sl.lo is None else _norm_bound(sl.lo, n)
    hi = n if sl.hi is None else _norm_bound(sl.hi, n)
    return lo, hi


def _strip_ellipsis(ix):
    if isinstance(ix, tuple) and ix and ix[-1] is Ellipsis:
        ix = ix[:-1]
        if len(ix) == 1:
            ix = ix[0]
    return ix


@hook("getitem")
def _getitem(i, a, ix, node):
    if not isinstance(a, Arr):
        return NotImplemented
    from ..engine import SliceV
    check_live(a, node)
    ix = _strip_ellipsis(ix)
    if a.ndim == 1 and isinstance(ix, tuple) and len(ix) == 2 and isinstance(ix[0], SliceV) and ix[1] is None \
            and ix[0].lo is None and ix[0].hi is None:
        return define2(i, a.shape[0], 1, a.elem_sort, lambda r, c: z3.Select(a.data, r), "colvec", a.dtype)
    if a.ndim == 1:
        if isinstance(ix, SliceV):
            lo, hi = slice_bounds(ix, a.shape[0])
            n = z3.If(hi > lo, hi - lo, z3.IntVal(0))
            if ix.lo is None or (isinstance(ix.lo, int) and ix.lo == 0):
                r = Arr((z3.simplify(hi),), a.data, a.dtype, fresh=False)  # prefix view: same contents term, shorter length
            else:
                r = define1(i, n, a.elem_sort, lambda k: z3.Select(a.data, k + lo), "view", a.dtype)
            r.is_view = True
            a.views.append(r)
            return r
        if isinstance(ix, Arr):
            if ix.dtype == "bool":
                return select_mask(i, a, ix, node)
            if ix.dtype == "int":
                return gather(i, a, ix, node)
            raise Unsupported("index array of dtype %s" % ix.dtype, node)
        if isinstance(ix, tuple):
            raise Unsupported("tuple index on 1-D array", node)
        k = norm_index(i, ix, a.shape[0], node)
        return z3.Select(a.data, k)
    # 2-D
    if isinstance(ix, tuple) and len(ix) == 2:
        r, c = ix
        if not isinstance(r, (SliceV, Arr)) and not isinstance(c, (SliceV, Arr)):
            rk = norm_index(i, r, a.shape[0], node)
            ck = norm_index(i, c, a.shape[1], node)
            return z3.Select(z3.Select(a.data, rk), ck)
        if isinstance(r, SliceV) and r.lo is None and r.hi is None and r.step is None and not isinstance(c, (SliceV, Arr)):
            ck = norm_index(i, c, a.shape[1], node)
            out = define1(i, a.shape[0], a.elem_sort, lambda k: z3.Select(z3.Select(a.data, k), ck), "col", a.dtype,
                          alts=[lambda k: z3.Select(z3.Select(a.data, k), ck)])
            out.is_view = True
            a.views.append(out)
            return out
        if isinstance(c, SliceV) and c.lo is None and c.hi is None and c.step is None:
            return _getitem(i, a, r, node)
        raise Unsupported("2-D index pattern", node)
    if isinstance(ix, SliceV):
        lo, hi = slice_bounds(ix, a.shape[0])
        n = z3.If(hi > lo, hi - lo, z3.IntVal(0))
        if ix.lo is None or (isinstance(ix.lo, int) and ix.lo == 0):
            out = Arr((z3.simplify(hi), a.shape[1]), a.data, a.dtype, fresh=False)
        else:
            out = new_arr(i, (n, a.shape[1]), a.elem_sort, "rows", a.dtype)
            k = z3.Int("k!rows")
            i.ctx.assume(z3.ForAll([k], z3.Implies(z3.And(k >= 0, k < n), z3.Select(out.data, k) == z3.Select(a.data, k + lo)),
                                   patterns=[z3.Select(out.data, k)]))
        out.is_view = True
        a.views.append(out)
        return out
    if isinstance(ix, Arr):
        if ix.dtype == "bool":
            return select_mask(i, a, ix, node)
        if ix.dtype == "int":
            return gather(i, a, ix, node)
    if isinstance(ix, tuple):
        raise Unsupported("2-D index pattern", node)
    rk = norm_index(i, ix, a.shape[0], node)
    out = Arr((a.shape[1],), z3.Select(a.data, rk), a.dtype, fresh=False)
    out.is_view = True
    a.views.append(out)
    return out


def gather(i, a, ix, node):
    """a[ix] with an integer index array: fresh copy; negative indices wrap (numpy semantics)."""
    n = to_z3(a.shape[0], Int)
    k = z3.Int("k!g")
    m = to_z3(ix.shape[0], Int)
    e = z3.Select(ix.data, k)
    i.ctx.prove("%s/safe:gather@%s" % (i._cur_label, getattr(node, "lineno", "?")),
                z3.ForAll([k], z3.Implies(z3.And(k >= 0, k < m), z3.And(e >= -n, e < n))), node, "safe")
    wrap = lambda t: z3.If(t < 0, t + n, t)  # noqa
    if a.ndim == 1:
        return define1(i, m, a.elem_sort, lambda kk: z3.Select(a.data, wrap(z3.Select(ix.data, kk))), "gather", a.dtype)
    out = new_arr(i, (m, a.shape[1]), a.elem_sort, "gather", a.dtype)
    i.ctx.assume(z3.ForAll([k], z3.Implies(z3.And(k >= 0, k < m), z3.Select(out.data, k) == z3.Select(a.data, wrap(e))),
                           patterns=[z3.Select(out.data, k)]))
    return out


TRUSTED["numpy integer-array indexing"] = "a[ix] gathers a[ix[k]] (negative indices wrap modulo len) into a fresh array; IndexError if out of range"
TRUSTED["numpy basic slicing"] = "a[lo:hi] lists a[lo..hi) (Python bound normalisation); modelled as a read-only snapshot that becomes unusable once the base is written"


@hook("setitem")
def _setitem(i, a, ix, val, node):
    if not isinstance(a, Arr):
        return NotImplemented
    from ..engine import SliceV
    ix = _strip_ellipsis(ix)
    if a.ndim == 2 and isinstance(ix, Arr) and ix.dtype == "bool" and not isinstance(val, Arr):
        # rows selected by a mask set to a scalar
        n = to_z3(a.shape[0], Int)
        i.safe("index", to_z3(ix.shape[0], Int) == n, node)
        k, c = z3.Int("k!mr"), z3.Int("c!mr")
        new = i.ctx.fresh("upd", a.data.sort())
        old = a.data
        v = to_z3(val, a.elem_sort)
        i.ctx.assume(z3.ForAll([k, c], z3.Implies(z3.And(k >= 0, k < n, c >= 0, c < to_z3(a.shape[1], Int)),
                                                  z3.Select(z3.Select(new, k), c) == z3.If(z3.Select(ix.data, k), v, z3.Select(z3.Select(old, k), c))),
                               patterns=[z3.Select(z3.Select(new, k), c)]))
        write(i, a, new, node)
        return True
    if a.ndim == 1 and isinstance(ix, tuple) and len(ix) == 2 and isinstance(ix[0], SliceV) and ix[1] is None \
            and ix[0].lo is None and ix[0].hi is None:
        return define2(i, a.shape[0], 1, a.elem_sort, lambda r, c: z3.Select(a.data, r), "colvec", a.dtype)
    if a.ndim == 1:
        if isinstance(ix, SliceV):
            lo, hi = slice_bounds(ix, a.shape[0])
            n = z3.If(hi > lo, hi - lo, z3.IntVal(0))
            k = z3.Int("k!ss")
            new = i.ctx.fresh("upd", a.data.sort())
            if isinstance(val, Arr):
                i.safe("broadcast", to_z3(val.shape[0], Int) == n, node)
                rhs = lambda kk: z3.Select(val.data, kk - lo)  # noqa
            else:
                v = to_z3(val, a.elem_sort)
                rhs = lambda kk: v  # noqa
            old = a.data
            i.ctx.assume(z3.ForAll([k], z3.Select(new, k) == z3.If(z3.And(k >= lo, k < hi), rhs(k), z3.Select(old, k)),
                                   patterns=[z3.Select(new, k)]))
            write(i, a, new, node)
            return True
        if isinstance(ix, Arr) and ix.dtype == "bool":
            return mask_assign(i, a, ix, val, node)
        if isinstance(ix, Arr) and ix.dtype == "int":
            return scatter(i, a, ix, val, node)
        k = norm_index(i, ix, a.shape[0], node)
        write(i, a, z3.Store(a.data, k, to_z3(val, a.elem_sort)), node)
        return True
    if (isinstance(ix, tuple) and len(ix) == 2 and not isinstance(ix[0], (SliceV, Arr)) and isinstance(ix[1], SliceV)
            and ix[1].lo is None and ix[1].hi is None and ix[1].step is None):
        # a[r, :] = row
        rk = norm_index(i, ix[0], a.shape[0], node)
        if isinstance(val, Arr) and val.ndim == 1:
            i.safe("broadcast", to_z3(val.shape[0], Int) == to_z3(a.shape[1], Int), node)
            write(i, a, z3.Store(a.data, rk, val.data), node)
            return True
        raise Unsupported("row assignment of a non-1-D value", node)
    if isinstance(ix, tuple) and len(ix) == 2 and not any(isinstance(x, (SliceV, Arr)) for x in ix):
        rk = norm_index(i, ix[0], a.shape[0], node)
        ck = norm_index(i, ix[1], a.shape[1], node)
        write(i, a, z3.Store(a.data, rk, z3.Store(z3.Select(a.data, rk), ck, to_z3(val, a.elem_sort))), node)
        return True
    raise Unsupported("array store pattern", node)


def mask_assign(i, a, m, val, node):
    """a[m] = val  (scalar, or array of length count(m) assigned in order)"""
    n = to_z3(a.shape[0], Int)
    i.safe("index", to_z3(m.shape[0], Int) == n, node)
    k = z3.Int("k!ma")
    new = i.ctx.fresh("upd", a.data.sort())
    old = a.data
    if isinstance(val, Arr):
        rank_axioms(i, m.data, n)
        i.safe("broadcast", to_z3(val.shape[0], Int) == rank(m.data, n), node)
        rhs = lambda kk: z3.Select(val.data, rank(m.data, kk))  # noqa
    else:
        v = to_z3(val, a.elem_sort)
        rhs = lambda kk: v  # noqa
    i.ctx.assume(z3.ForAll([k], z3.Implies(z3.And(k >= 0, k < n),
                                           z3.Select(new, k) == z3.If(z3.Select(m.data, k), rhs(k), z3.Select(old, k))),
                           patterns=[z3.Select(new, k)]))
    write(i, a, new, node)
    return True


def scatter(i, a, ix, val, node):
    """a[ix] = val with an integer index array (indices must be pairwise distinct for a deterministic result when
    val is an array; obligation emitted)."""
    n = to_z3(a.shape[0], Int)
    m = to_z3(ix.shape[0], Int)
    k, k2, p = z3.Int("k!sc"), z3.Int("k2!sc"), z3.Int("p!sc")
    e = lambda t: z3.Select(ix.data, t)  # noqa
    i.ctx.prove("%s/safe:scatter@%s" % (i._cur_label, getattr(node, "lineno", "?")),
                z3.ForAll([k], z3.Implies(z3.And(k >= 0, k < m), z3.And(e(k) >= 0, e(k) < n))), node, "safe")
    new = i.ctx.fresh("upd", a.data.sort())
    old = a.data
    A = i.ctx.assume
    if isinstance(val, Arr):
        i.safe("broadcast", to_z3(val.shape[0], Int) == m, node)
        i.ctx.prove("%s/safe:scatter_distinct@%s" % (i._cur_label, getattr(node, "lineno", "?")),
                    z3.ForAll([k, k2], z3.Implies(z3.And(k >= 0, k < k2, k2 < m), e(k) != e(k2))), node, "safe")
        A(z3.ForAll([k], z3.Implies(z3.And(k >= 0, k < m), z3.Select(new, e(k)) == z3.Select(val.data, k)),
                    patterns=[e(k)]))
    else:
        v = to_z3(val, a.elem_sort)
        A(z3.ForAll([k], z3.Implies(z3.And(k >= 0, k < m), z3.Select(new, e(k)) == v), patterns=[e(k)]))
    hit = z3.Function("hit!%d" % Arr._n, Int, Int)  # skolem witness: which k writes position p
    Arr._n += 1
    A(z3.ForAll([p], z3.Or(z3.Select(new, p) == z3.Select(old, p),
                           z3.And(hit(p) >= 0, hit(p) < m, e(hit(p)) == p)), patterns=[z3.Select(new, p)]))
    write(i, a, new, node)
    return True


TRUSTED["numpy in-place assignment"] = ("a[k]=v, a[lo:hi]=b, a[mask]=v|b, a[ix]=v|b update exactly the addressed positions "
                                        "(mask: k-th True position gets b[k]; ix: distinct indices) and leave all others unchanged")


@hook("getattr")
def _getattr(i, a, name, node, fr):
    if not isinstance(a, Arr):
        return NotImplemented
    if name == "shape":
        return tuple(a.shape)
    if name == "size":
        if a.ndim == 1:
            return a.shape[0]
        return to_z3(a.shape[0], Int) * to_z3(a.shape[1], Int)
    if name == "ndim":
        return a.ndim
    if name == "dtype":
        return DTypeV(a.elem_sort)
    if name == "T":
        if a.ndim == 1:
            return a
        return define2(i, a.shape[1], a.shape[0], a.elem_sort, lambda r, c: a.at(c, r), "T", a.dtype)
    f = FUNCS.get("numpy.ndarray." + name)
    if f is not None:
        return BoundMethod(a, lambda interp, s, args, kw, n, f2, _f=f: _f(interp, [s] + list(args), kw, n, f2))
    raise Unsupported("ndarray attribute %s" % name, node)


@hook("sym_iter")
def _iter(i, v, node):
    if isinstance(v, Arr):
        check_live(v, node)
        if v.ndim == 1:
            return to_z3(v.shape[0], Int), (lambda k: z3.Select(v.data, k))

        def row(k):
            r = Arr((v.shape[1],), z3.Select(v.data, k), v.dtype, fresh=False)
            r.is_view = True
            return r
        return to_z3(v.shape[0], Int), row
    return NotImplemented


@hook("contains")
def _contains(i, c, x, node):
    """x in zip(a, b) / x in a  -> existential over positions"""
    if isinstance(c, ZipV) and all(isinstance(p, Arr) and p.ndim == 1 for p in c.parts) and isinstance(x, tuple):
        k = z3.Int("k!in")
        n = to_z3(c.parts[0].shape[0], Int)
        for p in c.parts[1:]:
            pn = to_z3(p.shape[0], Int)
            n = z3.If(pn < n, pn, n)
        conj = [z3.Select(p.data, k) == to_z3(xx, p.elem_sort) for p, xx in zip(c.parts, x)]
        return z3.Exists([k], z3.And(k >= 0, k < n, *conj))
    if isinstance(c, Arr) and c.ndim == 1:
        k = z3.Int("k!in")
        return z3.Exists([k], z3.And(k >= 0, k < to_z3(c.shape[0], Int), z3.Select(c.data, k) == to_z3(x, c.elem_sort)))
    return NotImplemented


TRUSTED["x in zip(a,b) / x in a (arrays)"] = "membership = some position holds an equal element (tuple-wise for zip)"


# ------------------------------------------------------------------ types for contracts
from ..spec import Type  # noqa


class TArr(Type):
    """numpy array with symbolic shape. elem: z3 sort. length: optional callable(ctx)->term to tie the length."""

    def __init__(self, elem, ndim=1, dtype=None, dims=None):
        self.elem, self.ndim, self.dtype = elem, ndim, dtype
        self.dims = dims  # optional tuple of fixed dims (None = symbolic)

    def fresh(self, ctx, name):
        shape = tuple((self.dims[d] if self.dims and self.dims[d] is not None else ctx.fresh("%s_dim%d" % (name, d), Int))
                      for d in range(self.ndim))
        for s in shape:
            if is_z3(s):
                ctx.assume(s >= 0)
        a = Arr(shape, ctx.fresh(name, arr_sort(self.elem, self.ndim)), self.dtype or dtype_of_sort(self.elem), fresh=False)
        a.origin = ctx.ghost.get("_origin", "unknown")
        return a
