"""numpy construction / pointwise / reduction models."""
import ast
import z3
from ..values import *  # noqa
from . import model, hook, TRUSTED, FUNCS, VALUES
from .arrays import (Arr, define1, define2, new_arr, dtype_arg, const_of, SORT_OF, FLOAT_AS, rank, idx, rank_axioms,
                     check_live, DTypeV, norm_index, BoolArr)

for _n in ("int", "int64", "int32", "float", "float64", "float32", "bool_", "str_", "double"):
    VALUES["numpy." + _n] = Builtin(_n.rstrip("_") if _n.endswith("_") else _n)


def _shape_arg(i, s, node):
    if isinstance(s, tuple):
        return s
    if isinstance(s, PyList):
        return tuple(s.items)
    return (s,)


def _fill(i, args, kw, node, value):
    shape = _shape_arg(i, args[0], node)
    elem = dtype_arg(i, kw.get("dtype", args[1] if len(args) > 1 else None), node)
    c = const_of(elem, value)
    if len(shape) == 1:
        return define1(i, shape[0], elem, lambda k: c, "zeros" if value == 0 else "ones")
    if len(shape) == 2:
        return define2(i, shape[0], shape[1], elem, lambda r, cc: c, "zeros" if value == 0 else "ones")
    raise Unsupported("array of rank %d" % len(shape), node)


@model("numpy.zeros", "zeros(shape, dtype): every element 0 / False")
def _zeros(i, args, kw, node, fr):
    return _fill(i, args, kw, node, 0)


@model("numpy.ones", "ones(shape, dtype): every element 1 / True")
def _ones(i, args, kw, node, fr):
    return _fill(i, args, kw, node, 1)


@model("numpy.zeros_like", "zeros_like(a): same shape, all 0")
def _zeros_like(i, args, kw, node, fr):
    a = args[0]
    elem = dtype_arg(i, kw.get("dtype"), node) if kw.get("dtype") is not None else a.elem_sort
    c = const_of(elem, 0)
    if a.ndim == 1:
        return define1(i, a.shape[0], elem, lambda k: c, "zeros")
    return define2(i, a.shape[0], a.shape[1], elem, lambda r, cc: c, "zeros")


@model("numpy.ones_like", "ones_like(a): same shape, all 1")
def _ones_like(i, args, kw, node, fr):
    a = args[0]
    elem = dtype_arg(i, kw.get("dtype"), node) if kw.get("dtype") is not None else a.elem_sort
    c = const_of(elem, 1)
    if a.ndim == 1:
        return define1(i, a.shape[0], elem, lambda k: c, "ones")
    return define2(i, a.shape[0], a.shape[1], elem, lambda r, cc: c, "ones")


@model("numpy.arange", "arange(n): 0..n-1")
def _arange(i, args, kw, node, fr):
    if len(args) != 1:
        raise Unsupported("arange with start/step", node)
    return define1(i, args[0], Int, lambda k: k, "arange")


@model("numpy.array", "array(list): elements in order; array(arr): copy")
def _array(i, args, kw, node, fr):
    v = args[0]
    if isinstance(v, Arr):
        return copy_arr(i, v)
    if isinstance(v, (PyList, tuple)):
        items = v.items if isinstance(v, PyList) else list(v)
        if items and all(isinstance(x, (PyList, tuple)) for x in items):
            raise Unsupported("np.array of nested lists", node)
        if kw.get("dtype") is not None:
            elem = dtype_arg(i, kw["dtype"], node)
        elif not items:
            elem = SORT_OF[FLOAT_AS[0]]
        else:
            x = items[0]
            elem = x.sort() if is_z3(x) else (Bool if isinstance(x, bool) else Int if isinstance(x, int) else
                                              SORT_OF[FLOAT_AS[0]] if isinstance(x, float) else Str)
        a = new_arr(i, (len(items),), elem, "lit")
        d = a.data
        for k, x in enumerate(items):
            if isinstance(x, str):
                from .strings import str_const
                x = str_const(x)
            d = z3.Store(d, k, to_z3(x, elem))
        a.data = d
        return a
    if isinstance(v, SymList):
        seq = v.seq
        if isinstance(seq.cols, tuple):
            raise Unsupported("np.array of a list of tuples", node)
        return Arr((seq.length,), seq.cols, _dt(seq.cols.sort().range()))
    raise Unsupported("np.array(%r)" % (v,), node)


def _dt(sort):
    from .arrays import dtype_of_sort
    return dtype_of_sort(sort)


def copy_arr(i, a):
    check_live(a, None)
    return Arr(a.shape, a.data, a.dtype, fresh=True)


@model("numpy.copy", "copy(a): fresh array with equal contents")
def _copy(i, args, kw, node, fr):
    return copy_arr(i, args[0])


FUNCS["numpy.ndarray.copy"] = _copy
TRUSTED["numpy.ndarray.copy"] = "a.copy(): fresh array with equal contents"


@model("numpy.ndarray.astype", "astype: same values reinterpreted (int<->float embedding, to str opaque)")
def _astype(i, args, kw, node, fr):
    a = args[0]
    dt = args[1] if len(args) > 1 else kw.get("dtype")
    dname = dt.name if isinstance(dt, Builtin) else (dt.dotted.rsplit(".", 1)[-1] if isinstance(dt, ModuleRef) else str(dt))
    if a.elem_sort == Str and not (isinstance(dt, Builtin) and dt.name in ("str", "str_")):
        raise Unsupported("astype of a string array to a width-specific dtype (may truncate; only astype(str) is modelled)", node)
    if a.elem_sort == Val and dname == "float32":
        return pointwise_val(i, a, "float32", node)
    elem = dtype_arg(i, dt, node)
    if elem == a.elem_sort:
        return copy_arr(i, a)
    if a.elem_sort == Val and elem == SORT_OF[FLOAT_AS[0]]:
        return copy_arr(i, a)
    if a.elem_sort == Int and elem == Real:
        return define1(i, a.shape[0], Real, lambda k: z3.ToReal(z3.Select(a.data, k)), "astype")
    if a.elem_sort == Bool and elem == Int:
        return define1(i, a.shape[0], Int, lambda k: z3.If(z3.Select(a.data, k), 1, 0), "astype")
    raise Unsupported("astype %s -> %s" % (a.elem_sort, elem), node)


@model("numpy.concatenate", "concatenate((a,b,..)): a followed by b ... (1-D, or row-wise for 2-D axis=0)")
def _concatenate(i, args, kw, node, fr):
    parts = i.concrete_items(args[0], node)
    if kw.get("axis", 0) not in (0, None):
        raise Unsupported("concatenate axis != 0", node)
    parts = [(_array(i, [p], {}, node, fr) if isinstance(p, (PyList, tuple)) else p) for p in parts]
    if not parts or not all(isinstance(p, Arr) for p in parts):
        raise Unsupported("concatenate of non-arrays", node)
    for p in parts:
        check_live(p, node)
    r = parts[0]
    for p in parts[1:]:
        r = _cat2(i, r, p, node)
    if len(parts) == 1:
        r = copy_arr(i, r)
    return r


def _cat2(i, a, b, node):
    if a.ndim != b.ndim or a.elem_sort != b.elem_sort:
        raise Unsupported("concatenate of arrays with different rank/dtype", node)
    na, nb = to_z3(a.shape[0], Int), to_z3(b.shape[0], Int)
    if a.ndim == 1:
        r = define1(i, na + nb, a.elem_sort, lambda k: z3.If(k < na, z3.Select(a.data, k), z3.Select(b.data, k - na)), "cat", a.dtype)
        k = z3.Int("k!catb")
        i.ctx.assume(z3.ForAll([k], z3.Implies(z3.And(k >= 0, k < na), z3.Select(r.data, k) == z3.Select(a.data, k)), patterns=[z3.Select(a.data, k)]))
        i.ctx.assume(z3.ForAll([k], z3.Implies(z3.And(k >= 0, k < nb), z3.Select(r.data, k + na) == z3.Select(b.data, k)), patterns=[z3.Select(b.data, k)]))
        return r
    out = new_arr(i, (na + nb, a.shape[1]), a.elem_sort, "cat", a.dtype)
    i.safe("shape", to_z3(a.shape[1], Int) == to_z3(b.shape[1], Int), node)
    k = z3.Int("k!cat2")
    i.ctx.assume(z3.ForAll([k], z3.Implies(z3.And(k >= 0, k < na + nb),
                                           z3.Select(out.data, k) == z3.If(k < na, z3.Select(a.data, k), z3.Select(b.data, k - na))),
                           patterns=[z3.Select(out.data, k)]))
    return out


# ------------------------------------------------------------------ pointwise operators

def _tid(x):
    if isinstance(x, Arr):
        return ("arr", x.data.get_id(), tuple(s.get_id() if is_z3(s) else s for s in x.shape))
    if is_z3(x):
        return ("t", x.get_id())
    return ("c", repr(x))


def _cached(i, key, build):
    """same pointwise expression over the same operand contents -> the same contents term (fresh array object)"""
    cache = i.ctx.ghost.setdefault("_pw_cache", {})
    if key in cache:
        c = cache[key]
        return Arr(c.shape, c.data, c.dtype, fresh=True)
    r = build()
    cache[key] = Arr(r.shape, r.data, r.dtype, fresh=True)
    return r


def _lift2(i, a, b, f, elem, node, name="pw", opkey=None):
    if opkey is not None:
        return _cached(i, (opkey, _tid(a), _tid(b)), lambda: _lift2(i, a, b, f, elem, node, name))
    return _lift2_(i, a, b, f, elem, node, name)


def _lift2_(i, a, b, f, elem, node, name="pw"):
    """pointwise binary op with scalar broadcasting"""
    A = a if isinstance(a, Arr) else None
    B = b if isinstance(b, Arr) else None
    for x in (A, B):
        if x is not None:
            check_live(x, node)
    ref = A or B
    bc = {}
    if A is not None and B is not None:
        if A.ndim != B.ndim:
            raise Unsupported("broadcasting between arrays of different rank", node)
        for d in range(A.ndim):
            if isinstance(B.shape[d], int) and B.shape[d] == 1 and not (isinstance(A.shape[d], int) and A.shape[d] == 1):
                bc[("B", d)] = True
                continue
            if isinstance(A.shape[d], int) and A.shape[d] == 1:
                bc[("A", d)] = True
                ref = B
                continue
            i.safe("broadcast", to_z3(A.shape[d], Int) == to_z3(B.shape[d], Int), node)
    if ref.ndim == 1:
        ga = (lambda k: z3.Select(A.data, k)) if A is not None else (lambda k: a)
        gb = (lambda k: z3.Select(B.data, k)) if B is not None else (lambda k: b)
        alts = [g for g, X in ((ga, A), (gb, B)) if X is not None]
        return define1(i, ref.shape[0], elem, lambda k: f(ga(k), gb(k)), name, alts=alts)
    def acc(X, tag, x):
        if X is None:
            return lambda r, c: x
        return lambda r, c: X.at(0 if bc.get((tag, 0)) else r, 0 if bc.get((tag, 1)) else c)
    ga, gb = acc(A, "A", a), acc(B, "B", b)
    shape0 = (A if bc.get(("B", 0)) or A is not None and not bc.get(("A", 0)) else B).shape[0] if (A is not None and B is not None) else ref.shape[0]
    shape1 = (A if bc.get(("B", 1)) or A is not None and not bc.get(("A", 1)) else B).shape[1] if (A is not None and B is not None) else ref.shape[1]
    return define2(i, shape0, shape1, elem, lambda r, c: f(ga(r, c), gb(r, c)), name)


def _num(x, y):
    """coerce scalars for arithmetic: returns sort"""
    sx = x.sort() if is_z3(x) else None
    return sx


def _list_as_arr(x):
    """a python list of floats/ints meeting an array in arithmetic is converted by numpy: same elements, same order"""
    if isinstance(x, SymList) and x.elem_wrap is None and not isinstance(x.seq.cols, tuple) and x.seq.cols.sort().range() in (Real, Int):
        return Arr((x.seq.length,), x.seq.cols, "float" if x.seq.cols.sort().range() == Real else "int")
    return x


@hook("binop")
def _binop(i, op, a, b, node):
    if not isinstance(a, Arr) and not isinstance(b, Arr):
        return NotImplemented
    a, b = _list_as_arr(a), _list_as_arr(b)
    ea = a.elem_sort if isinstance(a, Arr) else (a.sort() if is_z3(a) else (Bool if isinstance(a, bool) else Int if isinstance(a, int) else Real))
    eb = b.elem_sort if isinstance(b, Arr) else (b.sort() if is_z3(b) else (Bool if isinstance(b, bool) else Int if isinstance(b, int) else Real))
    if isinstance(op, (ast.BitAnd, ast.BitOr, ast.BitXor)):
        if ea == Bool and eb == Bool:
            f = {ast.BitAnd: z3.And, ast.BitOr: z3.Or, ast.BitXor: z3.Xor}[type(op)]
            return _lift2(i, a, b, lambda x, y: f(to_z3(x, Bool), to_z3(y, Bool)), Bool, node, "mask", opkey=type(op).__name__)
        raise Unsupported("bitwise op on non-bool arrays", node)
    if ea in (Str, Val) or eb in (Str, Val):
        raise Unsupported("arithmetic on opaque (Str/Val) arrays", node)
    res = Real if (Real in (ea, eb) or isinstance(op, ast.Div)) else Int
    cv = lambda x: to_z3(x, res)  # noqa
    if isinstance(op, ast.Add):
        return _lift2(i, a, b, lambda x, y: cv(x) + cv(y), res, node, opkey="Add")
    if isinstance(op, ast.Sub):
        return _lift2(i, a, b, lambda x, y: cv(x) - cv(y), res, node, opkey="Sub")
    if isinstance(op, ast.Mult):
        return _lift2(i, a, b, lambda x, y: cv(x) * cv(y), res, node, opkey="Mult")
    if isinstance(op, ast.Div):
        return _lift2(i, a, b, lambda x, y: cv(x) / cv(y), res, node, opkey="Div")
    if isinstance(op, ast.Pow) and isinstance(b, int) and b == 2:
        if res == Real:
            from .np_real import sq, install_sums, sq_axioms
            install_sums(i)
            if not i.ctx.ghost.get("_sq_axioms"):
                i.ctx.ghost["_sq_axioms"] = True
                for ax_ in sq_axioms():
                    i.ctx.assume(ax_)
            r_ = _lift2(i, a, b, lambda x, y: sq(cv(x)), res, node, opkey="Sq")
            i.ctx.ghost["last_sq_array"] = r_  # ghost handle for contracts (sum of squares is non-negative)
            return r_
        return _lift2(i, a, b, lambda x, y: cv(x) * cv(x), res, node)
    raise Unsupported("array operator %s" % type(op).__name__, node)


@hook("unaryop")
def _unary(i, op, v, node):
    if not isinstance(v, Arr):
        return NotImplemented
    check_live(v, node)
    if isinstance(op, ast.Invert) and v.elem_sort == Bool:
        if v.ndim == 1:
            r_ = _cached(i, ("inv", _tid(v)), lambda: define1(i, v.shape[0], Bool, lambda k: z3.Not(z3.Select(v.data, k)), "inv",
                                                              alts=[lambda k: z3.Select(v.data, k)]))
            i.ctx.ghost["last_not_array"] = r_  # ghost handle for contracts (complement counting lemmas)
            return r_
        return _cached(i, ("inv", _tid(v)), lambda: define2(i, v.shape[0], v.shape[1], Bool, lambda r, c: z3.Not(v.at(r, c)), "inv"))
    if isinstance(op, ast.USub) and v.elem_sort in (Int, Real):
        if v.ndim == 1:
            return define1(i, v.shape[0], v.elem_sort, lambda k: -z3.Select(v.data, k), "neg")
        return define2(i, v.shape[0], v.shape[1], v.elem_sort, lambda r, c: -v.at(r, c), "neg")
    raise Unsupported("unary op on array", node)


@hook("compare")
def _compare(i, op, a, b, node):
    if not isinstance(a, Arr) and not isinstance(b, Arr):
        return NotImplemented
    if isinstance(op, (ast.Is, ast.IsNot)):
        r = a is b
        return (not r) if isinstance(op, ast.IsNot) else r
    if isinstance(op, (ast.In, ast.NotIn)):
        return NotImplemented
    ref = a if isinstance(a, Arr) else b
    es = ref.elem_sort

    def cv(x):
        if isinstance(x, str):
            from .strings import str_const
            return str_const(x)
        if is_z3(x) and x.sort() == es:
            return x
        if es == Val and isinstance(x, (int, float)) and not isinstance(x, bool):
            from .arrays import const_of
            return const_of(Val, x)
        if es in (Str, Val):
            return x
        other = (b if ref is a else a)
        tgt = Real if (es == Real or (isinstance(other, Arr) and other.elem_sort == Real) or isinstance(x, float) or (is_z3(x) and x.sort() == Real)) else es
        return to_z3(x, tgt)
    if isinstance(op, ast.Eq):
        f = lambda x, y: cv(x) == cv(y)  # noqa
    elif isinstance(op, ast.NotEq):
        f = lambda x, y: cv(x) != cv(y)  # noqa
    elif es == Val and not isinstance(a if ref is b else b, Arr) and isinstance((a if ref is b else b), (int, float)):
        # float payloads compared with a numeric constant: an abstract predicate per (operator, constant);
        # IEEE semantics kept: every ordered comparison with NaN is False
        const = a if ref is b else b
        opn = type(op).__name__ if ref is a else {"Lt": "Gt", "LtE": "GtE", "Gt": "Lt", "GtE": "LtE"}[type(op).__name__]
        pred = val_cmp(opn, const)
        x_ = z3.Const("x!vc", Val)
        from .arrays import isnan as _isn
        i.ctx.assume(z3.ForAll([x_], z3.Implies(_isn(x_), z3.Not(pred(x_))), patterns=[pred(x_)]))
        if ref.ndim == 1:
            return define1(i, ref.shape[0], Bool, lambda k: pred(z3.Select(ref.data, k)), "cmp", alts=[lambda k: z3.Select(ref.data, k)])
        return define2(i, ref.shape[0], ref.shape[1], Bool, lambda r, c: pred(ref.at(r, c)), "cmp")
    else:
        if es in (Str, Val, Bool):
            raise Unsupported("ordering comparison on %s arrays" % es, node)
        f = {ast.Lt: lambda x, y: cv(x) < cv(y), ast.LtE: lambda x, y: cv(x) <= cv(y),
             ast.Gt: lambda x, y: cv(x) > cv(y), ast.GtE: lambda x, y: cv(x) >= cv(y)}[type(op)]
    return _lift2(i, a, b, f, Bool, node, "cmp", opkey="cmp" + type(op).__name__)


_VAL_CMP = {}


def val_cmp(opn, const):
    key = (opn, float(const))
    if key not in _VAL_CMP:
        _VAL_CMP[key] = z3.Function("val_%s_%s" % (opn, str(float(const)).replace(".", "p").replace("-", "m")), Val, Bool)
    return _VAL_CMP[key]


_VAL_FN = {}


def val_fn(name):
    """an opaque pointwise float function (float32 rounding, clip, logit, ...); NaN propagates"""
    if name not in _VAL_FN:
        _VAL_FN[name] = z3.Function(name, Val, Val)
    return _VAL_FN[name]


def pointwise_val(i, a, name, node):
    from .arrays import isnan as _isn
    f = val_fn(name)
    x_ = z3.Const("x!vf", Val)
    i.ctx.assume(z3.ForAll([x_], z3.Implies(_isn(x_), _isn(f(x_))), patterns=[f(x_)]))
    if isinstance(a, Arr):
        check_live(a, node)
        if a.elem_sort != Val:
            raise Unsupported("opaque float function %s on %s array" % (name, a.elem_sort), node)
        if a.ndim == 1:
            return define1(i, a.shape[0], Val, lambda k: f(z3.Select(a.data, k)), name + "_arr", "val", alts=[lambda k: z3.Select(a.data, k)])
        return define2(i, a.shape[0], a.shape[1], Val, lambda r, c: f(a.at(r, c)), name + "_arr", "val")
    return f(a)


@model("numpy.clip", "clip(a, lo, hi) pointwise; on float payloads an opaque function per (lo, hi) through which NaN propagates")
def _clip(i, args, kw, node, fr):
    a = args[0]
    lo = kw.get("a_min", args[1] if len(args) > 1 else None)
    hi = kw.get("a_max", args[2] if len(args) > 2 else None)
    if isinstance(a, Arr) and a.elem_sort == Val or (is_z3(a) and a.sort() == Val):
        if not all(isinstance(x, (int, float, type(None))) for x in (lo, hi)):
            raise Unsupported("clip of float payloads with symbolic bounds", node)
        return pointwise_val(i, a, "clip_%s_%s" % (str(lo).replace(".", "p").replace("-", "m"), str(hi).replace(".", "p").replace("-", "m")), node)
    es = a.elem_sort if isinstance(a, Arr) else (a.sort() if is_z3(a) else Real)
    lo_, hi_ = (to_z3(lo, es) if lo is not None else None), (to_z3(hi, es) if hi is not None else None)

    def f(x):
        if lo_ is not None:
            x = z3.If(x < lo_, lo_, x)
        if hi_ is not None:
            x = z3.If(x > hi_, hi_, x)
        return x
    if isinstance(a, Arr):
        if a.ndim == 1:
            return define1(i, a.shape[0], es, lambda k: f(z3.Select(a.data, k)), "clip", alts=[lambda k: z3.Select(a.data, k)])
        return define2(i, a.shape[0], a.shape[1], es, lambda r, c: f(a.at(r, c)), "clip")
    return f(to_z3(a, es))


@model("scipy.special.logit", "logit pointwise: opaque on float payloads (NaN propagates); log(p/(1-p)) not interpreted")
def _logit(i, args, kw, node, fr):
    a = args[0]
    if (isinstance(a, Arr) and a.elem_sort == Val) or (is_z3(a) and a.sort() == Val):
        return pointwise_val(i, a, "logit", node)
    raise Unsupported("logit over reals", node)


@hook("inplace")
def _inplace(i, op, cur, rhs_thunk, node):
    """a += b etc. on arrays mutate in place"""
    if not isinstance(cur, Arr):
        return NotImplemented
    from .arrays import write
    rhs = rhs_thunk()
    tmp = _binop(i, op, cur, rhs, node)
    if tmp.elem_sort != cur.elem_sort:
        raise Unsupported("in-place op changing dtype", node)
    write(i, cur, tmp.data, node)
    return True


@hook("identical")
def _ident(i, a, b, node):
    if isinstance(a, Arr) or isinstance(b, Arr):
        return a is b
    return NotImplemented


# ------------------------------------------------------------------ reductions on bool / int

@model("numpy.ndarray.all", "a.all(): every element True")
def _all(i, args, kw, node, fr):
    a = args[0]
    check_live(a, node)
    if kw.get("axis") is not None or len(args) > 1:
        raise Unsupported("all(axis=..)", node)
    k, c = z3.Int("k!all"), z3.Int("c!all")
    if a.ndim == 1:
        return z3.ForAll([k], z3.Implies(z3.And(k >= 0, k < to_z3(a.shape[0], Int)), _tb(z3.Select(a.data, k))))
    return z3.ForAll([k, c], z3.Implies(z3.And(k >= 0, k < to_z3(a.shape[0], Int), c >= 0, c < to_z3(a.shape[1], Int)), _tb(a.at(k, c))))


@model("numpy.ndarray.any", "a.any(): some element True")
def _any(i, args, kw, node, fr):
    a = args[0]
    check_live(a, node)
    if kw.get("axis") is not None or len(args) > 1:
        raise Unsupported("any(axis=..)", node)
    k, c = z3.Int("k!any"), z3.Int("c!any")
    if a.ndim == 1:
        return z3.Exists([k], z3.And(k >= 0, k < to_z3(a.shape[0], Int), _tb(z3.Select(a.data, k))))
    return z3.Exists([k, c], z3.And(k >= 0, k < to_z3(a.shape[0], Int), c >= 0, c < to_z3(a.shape[1], Int), _tb(a.at(k, c))))


def _tb(x):
    if x.sort() == Bool:
        return x
    return x != 0


FUNCS["numpy.all"] = _all
FUNCS["numpy.any"] = _any
TRUSTED["numpy.all"] = "np.all(a): every element truthy"
TRUSTED["numpy.any"] = "np.any(a): some element truthy"


@model("numpy.ndarray.sum", "sum of a bool array = number of True (rank); numeric: spec function sum_")
def _sum(i, args, kw, node, fr):
    a = args[0]
    check_live(a, node)
    if a.ndim == 1 and a.elem_sort == Bool and not kw:
        rank_axioms(i, a.data, a.shape[0])
        return rank(a.data, to_z3(a.shape[0], Int))
    raise Unsupported("sum of %s array" % a.elem_sort, node)


FUNCS["numpy.sum"] = _sum
TRUSTED["numpy.sum"] = "np.sum(bool array) = number of True entries"
FUNCS["numpy.count_nonzero"] = _sum
TRUSTED["numpy.count_nonzero"] = "count of True entries"


@model("numpy.where", "where(m)[0]: increasing positions of True; where(c,x,y): pointwise choice")
def _where(i, args, kw, node, fr):
    if len(args) == 1:
        m = args[0]
        check_live(m, node)
        if m.ndim != 1 or m.elem_sort != Bool:
            raise Unsupported("np.where on non 1-D bool", node)
        n = to_z3(m.shape[0], Int)
        rank_axioms(i, m.data, n)
        r = define1(i, rank(m.data, n), Int, lambda k: idx(m.data, n, k), "where")
        return (r,)
    c, x, y = args
    elem = x.elem_sort if isinstance(x, Arr) else (y.elem_sort if isinstance(y, Arr) else (Real if isinstance(x, float) or isinstance(y, float) else Int))
    def sc(v):
        if elem == Val and isinstance(v, (int, float)):
            from .arrays import const_of
            return const_of(Val, v)
        return to_z3(v, elem)
    gx = (lambda k: z3.Select(x.data, k)) if isinstance(x, Arr) else (lambda k: sc(x))
    gy = (lambda k: z3.Select(y.data, k)) if isinstance(y, Arr) else (lambda k: sc(y))
    if c.ndim != 1:
        raise Unsupported("3-arg where on 2-D", node)
    return define1(i, c.shape[0], elem, lambda k: z3.If(z3.Select(c.data, k), gx(k), gy(k)), "where3")


@model("numpy.isin", "isin(a, vals)[k] <=> a[k] occurs in vals")
def _isin(i, args, kw, node, fr):
    a, vals = args[0], args[1]
    check_live(a, node)
    if isinstance(vals, Arr):
        check_live(vals, node)
    if isinstance(a, Arr) and a.ndim == 2:
        flat = FUNCS["numpy.ndarray.flatten"](i, [a], {}, node, fr)
        return _isin(i, [flat, vals], kw, node, fr)
    j = z3.Int("j!isin")
    if isinstance(vals, Arr):
        n = to_z3(vals.shape[0], Int)
        mem = lambda x: z3.Exists([j], z3.And(j >= 0, j < n, z3.Select(vals.data, j) == x))  # noqa
    elif isinstance(vals, (PyList, tuple)):
        items = vals.items if isinstance(vals, PyList) else list(vals)
        mem = lambda x: z3.Or(*[x == to_z3(v, a.elem_sort) for v in items]) if items else z3.BoolVal(False)  # noqa
    elif isinstance(vals, SymList):
        seq = vals.seq
        mem = lambda x: z3.Exists([j], z3.And(j >= 0, j < seq.length, z3.Select(seq.cols, j) == x))  # noqa
    else:
        raise Unsupported("isin against %r" % (vals,), node)
    inv = kw.get("invert", False)
    return define1(i, a.shape[0], Bool, lambda k: (z3.Not(mem(z3.Select(a.data, k))) if inv else mem(z3.Select(a.data, k))), "isin",
                   alts=[lambda k: z3.Select(a.data, k)])


FUNCS["numpy.in1d"] = _isin
TRUSTED["numpy.in1d"] = "same as isin for 1-D"


@model("numpy.isnan", "isnan pointwise (opaque float payloads: predicate isnan; reals: never NaN - NaN not modelled over the reals)")
def _isnan(i, args, kw, node, fr):
    a = args[0]
    from .arrays import isnan as _isn
    if isinstance(a, Arr):
        check_live(a, node)
        f = (lambda x: _isn(x)) if a.elem_sort == Val else (lambda x: z3.BoolVal(False))
        if a.ndim == 1:
            return define1(i, a.shape[0], Bool, lambda k: f(z3.Select(a.data, k)), "isnan_arr", alts=[lambda k: z3.Select(a.data, k)])
        return define2(i, a.shape[0], a.shape[1], Bool, lambda r, c: f(a.at(r, c)), "isnan_arr")
    if is_z3(a) and a.sort() == Val:
        return _isn(a)
    return False


@model("numpy.isfinite", "isfinite pointwise (opaque float payloads: predicate isfinite, which excludes NaN; 0.0 and 1.0 are finite; reals: always finite)")
def _isfinite(i, args, kw, node, fr):
    a = args[0]
    from .arrays import isfinite as _fin
    if isinstance(a, Arr):
        check_live(a, node)
        f = (lambda x: _fin(x)) if a.elem_sort == Val else (lambda x: z3.BoolVal(True))
        if a.ndim == 1:
            return define1(i, a.shape[0], Bool, lambda k: f(z3.Select(a.data, k)), "isfinite_arr", alts=[lambda k: z3.Select(a.data, k)])
        return define2(i, a.shape[0], a.shape[1], Bool, lambda r, c: f(a.at(r, c)), "isfinite_arr")
    if is_z3(a) and a.sort() == Val:
        return _fin(a)
    return True


# ------------------------------------------------------------------ reshape / flatten / axis reductions on bool
class FlatV:
    """row-major flattening of a 2-D array with a CONCRETE number of columns: element k = a[k // c][k % c]"""


@model("numpy.ndarray.flatten", "flatten(): row-major 1-D copy (2-D input needs a concrete column count)")
def _flatten(i, args, kw, node, fr):
    a = args[0]
    check_live(a, node)
    if a.ndim == 1:
        return copy_arr(i, a)
    c = a.shape[1]
    if not isinstance(c, int):
        cs = z3.simplify(to_z3(c, Int))
        if not z3.is_int_value(cs):
            raise Unsupported("flatten of a 2-D array with a symbolic column count", node)
        c = cs.as_long()
    r = to_z3(a.shape[0], Int)
    if c == 0:
        return define1(i, 0, a.elem_sort, lambda k: z3.Select(z3.Select(a.data, 0), 0), "flat", a.dtype)
    out = define1(i, r * c, a.elem_sort, lambda k: z3.Select(z3.Select(a.data, k / c), k % c), "flat", a.dtype)
    # backward triggers: one per column
    k = z3.Int("k!flb")
    for col in range(c):
        i.ctx.assume(z3.ForAll([k], z3.Implies(z3.And(k >= 0, k < r), z3.Select(out.data, k * c + col) == z3.Select(z3.Select(a.data, k), col)),
                               patterns=[z3.Select(z3.Select(a.data, k), col)]))
    out.flat_of = (a, c)
    return out


@model("numpy.ndarray.reshape", "reshape to the array's own shape: identity; 1-D of length r*c to (r, c) with concrete c: row-major")
def _reshape(i, args, kw, node, fr):
    a = args[0]
    shape = args[1] if len(args) == 2 else tuple(args[1:])
    if isinstance(shape, PyList):
        shape = tuple(shape.items)
    check_live(a, node)
    if a.ndim == len(shape) and all((x is y) or (is_z3(x) and is_z3(y) and x.get_id() == y.get_id()) or (isinstance(x, int) and isinstance(y, int) and x == y)
                                    for x, y in zip(a.shape, shape)):
        return copy_arr(i, a)
    if a.ndim == 1 and len(shape) == 2:
        c = shape[1]
        if not isinstance(c, int):
            cs = z3.simplify(to_z3(c, Int))
            if not z3.is_int_value(cs):
                raise Unsupported("reshape to a symbolic column count", node)
            c = cs.as_long()
        r = to_z3(shape[0], Int)
        i.safe("reshape", to_z3(a.shape[0], Int) == r * c, node)
        out = define2(i, r, c, a.elem_sort, lambda rr, cc: z3.Select(a.data, rr * c + cc), "reshaped", a.dtype)
        return out
    raise Unsupported("reshape %r -> %r" % (a.shape, shape), node)


def _all_any_axis(i, a, axis, node, is_all):
    if a.ndim != 2 or axis not in (1, -1):
        raise Unsupported("all/any with axis=%r" % (axis,), node)
    c = a.shape[1]
    if isinstance(c, int) or z3.is_int_value(z3.simplify(to_z3(c, Int))):
        c = c if isinstance(c, int) else z3.simplify(to_z3(c, Int)).as_long()
        f = (lambda k: z3.And(*[_tb(a.at(k, cc)) for cc in range(c)]) if c else z3.BoolVal(True)) if is_all else \
            (lambda k: z3.Or(*[_tb(a.at(k, cc)) for cc in range(c)]) if c else z3.BoolVal(False))
        return define1(i, a.shape[0], Bool, f, "rowall" if is_all else "rowany", alts=[lambda k: z3.Select(a.data, k)])
    cc = z3.Int("c!ax")
    cs = to_z3(c, Int)
    f = (lambda k: z3.ForAll([cc], z3.Implies(z3.And(cc >= 0, cc < cs), _tb(a.at(k, cc))))) if is_all else \
        (lambda k: z3.Exists([cc], z3.And(cc >= 0, cc < cs, _tb(a.at(k, cc)))))
    return define1(i, a.shape[0], Bool, f, "rowall" if is_all else "rowany")


_all_plain, _any_plain = FUNCS["numpy.all"], FUNCS["numpy.any"]


def _all2(i, args, kw, node, fr):
    axis = kw.get("axis", args[1] if len(args) > 1 else None)
    if axis is not None:
        return _all_any_axis(i, args[0], axis, node, True)
    return _all_plain(i, args[:1], {}, node, fr)


def _any2(i, args, kw, node, fr):
    axis = kw.get("axis", args[1] if len(args) > 1 else None)
    if axis is not None:
        return _all_any_axis(i, args[0], axis, node, False)
    return _any_plain(i, args[:1], {}, node, fr)


for _k in ("numpy.all", "numpy.ndarray.all"):
    FUNCS[_k] = _all2
for _k in ("numpy.any", "numpy.ndarray.any"):
    FUNCS[_k] = _any2
TRUSTED["numpy.all/any(axis=1)"] = "row-wise conjunction / disjunction over the columns"


# ------------------------------------------------------------------ arrays of rank >= 3: only their shape is modelled
class ShapedV:
    """an n-dimensional array of which only .shape (non-negative ints) is known; any other use is unsupported"""

    def __init__(self, shape):
        self.shape = tuple(shape)


from ..spec import Type as _Type


class TShaped(_Type):
    def __init__(self, ndim):
        self.ndim = ndim

    def fresh(self, ctx, name):
        dims = [ctx.fresh("%s_dim%d" % (name, d), Int) for d in range(self.ndim)]
        for d in dims:
            ctx.assume(d >= 0)
        return ShapedV(dims)


@hook("getattr")
def _shaped_attr(i, v, name, node, fr):
    if isinstance(v, ShapedV):
        if name == "shape":
            return v.shape
        if name == "ndim":
            return len(v.shape)
        raise Unsupported("attribute %s of an array whose contents are not modelled" % name, node)
    return NotImplemented


@hook("isinstance")
def _isinstance_ndarray(i, v, cls, node):
    if isinstance(cls, ModuleRef) and cls.dotted == "numpy.ndarray":
        if isinstance(v, Arr):
            return True
        if isinstance(v, (int, float, bool, str)) or is_z3(v):
            return False  # scalars (python numbers / symbolic scalars) are not arrays
    return NotImplemented


@model("numpy.square", "np.square(a) = a ** 2 pointwise")
def _square(i, args, kw, node, fr):
    (a,) = args
    if isinstance(a, Arr):
        return _binop(i, ast.Pow(), a, 2, node)
    raise Unsupported("np.square of a scalar", node)
