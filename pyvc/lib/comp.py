"""Comprehensions / sorted / array_split over lists of SYMBOLIC length.

The element expression and the filter conditions are evaluated once with the loop target bound to the k-th element for a
*universally quantified* index k (engine scope mechanism): they must be pure terms of k (no fresh symbols, no branching);
obligations raised while evaluating them (index bounds, summary preconditions) are generalised over k.
  [e(x) for x in L if c(x)]   ->  mask M[k] = c(L[k]);  result = (e(L[k]))_k selected by M   (rank/idx selection theory)
  {key(x): val(x) for x in L} ->  insertion-ordered map; obligation: keys pairwise distinct
  sorted(L, key=f)            ->  a permutation of L with non-decreasing keys (stable)
  np.array_split(L, n)[c]     ->  L[start_c : start_c + size_c], size_c = len // n + [c < len % n], start_0 = 0, start_{c+1} = start_c + size_c
"""
import ast
import builtins
import z3
from ..values import *  # noqa
from .. import values as V
from . import model, hook, TRUSTED, FUNCS, BUILTINS, _leaves
from .arrays import rank, idx, rank_axioms


def _term(v):
    if isinstance(v, AObj):
        return v.term
    if isinstance(v, bool):
        return z3.BoolVal(v)
    if isinstance(v, int):
        return z3.IntVal(v)
    if is_z3(v):
        return v
    raise Unsupported("comprehension element value %r is not a pure term" % (v,))


def _wrap_of(v):
    if isinstance(v, AObj):
        cn = v.clsname
        return lambda t: AObj(cn, t)
    return None


def _alts(k, head, *terms):
    """alternative triggers for a pointwise definition  head(k) == f(k): besides head(k) itself, every subterm of f of the
    form Select(A, k) (so that facts about A's k-th element reach the defined array and vice versa)"""
    out, seen = [head], {head.get_id()}
    stack = [t for t in terms if is_z3(t)]
    while stack:
        e = stack.pop()
        if z3.is_app(e):
            if e.decl().kind() == z3.Z3_OP_SELECT and e.num_args() == 2 and e.arg(1).get_id() == k.get_id() and z3.is_const(e.arg(0)) \
                    and e.get_id() not in seen:
                seen.add(e.get_id())
                out.append(e)
            stack.extend(e.children())
    return out


def elementwise(i, node, fr, gen, exprs):
    """evaluate exprs (list of ast) for the k-th element of gen.iter with k universally quantified.
    returns (L, k, [values], cond term)"""
    from ..engine import Frame
    it = i.eval(gen.iter, fr)
    sym = i.sym_iter(it, node)
    if sym is None:
        return None
    L, get = sym
    k = z3.Int("k!cmp%d" % builtins.getattr(node, "lineno", 0))
    sub = Frame(fr.module, fr.fn_node, fr.qualname, dict(fr.locals), fr.depth, fr.cls)
    sub.closure_env = builtins.getattr(fr, "closure_env", None)
    sub.loop_keys = fr.loop_keys
    guard = z3.And(k >= 0, k < L)
    i.ctx.scopes.append(([k], guard))
    try:
        i.assign(gen.target, get(k), sub)
        cond = z3.BoolVal(True)
        for c in gen.ifs:
            t = i.truth(i.eval(c, sub), node)
            cond = z3.And(cond, t if is_z3(t) else z3.BoolVal(bool(t)))
        vals = [i.eval(e, sub) for e in exprs]
    finally:
        i.ctx.scopes.pop()
    return L, k, vals, z3.simplify(cond)


@hook("comprehension")
def _sym_comprehension(i, node, fr, kind):
    if len(node.generators) != 1:
        return NotImplemented
    g = node.generators[0]
    try_it = i.eval(g.iter, fr)
    if i.sym_iter(try_it, node) is None:
        return NotImplemented
    if kind == "list" and isinstance(node.elt, ast.Call) and not g.ifs:
        return NotImplemented  # contract-call comprehension rule (lib.__init__) handles object-producing calls
    ctx = i.ctx
    if kind in ("list", "gen", "set"):
        r = elementwise(i, node, fr, g, [node.elt])
        L, k, (val,), cond = r
        t = _term(val)
        allk = ctx.fresh("cmp_vals", z3.ArraySort(Int, t.sort()))
        ctx.assume(z3.ForAll([k], z3.Implies(z3.And(k >= 0, k < L), z3.Select(allk, k) == t), patterns=_alts(k, z3.Select(allk, k), t)))
        wrap = _wrap_of(val)
        if not g.ifs:
            out = SymList(Seq(L, allk), elem_wrap=wrap)
        else:
            M = ctx.fresh("cmp_mask", z3.ArraySort(Int, Bool))
            ctx.assume(z3.ForAll([k], z3.Implies(z3.And(k >= 0, k < L), z3.Select(M, k) == cond), patterns=_alts(k, z3.Select(M, k), cond, t)))
            rank_axioms(i, M, L)
            cnt = rank(M, L)
            res = ctx.fresh("cmp_sel", z3.ArraySort(Int, t.sort()))
            j, p = z3.Int("j!cmps"), z3.Int("p!cmps")
            ctx.assume(z3.ForAll([j], z3.Implies(z3.And(j >= 0, j < cnt), z3.Select(res, j) == z3.Select(allk, idx(M, L, j))),
                                 patterns=[z3.Select(res, j)]))
            ctx.assume(z3.ForAll([p], z3.Implies(z3.And(p >= 0, p < L, z3.Select(M, p)), z3.Select(res, rank(M, p)) == z3.Select(allk, p)),
                                 patterns=[z3.Select(M, p)]))
            out = SymList(Seq(cnt, res), elem_wrap=wrap)
            out.filter_of = (M, L, allk)
        if kind == "set":
            raise Unsupported("set comprehension over a symbolic iterable", node)
        return out
    if kind == "dict":
        r = elementwise(i, node, fr, g, [node.key, node.value])
        L, k, (kv, vv), cond = r
        if g.ifs:
            raise Unsupported("filtered dict comprehension over a symbolic iterable", node)
        from .maps import SymMap
        kt, vt = _term(kv), _term(vv)
        k2 = z3.Int(str(k) + "b")
        kt2 = z3.substitute(kt, (k, k2))
        ctx.prove("%s/safe:dict_keys_distinct@%s" % (i._cur_label, builtins.getattr(node, "lineno", "?")),
                  z3.ForAll([k, k2], z3.Implies(z3.And(k >= 0, k < k2, k2 < L), kt != kt2)), node, "safe")
        keys = ctx.fresh("dc_keys", z3.ArraySort(Int, kt.sort()))
        val = ctx.fresh("dc_val", z3.ArraySort(kt.sort(), vt.sort()))
        dom = ctx.fresh("dc_dom", z3.ArraySort(kt.sort(), Bool))
        pos = ctx.fresh("dc_pos", z3.ArraySort(kt.sort(), Int))
        ctx.assume(z3.ForAll([k], z3.Implies(z3.And(k >= 0, k < L), z3.And(z3.Select(keys, k) == kt, z3.Select(val, kt) == vt)),
                             patterns=[z3.Select(keys, k)]))
        m = SymMap()
        m.val, m.dom, m.pos, m.keys, m.ready = val, dom, pos, Seq(L, keys), True
        m.val_wrap = _wrap_of(vv)
        for f in m.wf():
            ctx.assume(f)
        return m
    return NotImplemented


@model("sorted", "sorted(xs, key=f): a permutation of xs with non-decreasing keys (stable)", builtin=True)
def _sorted(i, args, kw, node, fr):
    xs = args[0]
    key = kw.get("key")
    sym = i.sym_iter(xs, node)
    if sym is None:
        items = i.concrete_items(xs, node)
        ks = [i.call(key, [x], {}, node, fr) if key is not None else x for x in items]
        if all(isinstance(x, (int, float, str)) for x in ks):
            return PyList([x for _, x in builtins.sorted(zip(ks, items), key=lambda t: t[0])])
        raise Unsupported("sorted of a concrete list with symbolic keys", node)
    L, get = sym
    ctx = i.ctx
    k = z3.Int("k!srt%d" % builtins.getattr(node, "lineno", 0))
    ctx.scopes.append(([k], z3.And(k >= 0, k < L)))
    try:
        elem = get(k)
        kt = _term(i.call(key, [elem], {}, node, fr)) if key is not None else _term(elem)
    finally:
        ctx.scopes.pop()
    et = _term(elem)
    src = ctx.fresh("srt_src", z3.ArraySort(Int, et.sort()))
    ctx.assume(z3.ForAll([k], z3.Implies(z3.And(k >= 0, k < L), z3.Select(src, k) == et), patterns=_alts(k, z3.Select(src, k), et)))
    out = ctx.fresh("sorted", z3.ArraySort(Int, et.sort()))
    perm = ctx.fresh("srt_perm", z3.ArraySort(Int, Int))
    inv = ctx.fresh("srt_inv", z3.ArraySort(Int, Int))
    keyf = lambda pos_term: z3.substitute(kt, (k, pos_term))  # noqa  key of the source element at a position
    j, j2 = z3.Int("j!srt"), z3.Int("j2!srt")
    pj = z3.Select(perm, j)
    ctx.assume(z3.ForAll([j], z3.Implies(z3.And(j >= 0, j < L), z3.And(pj >= 0, pj < L, z3.Select(inv, pj) == j, z3.Select(out, j) == z3.Select(src, pj))),
                         patterns=[z3.Select(out, j), z3.Select(perm, j)]))
    ij = z3.Select(inv, j)
    ctx.assume(z3.ForAll([j], z3.Implies(z3.And(j >= 0, j < L), z3.And(ij >= 0, ij < L, z3.Select(perm, ij) == j, z3.Select(out, ij) == z3.Select(src, j))),
                         patterns=[z3.Select(inv, j), z3.Select(src, j)]))
    if kt.sort() in (Int, Real):
        ctx.assume(z3.ForAll([j, j2], z3.Implies(z3.And(j >= 0, j < j2, j2 < L),
                                                 z3.And(keyf(z3.Select(perm, j)) <= keyf(z3.Select(perm, j2)),
                                                        z3.Implies(keyf(z3.Select(perm, j)) == keyf(z3.Select(perm, j2)), z3.Select(perm, j) < z3.Select(perm, j2)))),
                             patterns=[z3.MultiPattern(z3.Select(perm, j), z3.Select(perm, j2))]))
    else:
        raise Unsupported("sorted with non-numeric keys over a symbolic list", node)
    r = SymList(Seq(L, out), elem_wrap=_wrap_of(elem))
    r.sorted_of = (src, perm, inv, L)
    return r


class SplitV:
    def __init__(self, sl, n):
        self.sl, self.n = sl, n


@model("numpy.array_split", "array_split(xs, n)[c] = xs[cstart:cend]: len//n per section, the first len%n sections one longer")
def _array_split(i, args, kw, node, fr):
    xs, n = args[0], args[1]
    if isinstance(xs, (SymList,)):
        return SplitV(xs, n)
    from .arrays import Arr
    if isinstance(xs, Arr) and xs.ndim == 1:
        return SplitV(SymList(Seq(to_z3(xs.shape[0], Int), xs.data)), n)
    if isinstance(xs, PyList) and isinstance(n, int) and n > 0:
        items = xs.items
        q, r = divmod(len(items), n)
        out, p = [], 0
        for c in range(n):
            m = q + (1 if c < r else 0)
            out.append(PyList(items[p:p + m]))
            p += m
        return PyList(out)
    raise Unsupported("np.array_split of %r" % (xs,), node)


sec_lo = z3.Function("array_split_start", Int, Int, Int, Int)  # (length, number of sections, section index) -> first position


def split_bounds(Ln, n, c):
    """section c of np.array_split(length Ln, n): [lo, hi) with lo = start(Ln,n,c) and hi = lo + size_c, size_c = Ln div n + [c < Ln mod n].
    The start is kept as a function symbol (its closed form c*(Ln div n) + min(c, Ln mod n) is non-linear); split_facts gives what is used:
    start(.,.,0) = 0, start(.,.,c+1) = start(.,.,c) + size_c, and 0 <= start, start + size_c <= Ln for 0 <= c < n."""
    q, r = Ln / n, Ln % n
    lo = sec_lo(Ln, n, c)
    return lo, lo + q + z3.If(c < r, 1, 0)


def split_facts(Ln, n, c):
    lo, hi = split_bounds(Ln, n, c)
    return [sec_lo(Ln, n, 0) == 0, sec_lo(Ln, n, c + 1) == hi,
            z3.Implies(z3.And(n >= 1, c >= 0, c < n, Ln >= 0), z3.And(lo >= 0, hi <= Ln, hi >= lo))]


@hook("getitem")
def _split_item(i, v, ix, node):
    if isinstance(v, SplitV):
        from . import seq_slice
        n, c = to_z3(v.n, Int), to_z3(ix, Int)
        i.safe("index", z3.And(n >= 1, c >= -n, c < n), node)
        c = z3.If(c < 0, c + n, c)
        Ln = v.sl.seq.length
        lo, hi = split_bounds(Ln, n, c)
        for f_ in split_facts(Ln, n, c):
            i.ctx.assume(f_)
        s = seq_slice(i, v.sl.seq, lo, hi)
        r = SymList(s, v.sl.elem_wrap)
        r.section_of = (v.sl.seq, lo, hi)
        return r
    return NotImplemented


@hook("getattr")
def _tolist(i, v, name, node, fr):
    if isinstance(v, SymList) and name == "tolist":
        return BoundMethod(v, lambda interp, s, a, k, n, f: s)
    return NotImplemented


TRUSTED["comprehension over a symbolic list"] = ("[e(x) for x in xs if c(x)]: e and c evaluated for the k-th element with k universally quantified; "
                                                 "result = selected elements in order")
