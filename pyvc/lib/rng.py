"""numpy.random models (assumed contracts).

default_rng(x) / SeedSequence(x) / .spawn(n)[i] are uninterpreted *functions of their arguments*:
the generator handed out depends on exactly the terms passed in.  default_rng() without a seed and every
module-level numpy.random.<fn> are NONDETERMINISTIC primitives (they fail det obligations; see effects.py).
"""
import z3
from ..values import *  # noqa
from . import model, hook, FUNCS, TRUSTED, VALUES

SeedSeq = z3.DeclareSort("SeedSeq")
Gen = z3.DeclareSort("Gen")
SS_of_seed = z3.Function("SeedSequence", Int, SeedSeq)
SS_spawn = z3.Function("spawn", SeedSeq, Int, Int, Int, SeedSeq)  # (parent, already spawned, n_children, index)
G_of_ss = z3.Function("default_rng_ss", SeedSeq, Gen)
G_of_seed = z3.Function("default_rng_int", Int, Gen)


class SeedSeqV:
    """SeedSequence object: spawn() is stateful (n_children_spawned), so the object carries that counter."""

    def __init__(self, term):
        self.term = term
        self.spawned = 0


class SpawnedV:
    def __init__(self, parent, before, n):
        self.parent, self.before, self.n = parent, before, n


class GenTok:
    """A numpy Generator value: z3 term of sort Gen (identity = the seed material it was built from)."""

    def __init__(self, term):
        self.term = term


@model("numpy.random.SeedSequence", "SeedSequence(seed) is a function of seed only")
def _ss(i, args, kw, node, fr):
    if not args:
        raise Unsupported("SeedSequence() without entropy: nondeterministic primitive", node)
    return SeedSeqV(SS_of_seed(to_z3(args[0], Int)))


@model("numpy.random.default_rng", "default_rng(x) is a function of x only (x: int seed or SeedSequence)")
def _default_rng(i, args, kw, node, fr):
    if not args or args[0] is None:
        raise Unsupported("default_rng() without seed: nondeterministic primitive", node)
    s = args[0]
    if isinstance(s, SeedSeqV):
        return GenTok(G_of_ss(s.term))
    return GenTok(G_of_seed(to_z3(s, Int)))


@hook("getattr")
def _ga(i, v, name, node, fr):
    if isinstance(v, SeedSeqV) and name == "spawn":
        def spawn(interp, s, a, k, n, f):
            r = SpawnedV(s.term, s.spawned, a[0])
            s.spawned = s.spawned + a[0]
            return r
        return BoundMethod(v, spawn)
    return NotImplemented


@hook("getitem")
def _gi(i, v, idx, node):
    if isinstance(v, SpawnedV):
        n = to_z3(v.n, Int)
        k = to_z3(idx, Int)
        i.safe("index", z3.And(k >= -n, k < n), node)
        k = z3.If(k < 0, k + n, k)
        return SeedSeqV(SS_spawn(v.parent, to_z3(v.before, Int), n, k))
    return NotImplemented


TRUSTED["numpy.random.SeedSequence.spawn"] = ("spawn(n)[i] is a function of (parent entropy, children spawned before, n, i) and advances the parent's counter; that distinct i give "
                                              "independent non-overlapping streams is numpy's guarantee (assumed, not proved)")


# ------------------------------------------------------------------ Generator methods (results under-specified:
# every outcome numpy may produce is allowed, so postconditions hold for every generator state)
from .arrays import Arr, define1, new_arr, check_live  # noqa
from ..spec import Type  # noqa


class TGenerator(Type):
    def fresh(self, ctx, name):
        return GenTok(ctx.fresh(name, Gen))


def _log(i, g, what, args):
    i.ctx.ghost.setdefault("draws", []).append((g.term, what, args))


@hook("getattr")
def _gen_methods(i, g, name, node, fr):
    if not isinstance(g, GenTok):
        return NotImplemented
    if name == "choice":
        def choice(interp, s, a, kw, n, f):
            src = a[0]
            size = kw.get("size", a[1] if len(a) > 1 else None)
            replace = kw.get("replace", a[2] if len(a) > 2 else True)
            if isinstance(src, int) or is_sym_int(src):
                N = to_z3(src, Int)
                get = lambda p: p  # noqa
            elif isinstance(src, Arr) and src.ndim == 1:
                check_live(src, n)
                N = to_z3(src.shape[0], Int)
                get = lambda p: z3.Select(src.data, p)  # noqa
                elem = src.elem_sort
            else:
                raise Unsupported("rng.choice over %r" % (src,), n)
            elem = Int if not isinstance(src, Arr) else src.elem_sort
            _log(interp, s, "choice", (src, size, replace))
            if size is None:
                interp.safe("choice_nonempty", N > 0, n)
                p = interp.ctx.fresh("choice_pos", Int)
                interp.ctx.assume(z3.And(p >= 0, p < N))
                return get(p)
            sz = to_z3(size, Int)
            if replace is False:
                interp.ctx.prove("%s/safe:choice_size@%s" % (interp._cur_label, getattr(n, "lineno", "?")), z3.And(sz >= 0, sz <= N), n, "safe")
            elif replace is not True:
                raise Unsupported("rng.choice with symbolic replace", n)
            else:
                interp.ctx.prove("%s/safe:choice_size@%s" % (interp._cur_label, getattr(n, "lineno", "?")), z3.And(sz >= 0, z3.Implies(sz > 0, N > 0)), n, "safe")
            out = new_arr(interp, (sz,), elem, "choice")
            pos = interp.ctx.fresh("choice_posn", z3.ArraySort(Int, Int))
            k, k2 = z3.Int("k!ch"), z3.Int("k2!ch")
            pk = z3.Select(pos, k)
            interp.ctx.assume(z3.ForAll([k], z3.Implies(z3.And(k >= 0, k < sz), z3.And(pk >= 0, pk < N, z3.Select(out.data, k) == get(pk))),
                                        patterns=[z3.Select(out.data, k)]))
            if replace is False:
                interp.ctx.assume(z3.ForAll([k, k2], z3.Implies(z3.And(k >= 0, k < k2, k2 < sz), z3.Select(pos, k) != z3.Select(pos, k2)),
                                            patterns=[z3.MultiPattern(z3.Select(pos, k), z3.Select(pos, k2))]))
            out.choice_pos = pos
            return out
        return BoundMethod(g, choice)
    if name == "integers":
        def integers(interp, s, a, kw, n, f):
            # integers(high, size=k) / integers(low, high, size=k): k values in [low, high), with repetition
            low, high = (0, a[0]) if len(a) == 1 and "high" not in kw else (a[0], kw.get("high", a[1] if len(a) > 1 else None))
            size = kw.get("size", a[2] if len(a) > 2 else None)
            if high is None or kw.get("endpoint"):
                raise Unsupported("rng.integers signature", n)
            lo, hi = to_z3(low, Int), to_z3(high, Int)
            _log(interp, s, "integers", (low, high, size))
            interp.safe("integers_range_nonempty", lo < hi, n)
            if size is None:
                p = interp.ctx.fresh("rand_int", Int)
                interp.ctx.assume(z3.And(p >= lo, p < hi))
                return p
            sz = to_z3(size, Int)
            interp.safe("integers_size", sz >= 0, n)
            out = new_arr(interp, (sz,), Int, "rand_ints")
            k = z3.Int("k!ri")
            interp.ctx.assume(z3.ForAll([k], z3.Implies(z3.And(k >= 0, k < sz), z3.And(z3.Select(out.data, k) >= lo, z3.Select(out.data, k) < hi)),
                                        patterns=[z3.Select(out.data, k)]))
            return out
        return BoundMethod(g, integers)
    if name == "permutation":
        def perm(interp, s, a, kw, n, f):
            src = a[0]
            _log(interp, s, "permutation", (src,))
            if isinstance(src, int) or is_sym_int(src):
                N = to_z3(src, Int)
                get, elem, dt = (lambda p: p), Int, "int"
            elif isinstance(src, Arr) and src.ndim == 1:
                N = to_z3(src.shape[0], Int)
                get, elem, dt = (lambda p: z3.Select(src.data, p)), src.elem_sort, src.dtype
            else:
                raise Unsupported("rng.permutation of %r" % (src,), n)
            out = new_arr(interp, (N,), elem, "perm", dt)
            pi = interp.ctx.fresh("pi", z3.ArraySort(Int, Int))
            pinv = interp.ctx.fresh("pi_inv", z3.ArraySort(Int, Int))
            k = z3.Int("k!pm")
            pk, ik = z3.Select(pi, k), z3.Select(pinv, k)
            interp.ctx.assume(z3.ForAll([k], z3.Implies(z3.And(k >= 0, k < N), z3.And(pk >= 0, pk < N, z3.Select(pinv, pk) == k,
                                                                                   z3.Select(out.data, k) == get(pk))),
                                        patterns=[z3.Select(out.data, k), z3.Select(pi, k)]))
            interp.ctx.assume(z3.ForAll([k], z3.Implies(z3.And(k >= 0, k < N), z3.And(ik >= 0, ik < N, z3.Select(pi, ik) == k)),
                                        patterns=[z3.Select(pinv, k)]))
            out.perm = (pi, pinv)
            return out
        return BoundMethod(g, perm)
    if name in ("random", "uniform"):
        def rnd(interp, s, a, kw, n, f):
            _log(interp, s, name, tuple(a))
            if a or kw:
                raise Unsupported("rng.%s with arguments" % name, n)
            r = interp.ctx.fresh("rand", Real)
            interp.ctx.assume(z3.And(r >= 0, r < 1))
            return r
        return BoundMethod(g, rnd)
    raise Unsupported("Generator.%s is not modelled" % name, node)


TRUSTED["numpy.random.Generator.choice"] = ("choice(a, size, replace=False): `size` members of a at pairwise distinct positions (requires size <= len(a)); "
                                            "replace=True: members of a; every outcome allowed")
TRUSTED["numpy.random.Generator.permutation"] = "permutation(a): a rearranged by some bijection of positions; every bijection allowed"


@hook("havoc_object")
def _havoc_gen(i, v, name, node):
    if isinstance(v, (GenTok, SeedSeqV)):
        return True  # generator state is not tracked: every draw is already an arbitrary admissible outcome
    return NotImplemented


SS_state = z3.Function("generate_state", SeedSeq, Int, Int, Int)  # (seed sequence, n_words, index)


class GenStateV:
    def __init__(self, ss, n):
        self.ss, self.n = ss, n


@hook("getattr")
def _ss_generate_state(i, v, name, node, fr):
    if isinstance(v, SeedSeqV) and name == "generate_state":
        return BoundMethod(v, lambda interp, s, a, k, n, f: GenStateV(s.term, a[0]))
    return NotImplemented


@hook("getitem")
def _gs_item(i, v, idx_, node):
    if isinstance(v, GenStateV):
        return SS_state(v.ss, to_z3(v.n, Int), to_z3(idx_, Int))
    return NotImplemented


TRUSTED["numpy.random.SeedSequence.generate_state"] = "generate_state(n)[k] is a function of (entropy, n, k)"
