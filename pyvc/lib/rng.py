"""numpy.random models (assumed contracts).

default_rng(x) / SeedSequence(x) / .spawn(n)[i] are uninterpreted *functions of their arguments*:
the generator handed out depends on exactly the terms passed in.  default_rng() without a seed and every
module-level numpy.random.<fn> are NONDETERMINISTIC primitives (they fail det obligations; see effects.py).
"""
import z3
from ..values import *  # noqa
from . import model, hook, FUNCS, TRUSTED, VALUES

SeedSeq = z3.DeclareSort("SeedSeq")
Gen = z3.DeclareSort("Gen")
SS_of_seed = z3.Function("SeedSequence", Int, SeedSeq)
SS_spawn = z3.Function("spawn", SeedSeq, Int, Int, Int, SeedSeq)  # (parent, already spawned, n_children, index)
G_of_ss = z3.Function("default_rng_ss", SeedSeq, Gen)
G_of_seed = z3.Function("default_rng_int", Int, Gen)


class SeedSeqV:
    """SeedSequence object: spawn() is stateful (n_children_spawned), so the object carries that counter."""

    def __init__(self, term):
        self.term = term
        self.spawned = 0


class SpawnedV:
    def __init__(self, parent, before, n):
        self.parent, self.before, self.n = parent, before, n


class GenTok:
    """A numpy Generator value: z3 term of sort Gen (identity = the seed material it was built from)."""

    def __init__(self, term):
        self.term = term


@model("numpy.random.SeedSequence", "SeedSequence(seed) is a function of seed only")
def _ss(i, args, kw, node, fr):
    if not args:
        raise Unsupported("SeedSequence() without entropy: nondeterministic primitive", node)
    return SeedSeqV(SS_of_seed(to_z3(args[0], Int)))


@model("numpy.random.default_rng", "default_rng(x) is a function of x only (x: int seed or SeedSequence)")
def _default_rng(i, args, kw, node, fr):
    if not args or args[0] is None:
        raise Unsupported("default_rng() without seed: nondeterministic primitive", node)
    s = args[0]
    if isinstance(s, SeedSeqV):
        return GenTok(G_of_ss(s.term))
    return GenTok(G_of_seed(to_z3(s, Int)))


@hook("getattr")
def _ga(i, v, name, node, fr):
    if isinstance(v, SeedSeqV) and name == "spawn":
        def spawn(interp, s, a, k, n, f):
            r = SpawnedV(s.term, s.spawned, a[0])
            s.spawned = s.spawned + a[0]
            return r
        return BoundMethod(v, spawn)
    return NotImplemented


@hook("getitem")
def _gi(i, v, idx, node):
    if isinstance(v, SpawnedV):
        n = to_z3(v.n, Int)
        k = to_z3(idx, Int)
        i.safe("index", z3.And(k >= -n, k < n), node)
        k = z3.If(k < 0, k + n, k)
        return SeedSeqV(SS_spawn(v.parent, to_z3(v.before, Int), n, k))
    return NotImplemented


TRUSTED["numpy.random.SeedSequence.spawn"] = ("spawn(n)[i] is a function of (parent entropy, children spawned before, n, i) and advances the parent's counter; that distinct i give "
                                              "independent non-overlapping streams is numpy's guarantee (assumed, not proved)")
