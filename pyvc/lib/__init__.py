"""Library models = assumed contracts on builtins / stdlib / numpy / h5py used by batchie.

Each entry is an *assumption* (trusted base) and is listed mechanically in evidence (TRUSTED).
Hooks: the engine calls lib.<hook>(interp, ...) which tries each registered handler in turn.
"""
import ast
import builtins
import z3
from ..values import *  # noqa
from .. import values as V

VALUES = {}  # dotted name -> value
FUNCS = {}  # dotted name -> model(interp, args, kwargs, node, fr)
BUILTINS = {}  # builtin name -> model
CLASSES = {}  # dotted class name -> constructor model
TRUSTED = {}  # dotted name -> one-line statement of the assumed contract
HOOKS = {}


def model(name, doc, builtin=False):
    def deco(f):
        (BUILTINS if builtin else FUNCS)[name] = f
        TRUSTED[name] = doc
        return f
    return deco


def hook(name):
    def deco(f):
        HOOKS.setdefault(name, []).append(f)
        return f
    return deco


def _run(name, *a):
    for h in HOOKS.get(name, []):
        r = h(*a)
        if r is not NotImplemented:
            return r
    return NotImplemented


def truth(i, v, node): return _run("truth", i, v, node)
def binop(i, op, a, b, node): return _run("binop", i, op, a, b, node)
def unaryop(i, op, v, node): return _run("unaryop", i, op, v, node)
def compare(i, op, a, b, node): return _run("compare", i, op, a, b, node)
def identical(i, a, b, node): return _run("identical", i, a, b, node)
def str_equal(i, a, b, node): return _run("str_equal", i, a, b, node)
def contains(i, c, x, node): return _run("contains", i, c, x, node)
def getattr(i, v, name, node, fr): return _run("getattr", i, v, name, node, fr)
def isinstance_(i, v, cls, node): return _run("isinstance", i, v, cls, node)
def getitem(i, v, idx, node): return _run("getitem", i, v, idx, node)
def setitem(i, v, idx, val, node): return _run("setitem", i, v, idx, val, node)
def delitem(i, v, idx, node): return _run("delitem", i, v, idx, node)
def concrete_items(i, v, node): return _run("concrete_items", i, v, node)
def sym_iter(i, v, node): return _run("sym_iter", i, v, node)
def inplace(i, op, cur, rhs_thunk, node): return _run("inplace", i, op, cur, rhs_thunk, node)
def unpack(i, v, n, node): return _run("unpack", i, v, n, node)
def auto_loop(i, st, fr, L, get): return _run("auto_loop", i, st, fr, L, get)
def fresh_like(i, v, name, node): return _run("fresh_like", i, v, name, node)
def havoc_object(i, v, name, node): return _run("havoc_object", i, v, name, node)


def with_enter(i, v, item, fr):
    r = _run("with_enter", i, v, item, fr)
    if r is NotImplemented:
        raise Unsupported("with-statement on %r" % (v,), item.context_expr)
    return r


def make_set(i, items, node):
    r = _run("make_set", i, items, node)
    if r is NotImplemented:
        raise Unsupported("set literal", node)
    return r


def default_value(kind):
    if kind == "int":
        return 0
    if kind == "list":
        return PyList([])
    raise Unsupported("defaultdict(%s)" % kind)


# --------------------------------------------------------------------------- sequences

def seq_append(i, sl, v, node):
    seq = sl.seq
    if isinstance(v, AObj):
        v = v.term
    sl.seq = Seq(seq.length + 1, V._store(seq.cols, seq.length, v))


def seq_getitem(i, sl, idx, node):
    seq = sl.seq
    w = sl.elem_wrap or (lambda x: x)
    if isinstance(idx, i.__class__.__mro__[0].__dict__.get("_never", ())):  # pragma: no cover
        pass
    from ..engine import SliceV
    if isinstance(idx, SliceV):
        if idx.step not in (None, 1):
            raise Unsupported("stepped slice of symbolic list", node)
        n = seq.length
        lo = 0 if idx.lo is None else _norm_bound(idx.lo, n)
        hi = n if idx.hi is None else _norm_bound(idx.hi, n)
        return SymList(seq_slice(i, seq, lo, hi), sl.elem_wrap)
    k = to_z3(idx, Int) if not is_z3(idx) else idx
    if isinstance(idx, int) and idx < 0:
        i.safe("index", seq.length + idx >= 0, node)
        return w(seq.get(seq.length + idx))
    if isinstance(idx, int):
        i.safe("index", seq.length > idx, node)
        return w(seq.get(z3.IntVal(idx)))
    i.safe("index", z3.And(k >= -seq.length, k < seq.length), node)
    return w(seq.get(z3.If(k < 0, k + seq.length, k)))


def _norm_bound(b, n):
    """Python slice bound normalisation to [0, n]."""
    b = to_z3(b, Int)
    b = z3.If(b < 0, b + n, b)
    return z3.If(b < 0, 0, z3.If(b > n, n, b))


def seq_slice(i, seq, lo, hi):
    """seq[lo:hi] with 0<=lo, hi<=len already normalised: fresh Seq with pointwise axiom."""
    ctx = i.ctx
    lo, hi = to_z3(lo, Int), to_z3(hi, Int)
    n = z3.If(hi > lo, hi - lo, z3.IntVal(0))
    cols = cols_fresh_like(seq.cols, lambda s: ctx.fresh("slice", s))
    k = z3.Int("k!sl")
    for c_new, c_old in zip(_leaves(cols), _leaves(seq.cols)):
        ctx.assume(z3.ForAll([k], z3.Implies(z3.And(k >= 0, k < n), z3.Select(c_new, k) == z3.Select(c_old, k + lo)),
                             patterns=[z3.Select(c_new, k)]))
    return Seq(n, cols)


def _leaves(cols):
    if isinstance(cols, tuple):
        out = []
        for c in cols:
            out.extend(_leaves(c))
        return out
    return [cols]


def seq_concat(i, a, b, node):
    ctx = i.ctx
    sa = a.seq if isinstance(a, SymList) else pylist_to_seq(i, a, node, like=b.seq)
    sb = b.seq if isinstance(b, SymList) else pylist_to_seq(i, b, node, like=a.seq)
    cols = cols_fresh_like(sa.cols, lambda s: ctx.fresh("cat", s))
    k = z3.Int("k!cat")
    n = sa.length + sb.length
    for c_new, ca, cb in zip(_leaves(cols), _leaves(sa.cols), _leaves(sb.cols)):
        ctx.assume(z3.ForAll([k], z3.Implies(z3.And(k >= 0, k < n),
                                             z3.Select(c_new, k) == z3.If(k < sa.length, z3.Select(ca, k),
                                                                          z3.Select(cb, k - sa.length))),
                             patterns=[z3.Select(c_new, k)]))
        # back-triggers: a fact about an element of either part reaches the concatenation
        ctx.assume(z3.ForAll([k], z3.Implies(z3.And(k >= 0, k < sa.length), z3.Select(c_new, k) == z3.Select(ca, k)), patterns=[z3.Select(ca, k)]))
        ctx.assume(z3.ForAll([k], z3.Implies(z3.And(k >= 0, k < sb.length), z3.Select(c_new, k + sa.length) == z3.Select(cb, k)), patterns=[z3.Select(cb, k)]))
    w = a.elem_wrap if isinstance(a, SymList) else b.elem_wrap
    return SymList(Seq(n, cols), w)


def pylist_to_seq(i, pl, node, like=None):
    ctx = i.ctx
    items = pl.items if isinstance(pl, PyList) else list(pl)
    if like is not None:
        cols = cols_fresh_like(like.cols, lambda s: ctx.fresh("lit", s))
    elif items:
        cols = cols_like_value(items[0], lambda s: ctx.fresh("lit", s))
    else:
        raise Unsupported("cannot type an empty list literal as a symbolic sequence", node)
    seq = Seq(z3.IntVal(0), cols)
    for x in items:
        if isinstance(x, AObj):
            x = x.term
        seq = Seq(seq.length + 1, V._store(seq.cols, seq.length, x))
    return Seq(z3.IntVal(len(items)), seq.cols)


# --------------------------------------------------------------------------- builtins

@model("len", "len(x) = number of items", builtin=True)
def _len(i, args, kw, node, fr):
    (v,) = args
    if isinstance(v, (tuple, str)):
        return len(v)
    if isinstance(v, PyList):
        return len(v.items)
    if isinstance(v, PyDict):
        return len(v.items)
    if isinstance(v, SymList):
        return v.seq.length
    if isinstance(v, Seq):
        return v.length
    if isinstance(v, RangeV):
        return v.length()
    r = _run("len", i, v, node)
    if r is not NotImplemented:
        return r
    raise Unsupported("len of %r" % (v,), node)


@model("range", "range(a,b,step): a, a+step, ... (step = +-1 when bounds symbolic)", builtin=True)
def _range(i, args, kw, node, fr):
    args = [_as_index(a) for a in args]
    if len(args) == 1:
        return RangeV(0, args[0], 1)
    if len(args) == 2:
        return RangeV(args[0], args[1], 1)
    return RangeV(args[0], args[1], args[2])


def _as_index(a):
    return a


@model("zip", "zip stops at the shortest iterable; i-th item is the tuple of i-th items", builtin=True)
def _zip(i, args, kw, node, fr):
    return ZipV(list(args))


@model("enumerate", "enumerate(xs, start): (start+i, xs[i])", builtin=True)
def _enumerate(i, args, kw, node, fr):
    return EnumV(args[0], kw.get("start", args[1] if len(args) > 1 else 0))


@model("tuple", "tuple(iterable): items in iteration order", builtin=True)
def _tuple(i, args, kw, node, fr):
    if not args:
        return ()
    v = args[0]
    from ..engine import GenV
    if isinstance(v, GenV) and isinstance(v.seq, Seq):
        s = Seq(v.seq.length - v.pos, v.seq.cols) if v.pos == 0 else seq_slice(i, v.seq, v.pos, v.seq.length)
        v.pos = v.seq.length
        return SymTuple(s)
    if isinstance(v, SymList):
        return SymTuple(v.seq)
    return tuple(i.concrete_items(v, node))


class SymTuple:
    """tuple of symbolic length (immutable view of a Seq)."""

    def __init__(self, seq):
        self.seq = seq


@model("list", "list(iterable): items in iteration order, fresh list", builtin=True)
def _list(i, args, kw, node, fr):
    if not args:
        return PyList([])
    v = args[0]
    from ..engine import GenV
    if isinstance(v, GenV) and isinstance(v.seq, Seq):
        s = seq_slice(i, v.seq, v.pos, v.seq.length)
        v.pos = v.seq.length
        return SymList(s)
    if isinstance(v, IsliceV):
        return SymList(v.take_all(i))
    if isinstance(v, SymList):
        return SymList(v.seq, v.elem_wrap)
    if isinstance(v, SymTuple):
        return SymList(v.seq)
    r = _run("to_list", i, v, node)
    if r is not NotImplemented:
        return r
    return PyList(i.concrete_items(v, node))


@model("isinstance", "isinstance by declared class", builtin=True)
def _isinstance(i, args, kw, node, fr):
    return i.isinstance_(args[0], args[1], node)


@model("int", "int(x) on ints is identity; int(str(i)) == i", builtin=True)
def _int(i, args, kw, node, fr):
    (v,) = args
    if isinstance(v, bool):
        return int(v)
    if isinstance(v, int) or is_sym_int(v):
        return v
    if isinstance(v, str):
        try:
            return int(v)
        except ValueError:
            raise i_raise("ValueError", node)
    if is_sym_bool(v):
        return z3.If(v, 1, 0)
    r = _run("int", i, v, node)
    if r is not NotImplemented:
        return r
    raise Unsupported("int(%r)" % (v,), node)


@model("float", "float(x): int -> real embedding", builtin=True)
def _float(i, args, kw, node, fr):
    (v,) = args
    if isinstance(v, (int, float)):
        return float(v)
    if is_sym_int(v):
        return z3.ToReal(v)
    if is_sym_real(v):
        return v
    raise Unsupported("float(%r)" % (v,), node)


@model("bool", "bool(x): truthiness", builtin=True)
def _bool(i, args, kw, node, fr):
    return i.truth(args[0], node)


@model("str", "str(x): opaque unless concrete", builtin=True)
def _str(i, args, kw, node, fr):
    (v,) = args
    if isinstance(v, (int, str, float, bool)) and not is_z3(v):
        return str(v)
    r = _run("str", i, v, node)
    if r is not NotImplemented:
        return r
    raise Unsupported("str(%r)" % (v,), node)


def i_raise(name, node):
    from ..engine import PyRaise
    return PyRaise(ExcVal(name), node)


@model("min", "min of ints", builtin=True)
def _min(i, args, kw, node, fr):
    items = args if len(args) > 1 else i.concrete_items(args[0], node)
    r = items[0]
    for x in items[1:]:
        if not is_z3(r) and not is_z3(x):
            r = min(r, x)
        else:
            a, b = to_z3(r), to_z3(x)
            r = z3.If(b < a, b, a)
    return r


@model("max", "max of ints", builtin=True)
def _max(i, args, kw, node, fr):
    items = args if len(args) > 1 else i.concrete_items(args[0], node)
    r = items[0]
    for x in items[1:]:
        if not is_z3(r) and not is_z3(x):
            r = max(r, x)
        else:
            a, b = to_z3(r), to_z3(x)
            r = z3.If(b > a, b, a)
    return r


@model("abs", "abs", builtin=True)
def _abs(i, args, kw, node, fr):
    (v,) = args
    if not is_z3(v):
        return abs(v)
    return z3.If(v < 0, -v, v)


@model("type", "type(x): declared class", builtin=True)
def _type(i, args, kw, node, fr):
    (v,) = args
    if isinstance(v, Obj):
        return v.cls
    if isinstance(v, AObj):
        from ..spec import CLASS_QUAL
        if v.clsname in CLASS_QUAL:
            return i.ctx.classref(CLASS_QUAL[v.clsname])  # an abstract view is declared to be exactly of that class
    raise Unsupported("type(%r)" % (v,), node)


for _n in ("ValueError", "AssertionError", "KeyError", "IndexError", "TypeError", "RuntimeError",
           "NotImplementedError", "Exception", "FileNotFoundError", "ZeroDivisionError", "StopIteration"):
    def _mk(n):
        def f(i, args, kw, node, fr):
            return ExcVal(n, tuple(args))
        return f
    BUILTINS[_n] = _mk(_n)


# --------------------------------------------------------------------------- itertools / collections

class IsliceV:
    def __init__(self, gen, n):
        self.gen, self.n = gen, n

    def take_all(self, i):
        g = self.gen
        rem = g.seq.length - g.pos
        n = to_z3(self.n, Int)
        m = z3.If(n < rem, n, rem)
        m = z3.If(m < 0, 0, m)
        s = seq_slice(i, g.seq, g.pos, g.pos + m)
        g.pos = g.pos + m
        return s


@model("itertools.islice", "islice(gen, n): the next min(n, remaining) items of gen, advancing it", False)
def _islice(i, args, kw, node, fr):
    from ..engine import GenV
    g, n = args[0], args[1]
    if len(args) > 2:
        raise Unsupported("islice with start/stop/step", node)
    if isinstance(g, GenV) and isinstance(g.seq, Seq):
        return IsliceV(g, n)
    if isinstance(g, GenV) and isinstance(g.seq, PyList) and isinstance(n, int):
        items = g.seq.items[g.pos:g.pos + n]
        g.pos += len(items)
        return PyList(items)
    raise Unsupported("islice over %r" % (g,), node)


@model("collections.deque", "deque(it, maxlen=0): consumes the iterator entirely, keeps nothing", False)
def _deque(i, args, kw, node, fr):
    if kw.get("maxlen") == 0 and args:
        v = args[0]
        if isinstance(v, IsliceV):
            g = v.gen
            rem = g.seq.length - g.pos
            n = to_z3(v.n, Int)
            m = z3.If(n < rem, n, rem)
            m = z3.If(m < 0, 0, m)
            g.pos = g.pos + m
            return None
        if isinstance(v, PyList):
            return None
    raise Unsupported("collections.deque use", node)


@model("collections.defaultdict", "defaultdict(int|list)", False)
def _defaultdict(i, args, kw, node, fr):
    (f,) = args
    if isinstance(f, Builtin) and f.name in ("int", "list"):
        r = _run("defaultdict", i, f.name, node)
        if r is not NotImplemented:
            return r
        return PyDict(default=f.name)
    raise Unsupported("defaultdict factory %r" % (f,), node)


# --------------------------------------------------------------------------- hooks for SymTuple / GenV etc.

@hook("getitem")
def _gi_symtuple(i, v, idx, node):
    if isinstance(v, SymTuple):
        return seq_getitem(i, SymList(v.seq), idx, node)
    return NotImplemented


@hook("contains")
def _contains_symlist(i, c, x, node):
    if isinstance(c, (SymList, SymTuple)):
        seq = c.seq
        if isinstance(seq.cols, tuple):
            raise Unsupported("'in' on a symbolic list of tuples", node)
        xt = x.term if isinstance(x, AObj) else to_z3(x, seq.cols.sort().range())
        j = z3.Int("j!in")
        return z3.Exists([j], z3.And(j >= 0, j < seq.length, z3.Select(seq.cols, j) == xt))
    return NotImplemented


@hook("len")
def _len_symtuple(i, v, node):
    if isinstance(v, SymTuple):
        return v.seq.length
    return NotImplemented


@hook("sym_iter")
def _si_misc(i, v, node):
    if isinstance(v, SymTuple):
        return v.seq.length, v.seq.get
    return NotImplemented


@hook("getattr")
def _ga_containers(i, v, name, node, fr):
    if isinstance(v, (PyList, SymList)) and name == "append":
        def app(interp, self_, args, kw, node2, fr2):
            if isinstance(self_, PyList):
                self_.items.append(args[0])
            else:
                seq_append(interp, self_, args[0], node2)
            return None
        return BoundMethod(v, app)
    if isinstance(v, SymList) and name == "extend":
        def ext2(interp, self_, args, kw, node2, fr2):
            if not isinstance(args[0], (SymList, PyList)):
                raise Unsupported("list.extend(%r)" % (args[0],), node2)
            r = seq_concat(interp, self_, args[0], node2)
            self_.seq = r.seq
            return None
        return BoundMethod(v, ext2)
    if isinstance(v, PyList) and name == "extend":
        def ext(interp, self_, args, kw, node2, fr2):
            self_.items.extend(interp.concrete_items(args[0], node2))
            return None
        return BoundMethod(v, ext)
    if isinstance(v, PyDict):
        if name == "items":
            return BoundMethod(v, lambda interp, s, a, k, n, f: PyList([(kk, vv) for kk, vv in s.items.items()]))
        if name == "keys":
            return BoundMethod(v, lambda interp, s, a, k, n, f: PyList(list(s.items.keys())))
        if name == "values":
            return BoundMethod(v, lambda interp, s, a, k, n, f: PyList(list(s.items.values())))
        if name == "get":
            def get(interp, s, a, k, n, f):
                if not V_is_conc_key(a[0]):
                    raise Unsupported("dict.get with symbolic key", n)
                return s.items.get(a[0], a[1] if len(a) > 1 else None)
            return BoundMethod(v, get)
        if name == "update":
            def upd(interp, s, a, k, n, f):
                o = a[0]
                if isinstance(o, PyDict):
                    s.items.update(o.items)
                    return None
                if isinstance(o, PyList):
                    for kk, vv in o.items:
                        s.items[kk] = vv
                    return None
                raise Unsupported("dict.update(%r)" % (o,), n)
            return BoundMethod(v, upd)
    return NotImplemented


def V_is_conc_key(k):
    from ..engine import _is_conc_key
    return _is_conc_key(k)


def _contract_comprehension(i, node, fr, kind):
    """[f(..x..) for x in <symbolic iterable>] where f has a verified contract with `elem_returns` (an abstract
    object type) and modifies nothing: the result is a list of fresh tokens T_k with  forall k. ensures_f(args[x:=it[k]], T_k);
    obligations: forall k. requires_f and not raises_f."""
    from ..engine import Frame, BoundMethod as BM
    from ..spec import REGISTRY, NS, named
    from ..engine import _aslist
    if kind != "list" or len(node.generators) != 1 or node.generators[0].ifs or not isinstance(node.elt, ast.Call):
        return NotImplemented
    g = node.generators[0]
    it = i.eval(g.iter, fr)
    sym = i.sym_iter(it, node)
    if sym is None:
        return NotImplemented
    L, get = sym
    sub = Frame(fr.module, fr.fn_node, fr.qualname, dict(fr.locals), fr.depth, fr.cls)
    sub.closure_env = builtins.getattr(fr, "closure_env", None)
    k = z3.Int("k!comp%d" % builtins.getattr(node, "lineno", 0))
    i.assign(g.target, get(k), sub)
    f = i.eval(node.elt.func, sub)
    clo = f.func if isinstance(f, BM) else f
    q = builtins.getattr(clo, "qualname", None)
    ct = REGISTRY.get(q) if q else None
    et = builtins.getattr(ct, "elem_returns", None) if ct is not None else None
    if et is None or clo.node is None:
        raise Unsupported("comprehension over a symbolic-length iterable whose element is not a contract call with elem_returns", node)
    args = [i.eval(x, sub) for x in node.elt.args]
    kwargs = {kw.arg: i.eval(kw.value, sub) for kw in node.elt.keywords}
    if isinstance(f, BM):
        args = [f.self_val] + args
    loc = i.bind_args(clo.node, args, kwargs, node, clo)
    loc["old"] = NS(dict(loc), "entry value")
    a = NS(loc, "argument")
    rng = z3.And(k >= 0, k < L)
    label = i._cur_label
    ln = builtins.getattr(node, "lineno", "?")
    for rq in ct._requires:
        for nm, fm in named(_aslist(rq(a)), "pre"):
            i.ctx.prove("%s/comp:%s:%s@%s" % (label, q.rsplit(".", 1)[-1], nm, ln), z3.ForAll([k], z3.Implies(rng, fm)), node, "call")
    for exc, when, iff in ct._raises:
        c = when(a)
        i.ctx.prove("%s/comp:%s:noraise:%s@%s" % (label, q.rsplit(".", 1)[-1], exc, ln),
                    z3.ForAll([k], z3.Implies(rng, z3.Not(c) if is_z3(c) else z3.BoolVal(not c))), node, "call")
    toks = i.ctx.fresh("comp_tokens", z3.ArraySort(Int, et.sort))
    ret = AObj(et.clsname, z3.Select(toks, k))
    for nm, e in ct._ensures:
        for fm in _aslist(e(a, ret, i)):
            fm = fm[1] if isinstance(fm, tuple) else fm
            fm = fm if is_z3(fm) else z3.BoolVal(bool(fm))
            i.ctx.assume(z3.ForAll([k], z3.Implies(rng, fm), patterns=[z3.Select(toks, k)]))
    cn = et.clsname
    return SymList(Seq(L, toks), elem_wrap=lambda t: AObj(cn, t))


TRUSTED["list comprehension over a symbolic iterable"] = (
    "[f(x) for x in xs] = the list whose k-th element satisfies f's (verified) postcondition for xs[k]; f must be effect-free")


def comprehension(i, node, fr, kind):
    """Comprehensions over concrete-length iterables are unrolled; symbolic ones go to handlers."""
    r = _run("comprehension", i, node, fr, kind)
    if r is not NotImplemented:
        return r
    r = _contract_comprehension(i, node, fr, kind)
    if r is not NotImplemented:
        return r
    from ..engine import Frame
    gens = node.generators
    out = []
    sub = Frame(fr.module, fr.fn_node, fr.qualname, dict(fr.locals), fr.depth, fr.cls)
    sub.closure_env = builtins.getattr(fr, "closure_env", None)
    sub.loop_keys = fr.loop_keys

    def rec(gi):
        if gi == len(gens):
            if kind == "dict":
                out.append((i.eval(node.key, sub), i.eval(node.value, sub)))
            else:
                out.append(i.eval(node.elt, sub))
            return
        g = gens[gi]
        it = i.eval(g.iter, sub)
        if i.sym_iter(it, node) is not None:
            raise Unsupported("comprehension over a symbolic-length iterable", node)
        for x in i.concrete_items(it, node):
            i.assign(g.target, x, sub)
            if all(i.branch(i.eval(c, sub), node) for c in g.ifs):
                rec(gi + 1)
    rec(0)
    if kind == "dict":
        d = PyDict()
        for k, v in out:
            d.items[k] = v
        return d
    if kind == "set":
        return make_set(i, out, node)
    return PyList(out)


from . import rng  # noqa  (registers numpy.random models)
from . import misc  # noqa
from . import maps  # noqa
from . import strings  # noqa
from . import arrays  # noqa
from . import np_core  # noqa
from . import h5  # noqa


from . import np_setops  # noqa
from . import np_real  # noqa
from . import comp  # noqa
from . import fs  # noqa


def on_new_path(i):
    for f in strings.base_axioms():
        i.ctx.assume(f)
    for f in arrays.val_axioms():
        i.ctx.assume(f)
