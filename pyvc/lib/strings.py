"""Opaque strings: names are elements of the uninterpreted sort Str; Python literals map to strlit(id) with
strlit injective (distinct literals are distinct strings)."""
import z3
from ..values import *  # noqa
from . import hook, TRUSTED

strlit = z3.Function("strlit", Int, Str)
_ids = {}


def str_const(s):
    if s not in _ids:
        _ids[s] = len(_ids)
    return strlit(z3.IntVal(_ids[s]))


def base_axioms():
    a, b = z3.Ints("a!sl b!sl")
    return [z3.ForAll([a, b], z3.Implies(strlit(a) == strlit(b), a == b), patterns=[z3.MultiPattern(strlit(a), strlit(b))])]


@hook("str_equal")
def _seq(i, a, b, node):
    if isinstance(a, str) and is_z3(b) and b.sort() == Str:
        return str_const(a) == b
    if isinstance(b, str) and is_z3(a) and a.sort() == Str:
        return a == str_const(b)
    return NotImplemented


TRUSTED["string literals"] = "distinct Python string literals denote distinct strings (strlit injective); names are otherwise opaque"
