"""scipy / math models."""
import z3
from ..values import *  # noqa
from . import model

# binomial coefficient as an uninterpreted function; facts about it are Lean-proved lemmas that the
# contracts instantiate explicitly
C = z3.Function("C", Int, Int, Int)


@model("scipy.special.comb", "comb(n, k, exact=True) = C(n,k) (binomial coefficient, Python int)")
def _comb(i, args, kw, node, fr):
    n, k = args[0], args[1]
    if kw.get("exact") is not True:
        raise Unsupported("comb without exact=True (float result)", node)
    if isinstance(n, int) and isinstance(k, int):
        import math
        return math.comb(n, k) if 0 <= k <= n else 0
    return C(to_z3(n, Int), to_z3(k, Int))

from . import hook  # noqa


@hook("getattr")
def _str_methods(i, v, name, node, fr):
    if isinstance(v, str):
        if name == "format" and v != "--excludes={}":
            return BoundMethod(v, lambda interp, s, a, k, n, f: "<formatted:%s>" % getattr(n, "lineno", "?"))
        if name == "join":
            def _join(interp, s, a, k, n, f):
                if len(a) == 1 and isinstance(a[0], SymList):
                    from .fs import Joined
                    return Joined(s, a[0])  # kept symbolic: the script passes such a list on a command line
                return "<joined:%s>" % getattr(n, "lineno", "?")
            return BoundMethod(v, _join)
    return NotImplemented

ceil_mul = z3.Function("ceil_mul", Int, Real, Int)  # math.ceil(n * f) as ONE uninterpreted function (the float product is not re-interpreted)


@model("math.ceil", "ceil(n * f) = ceil_mul(n, f): an integer with 0 <= ceil_mul(n,f) <= n whenever n >= 0 and 0 <= f <= 1; ceil_mul(n,0)=0, ceil_mul(n,1)=n")
def _ceil(i, args, kw, node, fr):
    (v,) = args
    if isinstance(v, (int, float)):
        import math
        return math.ceil(v)
    if is_sym_int(v):
        return v
    # recognise the product  int * real
    if z3.is_mul(v) and len(v.children()) == 2:
        a, b = v.children()
        for x, y in ((a, b), (b, a)):
            if z3.is_to_real(x):
                n_, f_ = x.arg(0), y
                r = ceil_mul(n_, f_)
                i.ctx.assume(z3.Implies(z3.And(n_ >= 0, f_ >= 0, f_ <= 1), z3.And(r >= 0, r <= n_)))
                i.ctx.assume(z3.Implies(f_ == 0, r == 0))
                i.ctx.assume(z3.Implies(f_ == 1, r == n_))
                return r
    raise Unsupported("math.ceil of %s" % v, node)


@hook("getattr")
def _scalar_methods(i, v, name, node, fr):
    """numpy scalar methods on symbolic numbers"""
    if is_z3(v) and v.sort() in (Int, Real, Bool, Val) and name == "item":
        return BoundMethod(v, lambda interp, s, a, k, n, f: s)
    if isinstance(v, (int, float)) and name == "item":
        return BoundMethod(v, lambda interp, s, a, k, n, f: s)
    return NotImplemented


class ModuleV:
    """a module object obtained from importlib.import_module(<literal name>)"""

    def __init__(self, name):
        self.name = name


from . import model as _model  # noqa


@_model("importlib.import_module", "import_module(name) for a literal dotted name: the module; getattr(module, cls) is that class")
def _import_module(i, args, kw, node, fr):
    if not isinstance(args[0], str):
        raise Unsupported("importlib.import_module of a symbolic name", node)
    return ModuleV(args[0])


@hook("getattr")
def _module_attr(i, v, name, node, fr):
    if isinstance(v, ModuleV):
        return i.ctx.classref(v.name + "." + name)
    return NotImplemented


@_model("getattr", "getattr(obj, <literal name>) = obj.<name>", builtin=True)
def _getattr_builtin(i, args, kw, node, fr):
    if len(args) != 2 or not isinstance(args[1], str):
        raise Unsupported("getattr with a symbolic name or a default", node)
    return i.getattr(args[0], args[1], node, fr)
