"""scipy / math models."""
import z3
from ..values import *  # noqa
from . import model

# binomial coefficient as an uninterpreted function; facts about it are Lean-proved lemmas that the
# contracts instantiate explicitly
C = z3.Function("C", Int, Int, Int)


@model("scipy.special.comb", "comb(n, k, exact=True) = C(n,k) (binomial coefficient, Python int)")
def _comb(i, args, kw, node, fr):
    n, k = args[0], args[1]
    if kw.get("exact") is not True:
        raise Unsupported("comb without exact=True (float result)", node)
    if isinstance(n, int) and isinstance(k, int):
        import math
        return math.comb(n, k) if 0 <= k <= n else 0
    return C(to_z3(n, Int), to_z3(k, Int))

from . import hook  # noqa


@hook("getattr")
def _str_methods(i, v, name, node, fr):
    if isinstance(v, str):
        if name == "format":
            return BoundMethod(v, lambda interp, s, a, k, n, f: "<formatted:%s>" % getattr(n, "lineno", "?"))
        if name == "join":
            return BoundMethod(v, lambda interp, s, a, k, n, f: "<joined:%s>" % getattr(n, "lineno", "?"))
    return NotImplemented
