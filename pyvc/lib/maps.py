"""Dictionaries and sets with *symbolic* keys.

SymMap models a Python dict (insertion ordered):
   val : Array(K -> V), dom : Array(K -> Bool), keys : Seq of K (insertion order), pos : Array(K -> Int)
   WF:  forall k. dom[k] <=> 0 <= pos[k] < len(keys) & keys[pos[k]] == k
        forall j. 0 <= j < len(keys) -> dom[keys[j]] & pos[keys[j]] == j          (keys pairwise distinct)
Sorts are fixed lazily at the first insertion.  defaultdict(int): reading a missing key inserts 0.
SymSet models a set: dom only.
"""
import z3
from ..values import *  # noqa
from .. import values as V
from . import model, hook, TRUSTED, BUILTINS


def _zv(v):
    if isinstance(v, AObj):
        return v.term
    return to_z3(v) if not is_z3(v) else v


class SymMap:
    def __init__(self, default=None):
        self.default = default
        self.ready = False
        self.val = self.dom = self.pos = self.keys = None
        self.key_wrap = None

    def init(self, i, k, v):
        ks, vs = k.sort(), v.sort()
        self.val = z3.K(ks, v if self.default is None else _zero(vs))
        self.dom = z3.K(ks, z3.BoolVal(False))
        self.pos = z3.K(ks, z3.IntVal(-1))
        self.keys = Seq(z3.IntVal(0), i.ctx.fresh("mapkeys", z3.ArraySort(Int, ks)))
        self.ready = True

    def init_sorts(self, i, ks, vs):
        self.val = z3.K(ks, _zero(vs) if self.default is not None else i.ctx.fresh("mapdefault", vs))
        self.dom = z3.K(ks, z3.BoolVal(False))
        self.pos = z3.K(ks, z3.IntVal(-1))
        self.keys = Seq(z3.IntVal(0), i.ctx.fresh("mapkeys", z3.ArraySort(Int, ks)))
        self.ready = True

    def wf(self):
        ks = self.dom.sort().domain()
        k = z3.Const("k!wf", ks)
        j = z3.Int("j!wf")
        n = self.keys.length
        kj = z3.Select(self.keys.cols, j)
        return [
            n >= 0,
            z3.ForAll([k], z3.Select(self.dom, k) == z3.And(z3.Select(self.pos, k) >= 0, z3.Select(self.pos, k) < n,
                                                              z3.Select(self.keys.cols, z3.Select(self.pos, k)) == k),
                      patterns=[z3.Select(self.dom, k), z3.Select(self.pos, k)]),
            z3.ForAll([j], z3.Implies(z3.And(j >= 0, j < n), z3.And(z3.Select(self.dom, kj), z3.Select(self.pos, kj) == j)),
                      patterns=[kj]),
        ]

    def insert_new(self, i, k, v):
        n = self.keys.length
        self.val = z3.Store(self.val, k, v)
        self.dom = z3.Store(self.dom, k, z3.BoolVal(True))
        self.pos = z3.Store(self.pos, k, n)
        self.keys = Seq(n + 1, z3.Store(self.keys.cols, n, k))

    def snapshot(self):
        m = SymMap(self.default)
        m.ready, m.val, m.dom, m.pos, m.keys, m.key_wrap = self.ready, self.val, self.dom, self.pos, self.keys, self.key_wrap
        return m


def _zero(sort):
    if sort == Int:
        return z3.IntVal(0)
    if sort == Real:
        return z3.RealVal(0)
    raise Unsupported("defaultdict(int) with value sort %s" % sort)


class SymSet:
    def __init__(self):
        self.ready = False
        self.dom = None

    def init(self, k):
        self.dom = z3.K(k.sort(), z3.BoolVal(False))
        self.ready = True

    def init_sorts(self, i, ks, vs=None):
        self.dom = z3.K(ks, z3.BoolVal(False))
        self.ready = True


@hook("defaultdict")
def _dd(i, kind, node):
    if kind == "int":
        return SymMap(default="int")
    return NotImplemented


@model("set", "set(): empty set; membership only", builtin=True)
def _set(i, args, kw, node, fr):
    if args:
        raise Unsupported("set(iterable)", node)
    return SymSet()


@model("dict", "dict(): empty insertion-ordered map", builtin=True)
def _dict(i, args, kw, node, fr):
    if args or kw:
        raise Unsupported("dict(...) with arguments", node)
    return SymMap()


@hook("getitem")
def _gi(i, m, idx, node):
    if not isinstance(m, SymMap):
        return NotImplemented
    k = _zv(idx)
    if not m.ready:
        if m.default == "int":
            m.init(i, k, z3.IntVal(0))
        else:
            from ..engine import PyRaise
            raise PyRaise(ExcVal("KeyError"), node)
    if i.ctx.decide(z3.Select(m.dom, k)):
        w = getattr(m, "val_wrap", None)
        return w(z3.Select(m.val, k)) if w else z3.Select(m.val, k)
    if m.default == "int":
        m.insert_new(i, k, _zero(m.val.sort().range()))
        return z3.Select(m.val, k)
    from ..engine import PyRaise
    raise PyRaise(ExcVal("KeyError"), node)


@hook("setitem")
def _si(i, m, idx, val, node):
    if not isinstance(m, SymMap):
        return NotImplemented
    k, v = _zv(idx), _zv(val)
    if not m.ready:
        m.init(i, k, v)
    if i.ctx.decide(z3.Select(m.dom, k)):
        m.val = z3.Store(m.val, k, v)
    else:
        m.insert_new(i, k, v)
    return None


@hook("contains")
def _contains(i, c, x, node):
    if isinstance(c, SymMap):
        if not c.ready:
            return False
        return z3.Select(c.dom, _zv(x))
    if isinstance(c, SymSet):
        if not c.ready:
            return False
        return z3.Select(c.dom, _zv(x))
    return NotImplemented


@hook("len")
def _len(i, v, node):
    if isinstance(v, SymMap):
        return v.keys.length if v.ready else 0
    return NotImplemented


@hook("truth")
def _truth(i, v, node):
    if isinstance(v, SymMap):
        return (v.keys.length > 0) if v.ready else False
    return NotImplemented


class ItemsV:
    def __init__(self, m, what):
        self.m, self.what = m, what


@hook("getattr")
def _ga(i, v, name, node, fr):
    if isinstance(v, SymMap):
        if name in ("items", "keys", "values"):
            return BoundMethod(v, lambda interp, s, a, k, n, f, _w=name: ItemsV(s, _w))
    if isinstance(v, SymSet) and name == "add":
        def add(interp, s, a, k, n, f):
            x = _zv(a[0])
            if not s.ready:
                s.init(x)
            s.dom = z3.Store(s.dom, x, z3.BoolVal(True))
            return None
        return BoundMethod(v, add)
    return NotImplemented


@hook("sym_iter")
def _iter(i, v, node):
    if isinstance(v, SymMap):
        v = ItemsV(v, "keys")
    if isinstance(v, ItemsV):
        m = v.m
        if not m.ready:
            # provably empty so far: iterate zero times, but the map may be typed later; treat as empty
            return z3.IntVal(0), (lambda k: None)
        keys, val = m.keys, m.val

        w = getattr(m, "val_wrap", None) or (lambda x: x)

        def get(j):
            kk = z3.Select(keys.cols, j)
            if v.what == "items":
                return (kk, w(z3.Select(val, kk)))
            if v.what == "keys":
                return kk
            return w(z3.Select(val, kk))
        return keys.length, get
    return NotImplemented


@hook("havoc_object")
def _havoc(i, v, name, node):
    ctx = i.ctx
    if isinstance(v, SymMap):
        if not v.ready:
            raise Unsupported("map %r is mutated in an invariant loop before its key/value sorts are known; "
                              "give the loop spec types= for it" % name, node)
        v.val = ctx.fresh(name + "_val", v.val.sort())
        v.dom = ctx.fresh(name + "_dom", v.dom.sort())
        v.pos = ctx.fresh(name + "_pos", v.pos.sort())
        v.keys = Seq(ctx.fresh(name + "_n", Int), ctx.fresh(name + "_keys", v.keys.cols.sort()))
        for f in v.wf():
            ctx.assume(f)
        return True
    if isinstance(v, SymSet):
        if not v.ready:
            raise Unsupported("set %r is mutated in an invariant loop before its element sort is known" % name, node)
        v.dom = ctx.fresh(name + "_dom", v.dom.sort())
        return True
    return NotImplemented


@hook("snapshot")
def _snap(i, v):
    if isinstance(v, SymMap):
        return v.snapshot()
    return NotImplemented


def typed_map(i, key_sort, val_sort, default=None):
    """Helper for loop specs: an already-typed empty map."""
    m = SymMap(default)
    m.val = z3.K(key_sort, _zero(val_sort))
    m.dom = z3.K(key_sort, z3.BoolVal(False))
    m.pos = z3.K(key_sort, z3.IntVal(-1))
    m.keys = Seq(z3.IntVal(0), i.ctx.fresh("mapkeys", z3.ArraySort(Int, key_sort)))
    m.ready = True
    return m


TRUSTED["dict/defaultdict (symbolic keys)"] = "insertion-ordered finite map; defaultdict(int)[missing] inserts 0; iteration in insertion order"
TRUSTED["set (symbolic elements)"] = "membership only; add is idempotent"


# ------------------------------------------------------------------ a dictionary of index lists (defaultdict(list) filled with row numbers), read-only view
class IdxFamily:
    """family of integer lists indexed by an integer key: member c is the list of length len(c) with entries arr(c)[k]; both are
    uninterpreted functions of c (the contract states what the lists contain)"""

    def __init__(self, name):
        self.name = name
        self.len = z3.Function("idxfam_len!%s" % name, Int, Int)
        self.arr = z3.Function("idxfam_arr!%s" % name, Int, z3.ArraySort(Int, Int))

    def member(self, c):
        return Seq(self.len(c), self.arr(c))


from ..spec import Type as _Type  # noqa


class TIdxFamily(_Type):
    def __init__(self, name):
        self.name = name

    def fresh(self, ctx, name):
        f = IdxFamily(self.name)
        c = z3.Int("c!idf")
        ctx.assume(z3.ForAll([c], f.len(c) >= 0, patterns=[f.len(c)]))
        return f


@hook("getitem")
def _idxfam_get(i, v, ix, node):
    if isinstance(v, IdxFamily):
        c = to_z3(ix, Int) if not is_z3(ix) else ix
        return SymList(v.member(c))
    return NotImplemented
