"""Abstract file system for the orchestration script (nextflow/scripts/batchie.py) — ASSUMED contracts on
glob / os.path / os.makedirs / shutil.rmtree / open / json / subprocess.

The output directory is a tree  Root / iter_<i> / plate_<j> / <experiment name> / <published files>.  Paths are terms of the
datatype  Path = Root | Iter(i) | Job(i,j) | File(kind,i,j,n) | Ext(n)   (the experiment-name level is abstracted: the
script only ever addresses it with the glob component "*").  State (ghost, ctx.ghost['fs'], functional arrays so that
mutations are Stores):
    ex_iter[i], dir_iter[i]       an entry named iter_<i> exists in Root / is a directory
    ex_job[i][j], dir_job[i][j]   an entry named plate_<j> exists in Iter(i) / is a directory
    nf[kind][i][j]                number of files of that kind published under Job(i,j)/*/
Naming assumption (stated in TRUSTED): every entry matching iter_* / plate_* is named iter_<n> / plate_<n> for a decimal
n >= 0 (the script itself creates only such names), so dir_sort_key's  int(basename.split('_')[1])  is n.
"""
import ast
import z3
from ..values import *  # noqa
from . import model, hook, TRUSTED, FUNCS, VALUES

_P = z3.Datatype("Path")
_P.declare("Root")
_P.declare("Iter", ("it", Int))
_P.declare("Job", ("ji", Int), ("jj", Int))
_P.declare("File", ("fk", Int), ("fi", Int), ("fj", Int), ("fn", Int))
_P.declare("Ext", ("xn", Int))
Path = _P.create()
PATH = "fs.Path"
META = "fs.Meta"
KINDS = {"screen_metadata.json": 0, "advanced_screen.h5": 1, "training.screen.h5": 2, "test.screen.h5": 3, "selected_plate": 4,
         "thetas*.h5": 5, "distance_matrix_chunk*.h5": 6}
NKINDS = len(KINDS)
WORK = 99
A1 = z3.ArraySort(Int, Bool)
A2 = z3.ArraySort(Int, z3.ArraySort(Int, Bool))
A3 = z3.ArraySort(Int, z3.ArraySort(Int, z3.ArraySort(Int, Int)))
meta_of = z3.Function("meta_of", Path, Ref)  # parsed json content of a metadata file
content_of = z3.Function("content_of", Path, Str)  # stripped text content of a file
n_unobserved = z3.Function("Meta.n_unobserved_plates", Ref, Int)


def P(t):
    return AObj(PATH, t)


def is_path(v):
    return isinstance(v, AObj) and v.clsname == PATH


class FS:
    """one version of the file-system state"""
    FIELDS = [("ex_iter", A1), ("dir_iter", A1), ("ex_job", A2), ("dir_job", A2), ("nf", A3)]

    def __init__(self, **kw):
        self.__dict__.update(kw)

    @staticmethod
    def fresh(ctx, name="fs"):
        return FS(**{f: ctx.fresh("%s_%s" % (name, f), s) for f, s in FS.FIELDS})

    def with_(self, **kw):
        d = {f: getattr(self, f) for f, _ in FS.FIELDS}
        d.update(kw)
        return FS(**d)

    # spec-level readings
    def iter_dir(self, i):
        return z3.And(z3.Select(self.ex_iter, i), z3.Select(self.dir_iter, i))

    def job_dir(self, i, j):
        return z3.And(z3.Select(z3.Select(self.ex_job, i), j), z3.Select(z3.Select(self.dir_job, i), j))

    def nfiles(self, kind, i, j):
        k = KINDS[kind] if isinstance(kind, str) else kind
        return z3.Select(z3.Select(z3.Select(self.nf, k), i), j)

    def wf(self):
        k, i, j = z3.Ints("k!fs i!fs j!fs")
        return [z3.ForAll([k, i, j], self.nfiles(k, i, j) >= 0, patterns=[self.nfiles(k, i, j)])]


# pure state transformers (used by the models below and by the crash-invariant lemmas of contracts/c19.py)
def mk_iter(fs, a):
    return fs.with_(ex_iter=z3.Store(fs.ex_iter, a, True), dir_iter=z3.Store(fs.dir_iter, a, True))


def mk_job(fs, a, b):
    f1 = mk_iter(fs, a)
    return f1.with_(ex_job=z3.Store(f1.ex_job, a, z3.Store(z3.Select(f1.ex_job, a), b, True)),
                    dir_job=z3.Store(f1.dir_job, a, z3.Store(z3.Select(f1.dir_job, a), b, True)))


def rm_job(fs, a, b):
    nf = fs.nf
    for kd in range(NKINDS):
        nf = z3.Store(nf, kd, z3.Store(z3.Select(nf, kd), a, z3.Store(z3.Select(z3.Select(nf, kd), a), b, 0)))
    return fs.with_(ex_job=z3.Store(fs.ex_job, a, z3.Store(z3.Select(fs.ex_job, a), b, False)), nf=nf)


def run_facts(fs, new_nf, a, b):
    """a pipeline run with --outdir Job(a,b): any non-negative file counts there, every other count unchanged"""
    kk, ii, jj = z3.Ints("k!run i!run j!run")
    sel = lambda arr: z3.Select(z3.Select(z3.Select(arr, kk), ii), jj)  # noqa
    return z3.ForAll([kk, ii, jj], z3.And(sel(new_nf) >= 0, z3.Implies(z3.Not(z3.And(ii == a, jj == b)), sel(new_nf) == sel(fs.nf))), patterns=[sel(new_nf)])


def state(i):
    g = i.ctx.ghost
    if "fs" not in g:
        g["fs"] = FS.fresh(i.ctx)
        for f in g["fs"].wf():
            i.ctx.assume(f)
    return g["fs"]


def set_state(i, fs):
    i.ctx.ghost["fs"] = fs
    i.ctx.ghost.setdefault("fs_log", []).append(fs)


class PatV:
    """glob pattern: base path + literal components"""

    def __init__(self, base, parts):
        self.base, self.parts = base, tuple(parts)


class FStr:
    """f-string / concatenation of literal text and integer values"""

    def __init__(self, parts):
        self.parts = parts  # list of str | z3 Int | int


def _split_name(parts):
    """('iter_', n) -> ('iter', n) ; 'iter_0' -> ('iter', 0)"""
    if isinstance(parts, str):
        for pre in ("iter_", "plate_"):
            if parts.startswith(pre) and parts[len(pre):].isdigit():
                return pre[:-1], int(parts[len(pre):])
        return None
    if isinstance(parts, FStr) and len(parts.parts) == 2 and parts.parts[0] in ("iter_", "plate_") and (is_sym_int(parts.parts[1]) or isinstance(parts.parts[1], int)):
        return parts.parts[0][:-1], parts.parts[1]
    return None


@hook("binop")
def _concat(i, op, a, b, node):
    if isinstance(op, ast.Add) and is_path(a) and isinstance(b, str) and b.startswith("/"):
        return _join(i, a, [b[1:]], node)
    return NotImplemented


def _join(i, base, comps, node):
    cur = base
    rest = list(comps)
    while rest:
        c = rest[0]
        if isinstance(c, str) and "*" in c:
            return PatV(cur, rest)
        nm = _split_name(c)
        t = cur.term
        if c == "work" and len(rest) == 1 and _is(i, Path.is_Job(t)):
            return P(Path.File(WORK, Path.ji(t), Path.jj(t), 0))  # nextflow's scratch directory inside the job directory
        if nm is None:
            raise Unsupported("path component %r" % (c,), node)
        kind, n = nm
        n = to_z3(n, Int)
        if kind == "iter" and _is(i, Path.is_Root(t)):
            cur = P(Path.Iter(n))
        elif kind == "plate" and _is(i, Path.is_Iter(t)):
            cur = P(Path.Job(Path.it(t), n))
        else:
            raise Unsupported("path %s / %r" % (t, c), node)
        rest = rest[1:]
    return cur


def _is(i, f, node=None):
    """path-kind test: decided syntactically when possible, otherwise turned into a proof obligation (then assumed)"""
    f = z3.simplify(f)
    if z3.is_true(f):
        return True
    if z3.is_false(f):
        return False
    if node is None:
        return not i.ctx.feasible(z3.Not(f))
    i.safe("path_kind", f, node)
    return True


@model("os.path.join", "os.path.join on the abstract tree: Root/iter_<i> = Iter(i), Iter(i)/plate_<j> = Job(i,j); components with * make a glob pattern")
def _os_join(i, args, kw, node, fr):
    if not is_path(args[0]):
        raise Unsupported("os.path.join on %r" % (args[0],), node)
    return _join(i, args[0], list(args[1:]), node)


@model("os.path.abspath", "abspath of an abstract path is itself")
def _abspath(i, args, kw, node, fr):
    return args[0]


def _listing(i, L, mk, name, alts=()):
    """SymList of L paths, k-th = mk(k)"""
    el = i.ctx.fresh(name, z3.ArraySort(Int, Path))
    k = z3.Int("k!gl")
    i.ctx.assume(z3.ForAll([k], z3.Implies(z3.And(k >= 0, k < L), z3.Select(el, k) == mk(k)), patterns=[z3.Select(el, k)] + [f(k) for f in alts]))
    return SymList(Seq(L, el), elem_wrap=P)


@model("glob.glob", "glob over the abstract tree: exactly the existing entries matching the pattern, each once, in an arbitrary order")
def _glob(i, args, kw, node, fr):
    pat = args[0]
    if not isinstance(pat, PatV):
        raise Unsupported("glob of %r" % (pat,), node)
    fs = state(i)
    ctx = i.ctx
    t = pat.base.term
    parts = pat.parts
    k, n = z3.Int("k!gl"), z3.Int("n!gl")
    if parts in (("iter_*",), ("plate_*",)):
        if parts == ("iter_*",):
            if not _is(i, Path.is_Root(t), node):
                raise Unsupported("glob iter_* under %s" % t, node)
            ex, mk = fs.ex_iter, (lambda x: Path.Iter(x))
        else:
            if not _is(i, Path.is_Iter(t), node):
                raise Unsupported("glob plate_* under %s" % t, node)
            ex, mk = z3.Select(fs.ex_job, Path.it(t)), (lambda x: Path.Job(Path.it(t), x))
        L = ctx.fresh("glob_n", Int)
        nums = ctx.fresh("glob_nums", z3.ArraySort(Int, Int))
        pos = ctx.fresh("glob_pos", z3.ArraySort(Int, Int))
        ctx.assume(L >= 0)
        nk = z3.Select(nums, k)
        ctx.assume(z3.ForAll([k], z3.Implies(z3.And(k >= 0, k < L), z3.And(nk >= 0, z3.Select(ex, nk), z3.Select(pos, nk) == k)), patterns=[z3.Select(nums, k)]))
        pn = z3.Select(pos, n)
        ctx.assume(z3.ForAll([n], z3.Implies(z3.Select(ex, n), z3.And(n >= 0, pn >= 0, pn < L, z3.Select(nums, pn) == n)), patterns=[z3.Select(ex, n)]))
        r = _listing(i, L, lambda kk: mk(z3.Select(nums, kk)), "glob", alts=[lambda kk: z3.Select(nums, kk)])
        r.glob_of = (nums, pos, L)
        return r
    if len(parts) == 2 and parts[0] == "*" and parts[1] in KINDS:
        if not _is(i, Path.is_Job(t), node):
            raise Unsupported("glob */%s under %s" % (parts[1], t), node)
        kd = KINDS[parts[1]]
        L = fs.nfiles(kd, Path.ji(t), Path.jj(t))
        return _listing(i, L, lambda kk: Path.File(kd, Path.ji(t), Path.jj(t), kk), "globf")
    if len(parts) == 3 and parts[0] == "plate_*" and parts[1] == "*" and parts[2] in KINDS:
        # files of one kind over all plate dirs of an iteration (get_selected_plates): an arbitrary-order listing of
        # { File(kind, i, j, n) : plate_<j> exists, n < nf[kind][i][j] }
        if not _is(i, Path.is_Iter(t), node):
            raise Unsupported("glob under %s" % t, node)
        kd = KINDS[parts[2]]
        it = Path.it(t)
        L = ctx.fresh("globs_n", Int)
        el = ctx.fresh("globs", z3.ArraySort(Int, Path))
        posf = z3.Function("globs_pos!%d" % ctx.fresh("id", Int).get_id(), Int, Int, Int)
        ctx.assume(L >= 0)
        ek = z3.Select(el, k)
        ctx.assume(z3.ForAll([k], z3.Implies(z3.And(k >= 0, k < L), z3.And(
            Path.is_File(ek), Path.fk(ek) == kd, Path.fi(ek) == it, Path.fn(ek) >= 0, Path.fn(ek) < fs.nfiles(kd, it, Path.fj(ek)),
            z3.Select(z3.Select(fs.ex_job, it), Path.fj(ek)), posf(Path.fj(ek), Path.fn(ek)) == k)), patterns=[z3.Select(el, k)]))
        j = z3.Int("j!gl")
        ctx.assume(z3.ForAll([j, n], z3.Implies(z3.And(z3.Select(z3.Select(fs.ex_job, it), j), n >= 0, n < fs.nfiles(kd, it, j)),
                                                z3.And(posf(j, n) >= 0, posf(j, n) < L, z3.Select(el, posf(j, n)) == Path.File(kd, it, j, n))),
                             patterns=[posf(j, n)]))
        r = SymList(Seq(L, el), elem_wrap=P)
        r.globs_of = (kd, it, posf)
        return r
    raise Unsupported("glob pattern %r" % (parts,), node)


FUNCS_glob = _glob


@model("os.path.isdir", "isdir on the abstract tree")
def _isdir(i, args, kw, node, fr):
    (p,) = args
    if not is_path(p):
        raise Unsupported("isdir(%r)" % (p,), node)
    fs = state(i)
    t = p.term
    return z3.If(Path.is_Iter(t), fs.iter_dir(Path.it(t)), z3.If(Path.is_Job(t), fs.job_dir(Path.ji(t), Path.jj(t)), Path.is_Root(t)))


class BaseName:
    def __init__(self, t):
        self.t = t


class NumStr:
    def __init__(self, t):
        self.t = t


def num(t):
    """the integer after the underscore in the entry name"""
    return z3.If(Path.is_Iter(t), Path.it(t), z3.If(Path.is_Job(t), Path.jj(t), z3.IntVal(-1)))


@model("os.path.basename", "basename of Iter(i) is 'iter_<i>', of Job(i,j) 'plate_<j>'")
def _basename(i, args, kw, node, fr):
    (p,) = args
    if not is_path(p):
        raise Unsupported("basename(%r)" % (p,), node)
    if z3.is_true(z3.simplify(Path.is_Ext(p.term))) or not i.ctx.feasible(z3.Not(Path.is_Ext(p.term))):
        return BaseName(p.term)  # an external file: opaque name
    i.safe("named_entry", z3.Or(Path.is_Iter(p.term), Path.is_Job(p.term)), node)
    return BaseName(p.term)


@model("os.path.splitext", "splitext of an opaque external path: (stem, ext) opaque")
def _splitext(i, args, kw, node, fr):
    (p,) = args
    return (p, ".h5")


@hook("getattr")
def _ga(i, v, name, node, fr):
    if isinstance(v, BaseName) and name == "split":
        def sp(interp, s, a, k, n, f):
            if a != ["_"] and tuple(a) != ("_",):
                raise Unsupported("basename.split(%r)" % (a,), n)
            return PyList(["<prefix>", NumStr(s.t)])
        return BoundMethod(v, sp)
    if isinstance(v, BaseName) and name == "strip":
        return BoundMethod(v, lambda interp, s, a, k, n, f: s)
    if isinstance(v, FileH) and name == "read":
        return BoundMethod(v, lambda interp, s, a, k, n, f: Content(s.t))
    if isinstance(v, Content) and name == "strip":
        return BoundMethod(v, lambda interp, s, a, k, n, f: content_of(s.t))
    return NotImplemented


@hook("int")
def _int(i, v, node):
    if isinstance(v, NumStr):
        return num(v.t)
    return NotImplemented


class Joined:
    def __init__(self, sep, items):
        self.sep, self.items = sep, items


class Excludes:
    """the command-line word --excludes=<comma separated items>"""

    def __init__(self, items):
        self.items = items


@hook("getattr")
def _str_methods(i, v, name, node, fr):
    if isinstance(v, str) and name == "join":
        def jn(interp, s, a, k, n, f):
            if isinstance(a[0], SymList):
                return Joined(s, a[0])
            return NotImplemented
        return BoundMethod(v, jn)
    if isinstance(v, str) and name == "format" and v == "--excludes={}":
        def fm(interp, s, a, k, n, f):
            if len(a) == 1 and isinstance(a[0], Joined) and a[0].sep == ",":
                return Excludes(a[0].items)
            raise Unsupported("--excludes={}.format(%r)" % (a,), n)
        return BoundMethod(v, fm)
    return NotImplemented


class FileH:
    def __init__(self, t):
        self.t = t


class Content:
    def __init__(self, t):
        self.t = t


@model("open", "open(path, 'r') of an existing abstract file", builtin=True)
def _open(i, args, kw, node, fr):
    p = args[0]
    mode = args[1] if len(args) > 1 else kw.get("mode", "r")
    if not is_path(p) or mode != "r":
        raise Unsupported("open(%r, %r)" % (p, mode), node)
    fs = state(i)
    t = p.term
    i.safe("file_exists", z3.And(Path.is_File(t), Path.fn(t) >= 0, Path.fn(t) < fs.nfiles(Path.fk(t), Path.fi(t), Path.fj(t))), node)
    return FileH(t)


@hook("with_enter")
def _with(i, v, item, fr):
    if isinstance(v, FileH):
        return v
    return NotImplemented


@model("json.load", "json.load(f): the parsed content, a function of the file (meta_of)")
def _json_load(i, args, kw, node, fr):
    (h,) = args
    if not isinstance(h, FileH):
        raise Unsupported("json.load(%r)" % (h,), node)
    return AObj(META, meta_of(h.t))


@hook("getitem")
def _gi(i, v, ix, node):
    if isinstance(v, AObj) and v.clsname == META:
        if ix == "n_unobserved_plates":
            return n_unobserved(v.term)
        raise Unsupported("metadata key %r" % (ix,), node)
    return NotImplemented


# ------------------------------------------------------------------ mutations (each is ONE atomic step of the abstract state;
# the intermediate states a crash can expose are enumerated by the crash-invariant lemmas in contracts/c19.py)

def _log(i, what, *a):
    i.ctx.ghost.setdefault("fs_ops", []).append((what,) + a)


@model("os.makedirs", "makedirs(p, exist_ok=True): p and its missing ancestors become directories; nothing else changes")
def _makedirs(i, args, kw, node, fr):
    p = args[0]
    if kw.get("exist_ok") is not True or not is_path(p):
        raise Unsupported("os.makedirs(%r, exist_ok=%r)" % (p, kw.get("exist_ok")), node)
    fs = state(i)
    t = p.term
    if _is(i, Path.is_Root(t)):
        _log(i, "makedirs", t, fs, fs)
        return None
    if _is(i, Path.is_Job(t)):
        a, b = Path.ji(t), Path.jj(t)
        # FileExistsError if an entry exists and is not a directory
        i.safe("makedirs_no_file_in_the_way", z3.And(z3.Implies(z3.Select(fs.ex_iter, a), z3.Select(fs.dir_iter, a)),
                                                       z3.Implies(z3.Select(z3.Select(fs.ex_job, a), b), z3.Select(z3.Select(fs.dir_job, a), b))), node)
        new = mk_job(fs, a, b)
        _log(i, "makedirs", t, fs, new)
        set_state(i, new)
        return None
    raise Unsupported("os.makedirs(%s)" % t, node)


@model("shutil.rmtree", "rmtree(p, ignore_errors=True) of a job directory: the entry and every file below it disappear; nothing else changes")
def _rmtree(i, args, kw, node, fr):
    p = args[0]
    if kw.get("ignore_errors") is not True or not is_path(p):
        raise Unsupported("shutil.rmtree(%r)" % (p,), node)
    fs = state(i)
    t = p.term
    if not _is(i, Path.is_Job(t)):
        raise Unsupported("rmtree of %s" % t, node)
    a, b = Path.ji(t), Path.jj(t)
    new = rm_job(fs, a, b)
    _log(i, "rmtree", t, fs, new)
    set_state(i, new)
    return None


@model("subprocess.check_call", "a pipeline run: may publish any files below its --outdir (a job directory) and nothing elsewhere; the command line is recorded")
def _check_call(i, args, kw, node, fr):
    cmd = args[0]
    items = cmd.items if isinstance(cmd, PyList) else None
    if items is None:
        raise Unsupported("check_call(%r)" % (cmd,), node)
    opts = {}
    k = 0
    while k < len(items):
        x = items[k]
        if isinstance(x, str) and x.startswith("-") and k + 1 < len(items) and not x.startswith("--excludes="):
            opts[x] = items[k + 1]
            k += 2
        else:
            opts.setdefault("_rest", []).append(x)
            k += 1
    out = opts.get("--outdir")
    if not is_path(out) or not _is(i, Path.is_Job(out.term)):
        raise Unsupported("pipeline --outdir %r" % (out,), node)
    fs = state(i)
    a, b = Path.ji(out.term), Path.jj(out.term)
    fresh = i.ctx.fresh("nf_after_run", A3)
    i.safe("pipeline_outdir_exists", fs.job_dir(a, b), node)
    i.ctx.assume(run_facts(fs, fresh, a, b))
    new = fs.with_(nf=fresh)
    _log(i, "run", out.term, fs, new, opts)
    set_state(i, new)
    return None


TRUSTED["script naming"] = ("every entry of the output directory matching iter_* / plate_* is named iter_<n> / plate_<n> with a decimal n >= 0 "
                            "(the script creates only such names); the experiment-name directory level is addressed only through '*'")
