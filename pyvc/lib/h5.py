"""h5py model (assumed contract, conformance-tested natively; group members are listed in NAME order, as h5py does): a file is a tree of groups holding datasets and
attributes; a dataset written with data=A reads back ([:] / [k]) equal to A in shape and in every element;
attributes round-trip scalars and strings.  File contents live in the ghost store ctx.ghost['h5'][<filename key>]
so that a later open(...,'r') of the same filename term sees what was written."""
import z3
from ..values import *  # noqa
from . import model, hook, TRUSTED, FUNCS
from .arrays import Arr, check_live


class H5Group:
    def __init__(self):
        self.datasets = {}  # name -> Arr (snapshot)
        self.attrs = H5Attrs()
        self.groups = {}


class H5Attrs:
    def __init__(self):
        self.items = {}


class H5File(H5Group):
    def __init__(self, mode):
        super().__init__()
        self.mode = mode


class H5Dataset:
    def __init__(self, arr):
        self.arr = arr


def fkey(fn):
    return fn if isinstance(fn, str) else "term:" + str(fn)


def store(i):
    return i.ctx.ghost.setdefault("h5", {})


@model("h5py.File", "h5py.File(name, 'w') creates/truncates; 'r' opens what was last written under that name")
def _file(i, args, kw, node, fr):
    fn = args[0]
    mode = args[1] if len(args) > 1 else kw.get("mode", "r")
    st = store(i)
    if mode == "w":
        f = H5File("w")
        st[fkey(fn)] = f
        return f
    if mode == "r":
        if fkey(fn) not in st:
            raise Unsupported("h5py.File(%r,'r'): no ghost content for this file (contract setup must provide it)" % (fn,), node)
        f = st[fkey(fn)]
        return f
    raise Unsupported("h5py mode %r" % (mode,), node)


@hook("with_enter")
def _with(i, v, item, fr):
    if isinstance(v, H5Group):
        return v
    return NotImplemented


def _snap(a):
    return Arr(a.shape, a.data, a.dtype, fresh=True)


@hook("getattr")
def _ga(i, v, name, node, fr):
    if isinstance(v, H5Group):
        if name == "create_dataset":
            def cd(interp, s, args, kw, n, f):
                nm = args[0]
                data = kw.get("data", args[1] if len(args) > 1 else None)
                if not isinstance(nm, str) or not isinstance(data, Arr):
                    raise Unsupported("create_dataset(%r, data=%r)" % (nm, data), n)
                check_live(data, n)
                s.datasets[nm] = _snap(data)
                return H5Dataset(s.datasets[nm])
            return BoundMethod(v, cd)
        if name == "create_group":
            def cg(interp, s, args, kw, n, f):
                nm = args[0]
                if not isinstance(nm, str):
                    raise Unsupported("create_group with symbolic name", n)
                s.groups[nm] = H5Group()
                return s.groups[nm]
            return BoundMethod(v, cg)
        if name == "attrs":
            return v.attrs
        if name == "keys":
            # h5py iterates the members of a group in NAME order (links are not creation-ordered unless track_order is set)
            return BoundMethod(v, lambda interp, s, a, k, n, f: PyList(sorted(list(s.datasets.keys()) + list(s.groups.keys()))))
        if name in ("items", "values"):
            def _members(interp, s, a, k, n, f, _nm=name):
                names = sorted(list(s.datasets.keys()) + list(s.groups.keys()))
                objs = [H5Dataset(s.datasets[x]) if x in s.datasets else s.groups[x] for x in names]
                return PyList(list(zip(names, objs)) if _nm == "items" else objs)
            return BoundMethod(v, _members)
    if isinstance(v, H5Attrs):
        if name == "create":
            def cr(interp, s, args, kw, n, f):
                s.items[args[0]] = args[1]
                return None
            return BoundMethod(v, cr)
        if name == "items":
            return BoundMethod(v, lambda interp, s, a, k, n, f: PyList([(kk, vv) for kk, vv in s.items.items()]))
    return NotImplemented


@hook("getitem")
def _gi(i, v, ix, node):
    from ..engine import SliceV, PyRaise
    if isinstance(v, H5Group):
        if isinstance(ix, str):
            if ix in v.datasets:
                return H5Dataset(v.datasets[ix])
            if ix in v.groups:
                return v.groups[ix]
            raise PyRaise(ExcVal("KeyError"), node)
        raise Unsupported("h5 group lookup with symbolic name", node)
    if isinstance(v, H5Attrs):
        if ix in v.items:
            return v.items[ix]
        raise PyRaise(ExcVal("KeyError"), node)
    if isinstance(v, H5Dataset):
        if isinstance(ix, SliceV) and ix.lo is None and ix.hi is None and ix.step is None:
            return _snap(v.arr)
        return i.getitem(v.arr, ix, node)
    return NotImplemented


@hook("contains")
def _contains(i, c, x, node):
    if isinstance(c, H5Group) and isinstance(x, str):
        return x in c.datasets or x in c.groups
    return NotImplemented


TRUSTED["h5py datasets"] = ("create_dataset(name, data=A) then [name][:] returns an array equal to A in shape and every element "
                            "(int64/float64/bool/bytes dtypes; gzip is lossless); [name][k] its k-th element")
TRUSTED["h5py attrs"] = "attrs.create(k, v) then attrs[k] returns v (str, Python/NumPy scalars)"


@hook("setitem")
def _attrs_set(i, v, ix, val, node):
    if isinstance(v, H5Attrs):
        if not isinstance(ix, str):
            raise Unsupported("h5 attribute with symbolic name", node)
        v.items[ix] = val
        return True
    return NotImplemented


@model("numpy.char.encode", "np.char.encode(a) then np.char.decode(., 'utf-8') is the identity on str arrays (assumed; names are opaque strings)")
def _char_encode(i, args, kw, node, fr):
    a = args[0]
    if not isinstance(a, Arr) or a.elem_sort != Str:
        raise Unsupported("np.char.encode of non-string array", node)
    r = Arr(a.shape, a.data, a.dtype, fresh=True)
    r.encoded = True
    return r


@model("numpy.char.decode", "inverse of np.char.encode (utf-8)")
def _char_decode(i, args, kw, node, fr):
    a = args[0]
    if not isinstance(a, Arr) or a.elem_sort != Str:
        raise Unsupported("np.char.decode of non-string array", node)
    return Arr(a.shape, a.data, a.dtype, fresh=True)
