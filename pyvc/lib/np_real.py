"""Real-valued numpy models: reductions as recursive spec functions over the reals, elementary functions as
uninterpreted real functions.  ASSUMPTION (listed in evidence): machine floating point treated as mathematical reals."""
import z3
from ..values import *  # noqa
from . import model, hook, TRUSTED, FUNCS
from .arrays import Arr, define1, define2, new_arr, check_live

RealArr = z3.ArraySort(Int, Real)
sumr = z3.Function("sumr", RealArr, Int, Real)  # sumr(f, n) = f[0] + ... + f[n-1]
sum_diff = z3.Function("sum_diff", RealArr, RealArr, Int, Int)  # skolem: a position where f and g differ (if any)
expit = z3.Function("expit", Real, Real)
sq = z3.Function("sq", Real, Real)  # x ** 2 as an opaque function (keeps VCs linear); facts: sq(x) >= 0, sq(0) = 0


def sq_axioms():
    x = z3.Real("x!sq")
    return [z3.ForAll([x], z3.And(sq(x) >= 0, z3.Implies(x == 0, sq(x) == 0)), patterns=[sq(x)])]


def sumr_axioms():
    f, g = z3.Const("f!sr", RealArr), z3.Const("g!sr", RealArr)
    n = z3.Int("n!sr")
    d = sum_diff(f, g, n)
    return [
        z3.ForAll([f], sumr(f, 0) == 0, patterns=[sumr(f, 0)]),
        # (the unfolding sumr(f, n+1) = sumr(f, n) + f[n] is NOT installed as a quantified axiom: its trigger loops;
        #  contracts instantiate it explicitly where an induction step needs it)
        # congruence (proved by SMT induction, props lemma `sum_cong`): pointwise-equal prefixes have equal sums
        z3.ForAll([f, g, n], z3.Or(z3.And(d >= 0, d < n, z3.Select(f, d) != z3.Select(g, d)), sumr(f, n) == sumr(g, n)),
                  patterns=[z3.MultiPattern(sumr(f, n), sumr(g, n))]),
    ]


def install_sums(i):
    if i.ctx.ghost.get("_sumr_installed"):
        return
    i.ctx.ghost["_sumr_installed"] = True
    for ax in sumr_axioms():
        i.ctx.assume(ax)


@model("numpy.sum", "np.sum(2-D, -1)[r] = sumr(row r, n_cols); np.sum(1-D real) = sumr(a, n); bool arrays: number of True")
def _sum(i, args, kw, node, fr):
    a = args[0]
    check_live(a, node)
    axis = kw.get("axis", args[1] if len(args) > 1 else None)
    if a.ndim == 1 and a.elem_sort == Bool and axis is None:
        from .np_core import _sum as bsum
        return bsum(i, [a], {}, node, fr)
    if a.elem_sort == Int:
        raise Unsupported("sum of int array", node)
    if a.elem_sort != Real:
        raise Unsupported("sum of %s array" % a.elem_sort, node)
    install_sums(i)
    if a.ndim == 2 and axis in (-1, 1):
        cols = to_z3(a.shape[1], Int)
        return define1(i, a.shape[0], Real, lambda k: sumr(z3.Select(a.data, k), cols), "rowsum")
    if a.ndim == 1 and axis in (None, 0, -1):
        return sumr(a.data, to_z3(a.shape[0], Int))
    raise Unsupported("np.sum with axis=%r on %d-D" % (axis, a.ndim), node)


FUNCS["numpy.ndarray.sum"] = _sum


@model("scipy.special.expit", "expit pointwise: uninterpreted real function (only functionality is used)")
def _expit(i, args, kw, node, fr):
    a = args[0]
    if isinstance(a, Arr):
        check_live(a, node)
        if a.elem_sort != Real:
            raise Unsupported("expit of %s array" % a.elem_sort, node)
        if a.ndim == 1:
            return define1(i, a.shape[0], Real, lambda k: expit(z3.Select(a.data, k)), "expit_arr", alts=[lambda k: z3.Select(a.data, k)])
        return define2(i, a.shape[0], a.shape[1], Real, lambda r, c: expit(a.at(r, c)), "expit_arr")
    return expit(to_z3(a, Real))


@model("numpy.repeat", "repeat(scalar, repeats=n): n copies")
def _repeat(i, args, kw, node, fr):
    v = args[0]
    n = kw.get("repeats", args[1] if len(args) > 1 else None)
    if isinstance(v, Arr):
        raise Unsupported("np.repeat of an array", node)
    x = to_z3(v, Real) if not (is_z3(v) and v.sort() != Real and v.sort() != Int) else v
    return define1(i, n, x.sort(), lambda k: x, "repeat")


TRUSTED["real arithmetic"] = "floating point treated as mathematical reals; NaN/inf not modelled on this path"


# ------------------------------------------------------------------ means / variances (spec functions shared with contracts)
A2 = z3.ArraySort(Int, RealArr)
row_tot = z3.Function("row_tot", A2, Int, RealArr)  # row_tot(A, m)[e] = sumr(A[e], m)
dev2 = z3.Function("dev2", RealArr, Int, RealArr)  # dev2(v, n)[e] = (v[e] - mean(v, n))^2
scaled = z3.Function("scaled", RealArr, Real, RealArr)  # scaled(v, c)[e] = v[e] / c


def mean1(v, n):
    return sumr(v, n) / z3.ToReal(n)


def var1(v, n):
    return sumr(dev2(v, n), n) / z3.ToReal(n)


def mean_axioms(with_dev2=False):
    """dev2's definition (squared deviations: nonlinear) is only handed to the proofs that need it (var_cong lemma);
    elsewhere variance is used through the lemma, keeping the nonlinear facts out of the VC"""
    A, v = z3.Const("A!mx", A2), z3.Const("v!mx", RealArr)
    m, n, e = z3.Ints("m!mx n!mx e!mx")
    c = z3.Real("c!mx")
    out = [z3.ForAll([A, m, e], z3.Select(row_tot(A, m), e) == sumr(z3.Select(A, e), m), patterns=[z3.Select(row_tot(A, m), e)]),
           z3.ForAll([v, c, e], z3.Select(scaled(v, c), e) == z3.Select(v, e) / c, patterns=[z3.Select(scaled(v, c), e)])]
    if with_dev2:
        out.append(z3.ForAll([v, n, e], z3.Select(dev2(v, n), e) == sq(z3.Select(v, e) - mean1(v, n)),
                             patterns=[z3.Select(dev2(v, n), e)]))
    return out


def install_means(i):
    install_sums(i)
    if i.ctx.ghost.get("_means_installed"):
        return
    i.ctx.ghost["_means_installed"] = True
    for ax in mean_axioms():
        i.ctx.assume(ax)


@model("numpy.ndarray.mean", "mean(): sum of all elements / count; mean(axis=1)[e] = row sum / n_cols  (reals; count must be >= 1)")
def _mean(i, args, kw, node, fr):
    a = args[0]
    if isinstance(a, SymList) and a.elem_wrap is None and not isinstance(a.seq.cols, tuple) and a.seq.cols.sort().range() == Real:
        a = Arr((a.seq.length,), a.seq.cols, "float")  # np.mean of a list of floats
    check_live(a, node)
    axis = kw.get("axis", args[1] if len(args) > 1 else None)
    if a.elem_sort != Real:
        raise Unsupported("mean of %s array" % a.elem_sort, node)
    install_means(i)
    if a.ndim == 2:
        r, c = to_z3(a.shape[0], Int), to_z3(a.shape[1], Int)
        if axis is None:
            i.safe("mean_of_empty", z3.And(r >= 1, c >= 1), node)
            return sumr(row_tot(a.data, c), r) / z3.ToReal(r * c)
        if axis in (1, -1):
            i.safe("mean_of_empty", c >= 1, node)
            return define1(i, r, Real, lambda k: sumr(z3.Select(a.data, k), c) / z3.ToReal(c), "rowmean")
        raise Unsupported("mean(axis=%r)" % (axis,), node)
    n = to_z3(a.shape[0], Int)
    i.safe("mean_of_empty", n >= 1, node)
    return mean1(a.data, n)


FUNCS["numpy.mean"] = _mean
TRUSTED["numpy.mean"] = "np.mean = sum / count over the reals"


@model("numpy.var", "np.var(v) = mean of squared deviations from the mean (population variance), reals")
def _var(i, args, kw, node, fr):
    a = args[0]
    check_live(a, node)
    if a.ndim != 1 or a.elem_sort != Real or kw:
        raise Unsupported("np.var of non 1-D real array / with options", node)
    install_means(i)
    n = to_z3(a.shape[0], Int)
    i.safe("var_of_empty", n >= 1, node)
    i.ctx.ghost.setdefault("var_args", []).append(a)
    return var1(a.data, n)


def var_cong(v, w, n):
    """lemma (proved by SMT from sum congruence, see props/C20): arrays equal on [0,n) have equal variance"""
    e = z3.Int("e!vc")
    return z3.Implies(z3.And(n >= 1, z3.ForAll([e], z3.Implies(z3.And(e >= 0, e < n), z3.Select(v, e) == z3.Select(w, e)))),
                      var1(v, n) == var1(w, n))


# ------------------------------------------------------------------ square root and the legacy global draws (reals)
sqrt_r = z3.Function("sqrt_r", Real, Real)


def sqrt_axioms():
    x, y = z3.Reals("x!sq y!sq")
    return [z3.ForAll([x], z3.Implies(x >= 0, z3.And(sqrt_r(x) >= 0, z3.Implies(x >= 1, sqrt_r(x) >= 1), z3.Implies(x > 0, sqrt_r(x) > 0))), patterns=[sqrt_r(x)])]


@model("numpy.sqrt", "sqrt over the reals: an uninterpreted function with sqrt(x) >= 0 for x >= 0, >= 1 for x >= 1, > 0 for x > 0 (only these facts are used)")
def _sqrt(i, args, kw, node, fr):
    (a,) = args
    if isinstance(a, Arr):
        raise Unsupported("np.sqrt of an array", node)
    if not i.ctx.ghost.get("_sqrt_axioms"):
        i.ctx.ghost["_sqrt_axioms"] = True
        for f in sqrt_axioms():
            i.ctx.assume(f)
    x = to_z3(a, Real) if not is_z3(a) else (z3.ToReal(a) if a.sort() == Int else a)
    i.safe("sqrt_of_negative", x >= 0, node)
    return sqrt_r(x)


def _legacy_draw(kind):
    def f(i, args, kw, node, fr):
        """a draw from numpy's GLOBAL legacy generator: an arbitrary value of the distribution's support; the arguments are logged
        (ghost 'legacy_draws') so that contracts can state what the draw was parameterised with"""
        a = [x for x in args]
        if any(isinstance(x, Arr) for x in a) or kw:
            raise Unsupported("vector-valued np.random.%s" % kind, node)
        r = i.ctx.fresh("draw_" + kind, Real)
        if kind == "gamma":
            i.ctx.assume(r >= 0)
        i.ctx.ghost.setdefault("legacy_draws", []).append((kind, tuple(to_z3(x, Real) if not is_z3(x) else (z3.ToReal(x) if x.sort() == Int else x) for x in a), r))
        return r
    return f


FUNCS["numpy.random.gamma"] = _legacy_draw("gamma")
FUNCS["numpy.random.normal"] = _legacy_draw("normal")
TRUSTED["numpy.random.gamma / normal (global generator)"] = "scalar draw: any value of the support (gamma >= 0); the parameters are recorded in a ghost log"
