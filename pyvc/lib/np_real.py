"""Real-valued numpy models: reductions as recursive spec functions over the reals, elementary functions as
uninterpreted real functions.  ASSUMPTION (listed in evidence): machine floating point treated as mathematical reals."""
import z3
from ..values import *  # noqa
from . import model, hook, TRUSTED, FUNCS
from .arrays import Arr, define1, define2, new_arr, check_live

RealArr = z3.ArraySort(Int, Real)
sumr = z3.Function("sumr", RealArr, Int, Real)  # sumr(f, n) = f[0] + ... + f[n-1]
sum_diff = z3.Function("sum_diff", RealArr, RealArr, Int, Int)  # skolem: a position where f and g differ (if any)
expit = z3.Function("expit", Real, Real)


def sumr_axioms():
    f, g = z3.Const("f!sr", RealArr), z3.Const("g!sr", RealArr)
    n = z3.Int("n!sr")
    d = sum_diff(f, g, n)
    return [
        z3.ForAll([f], sumr(f, 0) == 0, patterns=[sumr(f, 0)]),
        z3.ForAll([f, n], z3.Implies(n >= 0, sumr(f, n + 1) == sumr(f, n) + z3.Select(f, n)), patterns=[sumr(f, n + 1)]),
        # congruence (proved by SMT induction, props lemma `sum_cong`): pointwise-equal prefixes have equal sums
        z3.ForAll([f, g, n], z3.Or(z3.And(d >= 0, d < n, z3.Select(f, d) != z3.Select(g, d)), sumr(f, n) == sumr(g, n)),
                  patterns=[z3.MultiPattern(sumr(f, n), sumr(g, n))]),
    ]


def install_sums(i):
    if i.ctx.ghost.get("_sumr_installed"):
        return
    i.ctx.ghost["_sumr_installed"] = True
    for ax in sumr_axioms():
        i.ctx.assume(ax)


@model("numpy.sum", "np.sum(2-D, -1)[r] = sumr(row r, n_cols); np.sum(1-D real) = sumr(a, n); bool arrays: number of True")
def _sum(i, args, kw, node, fr):
    a = args[0]
    check_live(a, node)
    axis = kw.get("axis", args[1] if len(args) > 1 else None)
    if a.ndim == 1 and a.elem_sort == Bool and axis is None:
        from .np_core import _sum as bsum
        return bsum(i, [a], {}, node, fr)
    if a.elem_sort == Int:
        raise Unsupported("sum of int array", node)
    if a.elem_sort != Real:
        raise Unsupported("sum of %s array" % a.elem_sort, node)
    install_sums(i)
    if a.ndim == 2 and axis in (-1, 1):
        cols = to_z3(a.shape[1], Int)
        return define1(i, a.shape[0], Real, lambda k: sumr(z3.Select(a.data, k), cols), "rowsum")
    if a.ndim == 1 and axis in (None, 0, -1):
        return sumr(a.data, to_z3(a.shape[0], Int))
    raise Unsupported("np.sum with axis=%r on %d-D" % (axis, a.ndim), node)


FUNCS["numpy.ndarray.sum"] = _sum


@model("scipy.special.expit", "expit pointwise: uninterpreted real function (only functionality is used)")
def _expit(i, args, kw, node, fr):
    a = args[0]
    if isinstance(a, Arr):
        check_live(a, node)
        if a.elem_sort != Real:
            raise Unsupported("expit of %s array" % a.elem_sort, node)
        if a.ndim == 1:
            return define1(i, a.shape[0], Real, lambda k: expit(z3.Select(a.data, k)), "expit_arr", alts=[lambda k: z3.Select(a.data, k)])
        return define2(i, a.shape[0], a.shape[1], Real, lambda r, c: expit(a.at(r, c)), "expit_arr")
    return expit(to_z3(a, Real))


@model("numpy.repeat", "repeat(scalar, repeats=n): n copies")
def _repeat(i, args, kw, node, fr):
    v = args[0]
    n = kw.get("repeats", args[1] if len(args) > 1 else None)
    if isinstance(v, Arr):
        raise Unsupported("np.repeat of an array", node)
    x = to_z3(v, Real) if not (is_z3(v) and v.sort() != Real and v.sort() != Int) else v
    return define1(i, n, x.sort(), lambda k: x, "repeat")


TRUSTED["real arithmetic"] = "floating point treated as mathematical reals; NaN/inf not modelled on this path"
