"""Driver:  python3-vt -m pyvc.check <Cxx> [--tier quick|thorough] | --replay <file>

Exit codes: 0 held / 1 VIOLATION (named obligation failed; replay attached) / 2 UNDECIDED (contracts no longer
bind or construct unsupported, and the bounded stand-in found nothing) / 3 checker error.
"""
import argparse
import importlib
import json
import os
import re
import subprocess
import sys
import time
import traceback

ROOT = os.path.dirname(os.path.dirname(os.path.abspath(__file__)))
sys.path.insert(0, ROOT)

from . import smt  # noqa
smt.early_pool()
from . import repo, lib  # noqa
from .spec import REGISTRY, LEMMAS, USED_LEMMAS  # noqa
from .verify import verify_contract  # noqa
from .engine import Oblig  # noqa

VENV_PY = "/venv/bin/python"
LEAN_FILE = os.path.join(ROOT, "lean", "Batchie.lean")


def load_known():
    p = os.path.join(ROOT, "known_findings.json")
    if not os.path.exists(p):
        return []
    return json.load(open(p)).get("findings", [])


_lean_cache = {}


def lean_check(theorems, tier):
    """Compile the Lean file; confirm each required theorem is declared there and that the file contains no
    sorry/axiom/admit.  Returns list of result dicts (one obligation per theorem)."""
    t0 = time.time()
    src = open(LEAN_FILE).read()
    bad = [w for w in ("sorry", "axiom ", "admit", "native_decide", "unsafe ") if re.search(r"\b%s" % re.escape(w.strip()), _strip_comments(src))]
    env = dict(os.environ)
    p = subprocess.run(["lean", LEAN_FILE], capture_output=True, text=True, cwd=os.path.dirname(LEAN_FILE), env=env,
                       timeout=1800)
    ok = p.returncode == 0 and "error:" not in p.stdout and not bad
    dt = time.time() - t0
    out = []
    for th in theorems:
        short = th.split(".")[-1]
        declared = re.search(r"\btheorem\s+%s\b" % re.escape(short), src) is not None
        out.append({"name": "lean:%s" % th, "loc": "lean/Batchie.lean", "kind": "lean",
                    "result": "unsat" if (ok and declared) else "failed",
                    "time_s": round(dt / max(1, len(theorems)), 3), "model": None,
                    "reason": (p.stdout + p.stderr)[-2000:] if not ok else ("" if declared else "theorem not declared"),
                    "hash": "", "smt2_bytes": 0, "backend": "lean4+mathlib"})
    return out, dt


def _strip_comments(s):
    s = re.sub(r"/-.*?-/", "", s, flags=re.S)
    return re.sub(r"--.*", "", s)


def run_native(script, args, timeout=3600):
    """Run a native (real-code) harness under /venv/bin/python; it prints one JSON object on the last line."""
    env = dict(os.environ)
    env["PYTHONPATH"] = os.path.join(repo.REPO, "src") + os.pathsep + ROOT
    env["BATCHIE_REPO"] = repo.REPO
    p = subprocess.run([VENV_PY, os.path.join(ROOT, "native", script)] + args, capture_output=True, text=True,
                       env=env, timeout=timeout, cwd=ROOT)
    lines = [l for l in p.stdout.strip().splitlines() if l.strip()]
    try:
        res = json.loads(lines[-1])
    except Exception:
        # the harness died.  If the innermost frame of the traceback is in the code under test, an exception escaped from the real
        # code on an input the harness holds to be valid: that is a finding of the bounded stand-in, not a checker error.
        frames = re.findall(r'File "([^"]+)", line (\d+), in (\S+)', p.stderr)
        if frames and os.path.abspath(frames[-1][0]).startswith(os.path.abspath(repo.REPO) + os.sep) and "--replay" not in args:
            last = [l for l in p.stderr.strip().splitlines() if l.strip()][-1]
            return {"violations": [{"seed": None, "what": "the real code raised inside the harness: %s (%s:%s in %s)" % (last[:200], os.path.relpath(frames[-1][0], repo.REPO), frames[-1][1], frames[-1][2]),
                                    "site": "exception escaping %s" % frames[-1][2]}], "bounded": [], "rc": p.returncode}
        return {"status": "error", "detail": (p.stdout + p.stderr)[-3000:], "rc": p.returncode}
    res["rc"] = p.returncode
    return res


def main(argv=None):
    ap = argparse.ArgumentParser()
    ap.add_argument("prop", nargs="?")
    ap.add_argument("--tier", default=os.environ.get("VERIF_TIER", "quick"))
    ap.add_argument("--replay")
    a = ap.parse_args(argv)
    if a.replay:
        return do_replay(a.replay)
    try:
        return run_check(a.prop, a.tier)
    except Exception:
        traceback.print_exc()
        print("CHECKER-ERROR property=%s (internal error of the checker; not a violation)" % a.prop)
        return 3


def do_replay(path):
    d = json.load(open(path))
    script = d.get("native_script")
    if not script or not d.get("input"):
        print(json.dumps({"obligation": d.get("obligation"), "note": "no failing input recorded", "solver": d.get("solver_output")}, indent=1))
        return 0
    res = run_native(script, ["--replay", path])
    print(json.dumps(res, indent=1))
    return 1 if res.get("violations") else 0


def run_check(pid, tier):
    t_start = time.time()
    seed = int(os.environ.get("VERIF_SEED", "0"))
    prop = importlib.import_module("props.%s" % pid)
    repo.reset()
    for m in prop.CONTRACT_MODULES:
        importlib.import_module(m)
    reports = []
    obligs = []
    canaries = []
    fn_status = {}
    for q in prop.CARRIERS:
        ct = REGISTRY[q]
        for rep in verify_contract(ct):
            reports.append(rep)
            fn_status[rep.qualname] = (rep.status, rep.detail or ("REGION: " + rep.region if getattr(rep, "region", None) else ""), rep.paths, len(rep.obligs), round(rep.time_s, 3))
            if rep.status == "unbound":
                continue  # the contract's proof structure does not bind to this source: its obligations say nothing (function UNDECIDED)
            for o in rep.obligs:
                (canaries if o.kind == "canary" else obligs).append(o)
    # property-level SMT lemmas
    lem = prop.lemmas() if hasattr(prop, "lemmas") else []
    for name, hyps, goal in lem:
        obligs.append(Oblig("%s/lemma:%s" % (pid, name), list(hyps), goal, "props/%s.py" % pid, "lemma"))
        # vacuity guard for the lemma itself: its hypotheses must not be refutable
        import z3 as _z3
        canaries.append(Oblig("lemma:%s/canary" % name, list(hyps), _z3.BoolVal(False), "props/%s.py" % pid, "canary"))
    # effect / frame obligations (flow-insensitive, decided without SMT)
    static_results = prop.static_obligations(tier) if hasattr(prop, "static_obligations") else []
    t0 = time.time()
    results = smt.discharge(obligs) if obligs else []
    canary_res = smt.discharge(canaries, rlimit=2_000_000, want_model=False) if canaries else []
    solver_wall = time.time() - t0
    for r in results:
        r["backend"] = "z3-5.1"
    # lean
    lean_s = 0.0
    lean_results = []
    if getattr(prop, "LEAN", None):
        lean_results, lean_s = lean_check(prop.LEAN, tier)
    all_results = results + lean_results + static_results
    # cvc5 cross-check (thorough): non-NIA obligations must not be refuted by cvc5
    cross = {"checked": 0, "agree": 0, "cvc5_unknown": 0, "disagree": []}
    if tier == "thorough":
        seen = set()
        for r in results:
            if r["result"] != "unsat" or r["hash"] in seen:
                continue
            seen.add(r["hash"])
            if len(seen) > 400:
                break
            c = smt.cvc5_check(r["text"], 20)
            cross["checked"] += 1
            if c == "unsat":
                cross["agree"] += 1
            elif c == "sat":
                cross["disagree"].append(r["name"])
            else:
                cross["cvc5_unknown"] += 1
    # aggregate by obligation name
    by_name = {}
    for r in all_results:
        e = by_name.setdefault(r["name"], {"name": r["name"], "loc": r.get("loc", ""), "kind": r.get("kind", ""),
                                           "n": 0, "ok": 0, "time_s": 0.0, "fail": None,
                                           "backend": r.get("backend", "z3-5.1")})
        e["n"] += 1
        e["time_s"] += r.get("time_s", 0.0)
        if r["result"] == "unsat":
            e["ok"] += 1
        elif e["fail"] is None:
            e["fail"] = r
    failed = [e for e in by_name.values() if e["fail"] is not None]
    # vacuity guards
    guard_msgs = []
    n_oblig = len(all_results)
    if n_oblig == 0:
        guard_msgs.append("zero obligations generated")
    can_by_fn = {}
    for o, r in zip(canaries, canary_res):
        fn = o.name.split("/")[0]
        can_by_fn.setdefault(fn, []).append(r["result"])
    for fn, rs in can_by_fn.items():
        if all(x == "unsat" for x in rs):
            guard_msgs.append("canary: every path end of %s has contradictory hypotheses (vacuous proof)" % fn)
    undecided = [(q, s) for q, s in fn_status.items() if s[0] != "ok"]
    # bounded stand-ins / native harness
    native = None
    if hasattr(prop, "NATIVE"):
        native = run_native(prop.NATIVE, ["--tier", tier, "--seed", str(seed)])
    # known findings
    known = [k for k in load_known() if k.get("property") == pid and k.get("status") == "known"]
    violations = []
    known_hit = []
    OUT = os.environ.get("VERIF_OUT") or ROOT  # seed runs on scratch copies write their evidence / replays elsewhere
    replay_dir = os.path.join(OUT, "replays", pid)
    for e in failed:
        k = next((k for k in known if k.get("obligation") == e["name"]), None)
        if k is not None:
            known_hit.append(k)
            continue
        violations.append(e)
    lines = []
    rc = 0
    found_violation = False
    if guard_msgs:
        for g in guard_msgs:
            print("CHECKER-ERROR property=%s %s" % (pid, g))
        rc = 3
    for k in known_hit:
        print("KNOWN-FINDING: property=%s %s" % (pid, k.get("what", k.get("obligation"))))
    nat_viol = []
    if native is not None:
        if native.get("status") == "error":
            print("CHECKER-ERROR property=%s native harness failed: %s" % (pid, native.get("detail", "")[-500:]))
            rc = max(rc, 3)
        for v in native.get("violations", []) or []:
            kk = next((k for k in known if k.get("site") and k.get("site") == v.get("site")), None)
            if kk is not None:
                if kk not in known_hit:
                    known_hit.append(kk)
                    print("KNOWN-FINDING: property=%s %s" % (pid, kk.get("what")))
                continue
            if any(x.get("site") == v.get("site") for x in nat_viol):
                continue
            nat_viol.append(v)
    if violations or nat_viol:
        os.makedirs(replay_dir, exist_ok=True)
    for e in violations:
        f = e["fail"]
        safe = re.sub(r"[^A-Za-z0-9_.#:@-]", "_", e["name"])[-150:]
        path = os.path.join("replays", pid, safe + ".json")
        rec = {"property": pid, "obligation": e["name"], "source_location": e["loc"], "kind": e["kind"],
               "solver_result": f["result"], "solver_output": f.get("reason", ""), "model": f.get("model"),
               "native_script": getattr(prop, "NATIVE", None), "input": None}
        # try to turn it into a failing input on the real code
        witness = None
        if hasattr(prop, "NATIVE"):
            tmp = os.path.join(OUT, path + ".req")
            json.dump(rec, open(tmp, "w"))
            res = run_native(prop.NATIVE, ["--search", tmp, "--tier", tier, "--seed", str(seed)])
            os.unlink(tmp)
            if res.get("violations"):
                witness = res["violations"][0]
        if witness is None and nat_viol:
            witness = nat_viol[0]
        rec["input"] = witness
        json.dump(rec, open(os.path.join(OUT, path), "w"), indent=1, default=str)
        if witness is not None:
            print("VIOLATION property=%s replay=%s" % (pid, path))
        else:
            print("VIOLATION property=%s replay=%s no-failing-input-found" % (pid, path))
        print("   failed obligation: %s (%s) solver=%s %s" % (e["name"], e["loc"], f["result"], (f.get("reason") or "")[:200]))
        found_violation = True
    if not violations:
        for i, v in enumerate(nat_viol):
            path = os.path.join("replays", pid, "native_%d.json" % i)
            rec = {"property": pid, "obligation": "bounded:" + str(v.get("site", "")), "native_script": prop.NATIVE,
                   "input": v, "solver_output": "found by the bounded stand-in on the real code"}
            json.dump(rec, open(os.path.join(OUT, path), "w"), indent=1, default=str)
            print("VIOLATION property=%s replay=%s" % (pid, path))
            found_violation = True
    if found_violation:
        rc = 1  # a violation that was found stands, whatever else went wrong in this run (guard messages are printed above)
    if undecided and rc == 0:
        for q, s in undecided:
            print("UNDECIDED property=%s function=%s status=%s %s" % (pid, q, s[0], s[1]))
        rc = 2
    # ---- evidence
    discharged = sum(1 for r in all_results if r["result"] == "unsat")
    by_backend = {}
    for r in all_results:
        by_backend[r.get("backend", "z3-5.1")] = by_backend.get(r.get("backend", "z3-5.1"), 0) + 1
    samples = []
    for e in list(by_name.values())[:: max(1, len(by_name) // 12)][:14]:
        samples.append({"obligation": e["name"], "loc": e["loc"], "instances": e["n"], "discharged": e["ok"],
                        "solver_s": round(e["time_s"], 4), "backend": e["backend"]})
    trusted = list(getattr(prop, "TRUSTED", []))
    used_models = sorted(getattr(lib, "USED", set())) if hasattr(lib, "USED") else []
    for nm in sorted(USED_LEMMAS):
        trusted.append("lemma %s (%s): %s" % (nm, LEMMAS[nm].proof, LEMMAS[nm].statement))
    level = prop.LEVEL
    ev = {
        "property_id": pid, "tier": tier if tier in ("quick", "thorough") else "quick", "seed": seed,
        "level": level,
        "coverage": {
            "obligations": n_oblig - len([k for k in known_hit if k.get("obligation") in by_name]),
            "discharged": discharged + 0,
            "obligations_including_known_findings": n_oblig,
            "known_finding_obligations": len(known_hit),
            "checker_cmd": "./check %s --tier %s" % (pid, tier),
            "trusted_base": trusted,
            "functions_under_contract": {q: {"status": s[0], "detail": s[1], "paths": s[2], "obligations": s[3], "vcgen_s": s[4]}
                                         for q, s in fn_status.items()},
            "distinct_obligation_names": len(by_name),
            "by_backend": by_backend,
            "solver_wall_s": round(solver_wall, 3),
            "solver_cpu_s": round(sum(r.get("time_s", 0.0) for r in all_results), 3),
            "lean_s": round(lean_s, 3),
            "cvc5_cross_check": cross,
            "canary_paths": {fn: {"n": len(rs), "consistent": sum(1 for x in rs if x != "unsat")} for fn, rs in can_by_fn.items()},
            "dropped_by_extraction": repo.DROPPED,
            "bounded": (native or {}).get("bounded", []),
            "samples": samples,
            "explanation": getattr(prop, "EXPLANATION", ""),
            "evaluations": max(1, n_oblig + sum(b.get("evaluations", 0) for b in (native or {}).get("bounded", []))),
            "distinct_nontrivial": max(2, len(by_name)),
            "rule": "one case = one proof obligation generated from /repo's current source (distinct by name); bounded stand-ins are listed separately under 'bounded' with their own counts",
        },
        "assumptions": list(getattr(prop, "ASSUMPTIONS", [])),
        "wall_s": round(time.time() - t_start, 2),
        "violations": len(violations) + (len(nat_viol) if not violations else 0),
    }
    os.makedirs(os.path.join(OUT, "evidence"), exist_ok=True)
    json.dump(ev, open(os.path.join(OUT, "evidence", pid + ".json"), "w"), indent=1, default=str)
    print("property=%s tier=%s obligations=%d discharged=%d known=%d functions=%d rc=%d wall=%.1fs" % (
        pid, tier, n_oblig, discharged, len(known_hit), len(fn_status), rc, time.time() - t_start))
    return rc


if __name__ == "__main__":
    sys.exit(main())
