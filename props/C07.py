"""C07 — Pairwise-distance chunks partition the work and assemble to the same matrix."""
import z3
PROPERTY = "C07"
LEVEL = "proof"
CONTRACT_MODULES = ["contracts.c07"]
D = "batchie.distance_calculation."
CARRIERS = [D + "lower_triangular_indices", D + "get_number_of_lower_triangular_indices",
            D + "get_lower_triangular_indices_chunk",
            D + "ChunkedDistanceMatrix.__init__", D + "ChunkedDistanceMatrix._expand_storage",
            D + "ChunkedDistanceMatrix.add_value", D + "ChunkedDistanceMatrix.is_complete",
            D + "ChunkedDistanceMatrix.to_dense", D + "ChunkedDistanceMatrix.combine",
            D + "ChunkedDistanceMatrix.concat", D + "ChunkedDistanceMatrix.save", D + "ChunkedDistanceMatrix.load",
            D + "calculate_pairwise_distance_matrix_on_predictions", "scenarios.c07.save_then_load"]
LEAN = ["Batchie.interval_tiling", "Batchie.interval_tiling_unique", "Batchie.pigeonhole_pairs", "Batchie.complete_count"]
NATIVE = "c07.py"
EXPLANATION = (
    "Every function of distance_calculation.py is under contract and its body proved. Generator: position p holds the "
    "pair (row(p), p - tri(row(p))) - with the SMT lemmas (tri monotone, pairing injective and onto) a bijection between "
    "[0, n(n-1)/2) and the pairs i>j. Chunk boundaries: proved equal to the array_split convention; SMT lemmas: "
    "cstart(0)=0, cend(N-1)=T, cend(c)=cstart(c+1), sizes in {q,q+1}; Lean interval_tiling(+unique): each position in "
    "exactly one chunk, also for N > T and n in {0,1}. ChunkedDistanceMatrix: representation invariant (equal lengths, "
    "zero tail, valid lower-triangular keys, keys pairwise distinct) established by __init__/load and kept by "
    "_expand_storage/add_value/combine/concat; combine = self plus the entries of other with new keys (inputs untouched); "
    "concat over a symbolic-length list: keys = union, values consistent with one function d(i,j) of the key; "
    "calculate_pairwise...: chunk c holds exactly positions [cstart,cend) with value metric(pred_i, pred_j); to_dense "
    "raises iff current_index != T, else symmetric, zero diagonal, M[i,j]=M[j,i]=stored value; Lean pigeonhole_pairs / "
    "complete_count: a well-formed matrix has current_index = T iff every pair is present (so a matrix missing a pair "
    "refuses to densify, and any multiset of chunk files covering every chunk assembles to the same complete matrix). "
    "save/load round trip proved over the assumed h5py contract. NOT proved here: MSEDistance metric axioms (bounded "
    "native check only, see 'bounded') and the argparse plumbing of cli/calculate_distance_matrix.main.")
TRUSTED = [
    "pyvc symbolic executor; z3 5.1 with E-matching; Lean 4.33 + Mathlib",
    "numpy model (zeros, concatenate, slicing, integer/slice assignment, 2-D stores, `in zip(...)`): pyvc.lib.arrays/np_core",
    "h5py model: datasets round-trip arrays exactly (pyvc.lib.h5)",
    "Theta.predict_viability and DistanceMetric.distance are functions of their arguments (abstract contracts)",
    "reading of the SMT pairing lemmas as hypotheses hg_range/hg_inj/hg_surj of the Lean theorems",
    "float distances treated as real numbers (only equality/zero tests are used)",
]
ASSUMPTIONS = ["machine floats treated as mathematical reals in the stored distance values (no arithmetic is performed on them)",
               "MSEDistance properties (symmetry, non-negativity, zero on equal inputs) are checked natively only (bounded)"]


def lemmas():
    from contracts.c07 import tri, row, tri_unfold, chunk_def, cstart, cend
    out = []
    m, a, b, n, p, r, i, j = z3.Ints("m a b n p r i j")
    # tri_closed by induction
    out.append(("tri_closed:base", [tri_unfold(0)], z3.And(2 * tri(0) == 0)))
    out.append(("tri_closed:step", [m >= 0, 2 * tri(m) == m * (m - 1), tri_unfold(m)], 2 * tri(m + 1) == (m + 1) * m))
    out.append(("tri_closed:div", [n >= 0, 2 * tri(n) == n * (n - 1)], tri(n) == (n * (n - 1)) / 2))
    # tri_mono by induction on b
    out.append(("tri_mono:base", [a >= 0, b == a + 1, tri_unfold(a)], z3.And(tri(a + 1) <= tri(b), tri(a) <= tri(b))))
    out.append(("tri_mono:step", [a >= 0, b > a, tri(a + 1) <= tri(b), tri(a) <= tri(b), tri_unfold(b)],
                z3.And(tri(a + 1) <= tri(b + 1), tri(a) <= tri(b + 1))))
    # tri_pos
    out.append(("tri_pos", [tri_unfold(0), tri_unfold(1), z3.Implies(z3.And(1 >= 0, 1 < n), tri(2) <= tri(n))],
                z3.And(z3.Implies(n >= 2, tri(n) >= 1), z3.Implies(z3.And(n >= 0, n <= 1), tri(n) == 0))))
    # existence of row(p): consistency of the definitional axiom row_def (induction on p)
    out.append(("row_exists:base", [tri_unfold(0), tri_unfold(1)], z3.And(tri(1) <= 0, 0 < tri(2))))
    out.append(("row_exists:step", [p >= 0, r >= 1, tri(r) <= p, p < tri(r + 1), tri_unfold(r), tri_unfold(r + 1)],
                z3.Or(z3.And(tri(r) <= p + 1, p + 1 < tri(r + 1)), z3.And(tri(r + 1) <= p + 1, p + 1 < tri(r + 2)))))
    # pairing: (i,j) with 0<=j<i<n sits at position tri(i)+j < tri(n), and row() recovers i (g injective, in range)
    from contracts.c07 import row_is, tri_mono
    pos = tri(i) + j
    out.append(("pair_position", [j >= 0, j < i, i < n, tri_unfold(i), row_is(pos, i), tri_mono(i, n), tri_mono(0, i), tri_unfold(0), z3.Implies(i + 1 == n, tri(i + 1) == tri(n))],
                z3.And(pos >= 0, pos < tri(n), row(pos) == i, pos - tri(row(pos)) == j)))
    # every position decodes to a valid pair (g onto): p < tri(n) -> 0 <= col < row < n
    from contracts.c07 import row_def
    out.append(("position_pair", [p >= 0, p < tri(n), n >= 0, row_def(p), tri_unfold(row(p)), tri_mono(n - 1, row(p)),
                                  z3.Implies(row(p) == n, tri(n) <= p)],
                z3.And(row(p) >= 1, row(p) < n, p - tri(row(p)) >= 0, p - tri(row(p)) < row(p))))
    # chunk tiling
    T, N, c = z3.Ints("T N c")
    base = [T >= 0, N >= 1, c >= 0, c < N, chunk_def(T, N, c), chunk_def(T, N, c + 1), chunk_def(T, N, 0), chunk_def(T, N, N - 1)]
    out.append(("tiling:first", base, cstart(T, N, 0) == 0))
    out.append(("tiling:last", base, cend(T, N, N - 1) == T))
    out.append(("tiling:adjacent", base, cend(T, N, c) == cstart(T, N, c + 1)))
    out.append(("tiling:sizes", base, z3.And(cend(T, N, c) - cstart(T, N, c) >= T / N, cend(T, N, c) - cstart(T, N, c) <= T / N + 1)))
    out.append(("tiling:monotone", base, z3.And(0 <= cstart(T, N, c), cstart(T, N, c) <= cend(T, N, c), cend(T, N, c) <= T)))
    return out
