"""C17 — Sampling follows the burn-in/thinning schedule; each chain gets its own stream."""
PROPERTY = "C17"
LEVEL = "proof"
CONTRACT_MODULES = ["contracts.c17"]
CARRIERS = ["batchie.sampling.sample", "batchie.cli.train_model.main@sample_call"]
LEAN = ["Batchie.div_succ", "Batchie.div_exact"]
NATIVE = "c17.py"
EXPLANATION = (
    "cli/train_model.main hands --seed, --n-chains, --chain-index, --n-burnin, --thin, the trained model and the holder sized --n-samples to sampling.sample unchanged (call plumbing, proved as a region of main). "
    "Body of sampling.sample proved, for every burn-in b>=0, thinning t>=1, count n>=0, seed, n_chains>=1 and "
    "chain_index below it, against: the model is reset exactly once and before set_rng and before any step; final step "
    "count = b + n*t; the j-th recorded state is the one after step b+(j+1)*t; the holder is complete and add_theta never "
    "refuses; the generator handed over is default_rng(SeedSequence(seed).spawn(n_chains)[chain_index]) - an "
    "uninterpreted function of exactly that triple; ValueError iff an MCMC option is None or the model is neither kind; "
    "VI branch asks for exactly n samples once and stores them in order. The model is an arbitrary object behind "
    "abstract method contracts with ghost state (step counter, flags). ThetaHolder.add_theta / n_thetas are the real "
    "code, inlined.")
TRUSTED = [
    "pyvc symbolic executor; z3 5.1; Lean 4.33 + Mathlib (div_succ, div_exact)",
    "abstract contracts of MCMCModel.step/get_model_state, BayesianModel.reset_model/set_rng, VIModel.sample (ghost counters)",
    "numpy: default_rng(x), SeedSequence(seed).spawn(n)[i] are functions of their arguments (assumed)",
    "numpy: distinct spawn indices give independent, non-overlapping streams (assumed library guarantee; only a small native conformance check)",
]
ASSUMPTIONS = [
    "different chain index => different non-overlapping stream is numpy's SeedSequence.spawn guarantee, not proved here",
    "the progress-bar wrappers (trange) are the identity on the iteration space",
]
