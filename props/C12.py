"""C12 — Plates are observed atomically; revealing is exact, monotone, value-preserving."""
from pyvc.lib import arrays
arrays.FLOAT_AS[0] = "val"
PROPERTY = "C12"
LEVEL = "proof"
CONTRACT_MODULES = ["contracts.c12"]
CARRIERS = ["batchie.data.Screen.__init__", "batchie.retrospective.reveal_plates", "batchie.retrospective.mask_screen",
            "batchie.retrospective.unmask_screen", "batchie.data.Screen.set_observed", "batchie.cli.reveal_plate.main@call"]
NATIVE = "c12.py"
EXPLANATION = (
    "Screen.__init__ body proved (6 variants: arity 1-3, with/without observations, mask, supplied mappings) against the class "
    "invariant: equal column lengths, per-plate observation status uniform (loop invariant over np.unique(plate_names)), "
    "ValueError iff lengths differ / a plate is mixed / a supplied mapping is not dense or does not cover the data, "
    "observations without mask => all observed, no observations => all unobserved and zeros, ids decode through the "
    "mappings. reveal_plates proved: new mask = old mask OR (plate id in the requested set) - exact and monotone; names, "
    "doses, samples, plate names and the observation array are the very same arrays (value-preserving); id mappings carried "
    "over verbatim; the result satisfies the class invariant again (so every history keeps plates atomic, by induction over "
    "operations); ValueError iff the revealed values are all zero (vacuously for unknown ids) or contain NaN. "
    "mask_screen / unmask_screen: constant masks, same arrays. set_observed: exactly the given values at exactly the "
    "selected rows, mask = old OR selection. The id encoders (pandas) are used through assumed contracts (see C01). NOT "
    "proved: the plate-count clause and the reveal_plate / extract_screen_metadata command lines (bounded native check only).")
TRUSTED = ["pyvc symbolic executor; z3 5.1", "numpy models (selection theory, isin, unique, concatenate, split, vstack, .T, isnan) in pyvc.lib",
           "assumed contracts of encode_1d_array_to_0_indexed_ids / encode_treatment_arrays_to_0_indexed_ids / numpy_array_is_0_indexed_integers (pandas code; subject of C01)",
           "observation values are opaque payloads with an isnan predicate and a distinguished zero"]
ASSUMPTIONS = ["save/load steps inside histories rely on C02's round-trip (assumed h5py contract)",
               "the count of unobserved plates dropping by the number of newly revealed plates is checked natively only (bounded)"]
