"""C04 — Masked observations never influence training, scoring or selection."""
import time
import z3
from pyvc.lib import arrays
arrays.FLOAT_AS[0] = "val"
PROPERTY = "C04"
LEVEL = "proof"
CONTRACT_MODULES = ["contracts.c04"]
CARRIERS = ["batchie.core.BayesianModel.add_observations", "batchie.models.sparse_combo.SparseDrugCombo._add_observations", "batchie.cli.train_model.main@trains_on"]
NATIVE = "c04.py"
B = "batchie."
READ_FREE_ENTRIES = [
    B + "scoring.main.score_chunk", B + "scoring.main.select_next_plate",
    B + "scoring.main.ChunkedScoresHolder.add_score", B + "scoring.main.ChunkedScoresHolder.plate_id_with_minimum_score",
    B + "scoring.main.ChunkedScoresHolder.combine", B + "scoring.main.ChunkedScoresHolder.concat",
    B + "scoring.gaussian_dbal.GaussianDBALScorer.score", B + "scoring.rand.RandomScorer.score", B + "scoring.size.SizeScorer.score",
    B + "distance_calculation.calculate_pairwise_distance_matrix_on_predictions",
    B + "models.main.predict_viability_all", B + "models.main.predict_mean_all", B + "models.main.predict_variance_all",
    B + "models.main.predict_mean_avg", B + "models.main.predict_viability_avg",
    B + "models.sparse_combo.SparseDrugComboMCMCSample.predict_viability", B + "models.sparse_combo.SparseDrugComboMCMCSample.predict_conditional_mean",
    B + "models.sparse_combo.SparseDrugComboMCMCSample.predict_conditional_variance",
    B + "models.sparse_combo_interaction.SparseDrugComboInteractionMCMCSample.predict_viability",
    B + "models.sparse_combo_interaction.SparseDrugComboInteractionMCMCSample.predict_conditional_mean",
    B + "models.sparse_combo_interaction.SparseDrugComboInteractionMCMCSample.predict_conditional_variance",
    B + "policies.k_per_sample.KPerSamplePlatePolicy.filter_eligible_plates", B + "data.filter_dataset_to_unique_treatments",
    B + "data.ScreenSubset.combine", B + "data.ScreenSubset.concat", B + "data.ScreenSubset.subset",
    B + "cli.calculate_scores.main", B + "cli.select_next_plate.main", B + "cli.calculate_distance_matrix.main"]
TECHNIQUE = ("contract-based: read-frame conditions (no read of Screen.observations / single_treatment_effects reachable) decided by a "
             "modular effect inference over the real source; training-data contracts of the model entry points discharged by z3")
EXPLANATION = (
    "cli/train_model.main gives the model, at most once, exactly the object returned by data.subset_observed() - never the screen itself - and nothing when no row is observed (proved as a region of main). "
    "(a) Read frames: for score_chunk, select_next_plate, the scores holder, the three scorers, the pairwise distance "
    "computation, every predict_* of both posterior-sample types and of models.main, the policy, the unique filter, the "
    "view algebra and the three command lines that score / select / compute distances, no attribute read of observations, "
    "_observations, single_treatment_effects or set_observed is reachable through the call graph (dynamic dispatch resolved "
    "through the class hierarchy) - so their results are functions of the other fields only (non-interference). "
    "(b) Training data, proved by z3 from the bodies: BayesianModel.add_observations raises ValueError iff a selected row is "
    "masked and otherwise hands the very same view to _add_observations exactly once; SparseDrugCombo._add_observations "
    "raises ValueError iff some selected observation is not >= 0 (NaN included: IEEE comparison is False) or transforms to "
    "NaN, otherwise appends exactly one record (logit(clip(float32(obs),0.01,0.99)), sample id, treatment id 0, treatment "
    "id 1) per selected row, in row order, leaving earlier records untouched. SMT lemma selection_noninterference: two screens "
    "that agree on the mask and on all observed values give equal arrays at the observed rows. "
    "SparseDrugComboInteraction: row choice was wrong on the pinned tree (fixed, commit 5deb2df); its missing refusal of "
    "negative/NaN input is a recorded known finding; its body and cli/train_model.main are checked natively only (bounded).")
TRUSTED = ["pyvc.effects call resolution (imports, class hierarchy, annotations, same-class heuristic for untyped receivers inside methods)",
           "pyvc symbolic executor; z3 5.1; numpy selection theory", "float payload model: opaque values with IEEE-consistent comparison predicates; "
           "float32 rounding / clip / logit are opaque functions through which NaN propagates",
           "LegacySparseDrugComboImpl._update appends one record (abstract contract; index dictionaries are C08's subject)"]
ASSUMPTIONS = ["posterior samples are a function of (training records, random draws): see C18 for where the draws come from",
               "no reflection (getattr/vars/__dict__) on Screen objects in the analysed functions (mechanically scanned)"]


def static_obligations(tier):
    from pyvc import effects
    t0 = time.time()
    U = effects.Universe()
    out = []
    for e in READ_FREE_ENTRIES:
        if e not in U.functions:
            out.append({"name": "C04/reads:%s" % e, "loc": "", "kind": "frame", "result": "failed", "time_s": 0.0, "model": None,
                        "reason": "entry point not found in current source", "hash": "", "smt2_bytes": 0, "backend": "pyvc.effects"})
            continue
        r = U.analyze(e)
        rd = sorted(set(s.key + "@" + str(s.lineno) for s in r["sites"] if s.kind == "READ"))
        refl = _reflection(U, e)
        ok = not rd and not refl
        out.append({"name": "C04/reads:%s" % e, "loc": "", "kind": "frame", "result": "unsat" if ok else "failed", "time_s": 0.0, "model": None,
                    "reason": ("reads: " + ", ".join(rd))[:1500] + (" reflection: %s" % refl if refl else ""), "hash": "", "smt2_bytes": 0, "backend": "pyvc.effects"})
    dt = time.time() - t0
    for o in out:
        o["time_s"] = round(dt / max(1, len(out)), 4)
    return out


def _reflection(U, e):
    import ast
    m, node, _ = U.functions[e]
    bad = []
    for n in ast.walk(node):
        if isinstance(n, ast.Call) and isinstance(n.func, ast.Name) and n.func.id in ("getattr", "setattr", "vars", "eval", "exec"):
            bad.append("%s@%s" % (n.func.id, n.lineno))
        if isinstance(n, ast.Attribute) and n.attr in ("__dict__", "__getattribute__"):
            bad.append("%s@%s" % (n.attr, n.lineno))
    return bad


def lemmas():
    from pyvc.values import Int, Val, Bool
    from pyvc.lib.arrays import rank, idx
    VA, BA = z3.ArraySort(Int, Val), z3.ArraySort(Int, Bool)
    o1, o2, m = z3.Const("obs1", VA), z3.Const("obs2", VA), z3.Const("mask", BA)
    n, k, r = z3.Ints("n k r")
    agree = z3.ForAll([r], z3.Implies(z3.And(r >= 0, r < n, z3.Select(m, r)), z3.Select(o1, r) == z3.Select(o2, r)))
    idx_ok = z3.Implies(z3.And(k >= 0, k < rank(m, n)), z3.And(idx(m, n, k) >= 0, idx(m, n, k) < n, z3.Select(m, idx(m, n, k))))
    return [("selection_noninterference", [agree, k >= 0, k < rank(m, n), idx_ok],
             z3.Select(o1, idx(m, n, k)) == z3.Select(o2, idx(m, n, k)))]
