"""C14 — Subset and plate views are exact row selections with set-algebra semantics."""
from pyvc.lib import arrays
arrays.FLOAT_AS[0] = "val"   # observation values are opaque payloads: equality = bit identity
PROPERTY = "C14"
LEVEL = "proof"
CONTRACT_MODULES = ["contracts.c14"]
S = "batchie.data.ScreenSubset."
CARRIERS = [S + "__init__"] + [S + g for g in ("plate_ids", "sample_ids", "treatment_ids", "sample_names", "treatment_names",
                                              "treatment_doses", "observations", "observation_mask")] + [
    S + "invert", S + "combine", S + "subset", "batchie.data.Screen.subset", "batchie.data.Screen.subset_observed",
    "batchie.data.Screen.subset_unobserved", "batchie.data.Screen.get_plate", "batchie.data.Plate.plate_id",
    "batchie.data.Plate.plate_name"]
NATIVE = "c14.py"
EXPLANATION = "work in progress"
TRUSTED = ["pyvc symbolic executor; z3 5.1", "numpy selection theory (rank/idx), scatter, np.where, np.unique models (pyvc.lib)",
           "Screen.__init__ assumed contract (C01 covers its body)"]
ASSUMPTIONS = []
