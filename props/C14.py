"""C14 — Subset and plate views are exact row selections with set-algebra semantics."""
from pyvc.lib import arrays
arrays.FLOAT_AS[0] = "val"   # observation values are opaque payloads: equality = bit identity
PROPERTY = "C14"
LEVEL = "proof"
CONTRACT_MODULES = ["contracts.c14"]
S = "batchie.data.ScreenSubset."
CARRIERS = [S + "__init__"] + [S + g for g in ("plate_ids", "sample_ids", "treatment_ids", "sample_names", "treatment_names",
                                              "treatment_doses", "observations", "observation_mask")] + [
    S + "invert", S + "combine", S + "subset", "batchie.data.Screen.subset", "batchie.data.Screen.subset_observed",
    "batchie.data.Screen.subset_unobserved", "batchie.data.Screen.get_plate", "batchie.data.Screen.plates",
    "batchie.data.Plate.plate_id", "batchie.data.Plate.plate_name", S + "concat", S + "to_screen",
    "batchie.common.select_unique_zipped_numpy_arrays", "batchie.data.filter_dataset_to_unique_treatments", "batchie.data.filter_dataset_to_unique_treatments@view"]
NATIVE = "c14.py"
EXPLANATION = (
    "Bodies of ScreenSubset.__init__, its eight per-experiment getters, invert, combine, concat (symbolic-length list), subset, "
    "to_screen, Plate.plate_id/plate_name, Screen.subset/subset_observed/subset_unobserved/get_plate/plates, "
    "select_unique_zipped_numpy_arrays (2-4 columns) and filter_dataset_to_unique_treatments (arity 1-3) proved against: "
    "getter = parent's column at the selected rows in parent order (rank/idx selection theory); invert = pointwise "
    "complement; combine/concat = pointwise union, ValueError iff parents differ (by identity), operands unchanged - an "
    "in-place write into an operand's vector fails a frame obligation; subset composes as sel[i] & inner[rank(sel,i)] in a "
    "NEW vector and leaves the outer view untouched; observed/unobserved views are the mask / its complement and None iff "
    "empty; plates = one non-empty view per distinct plate id, ascending, covering every row; to_screen = the six columns "
    "selected in order + same control name; unique filter = exactly one representative per distinct (sample, treatment ids) "
    "tuple; applied to a VIEW (the way score_chunk conditions a candidate plate on the batch) it returns a new view of the same parent that "
    "selects, among the rows of the view, exactly one row per distinct tuple and leaves the operand untouched (arity 1-3). Observation values are opaque payloads, so 'same value' is identity in the logic.")
TRUSTED = ["pyvc symbolic executor; z3 5.1", "numpy selection theory (rank/idx), scatter, np.where, np.unique models (pyvc.lib)",
           "Screen.__init__ assumed contract (C01 covers its body)"]
ASSUMPTIONS = []
