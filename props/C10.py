"""C10 — Posterior-sample collections persist exactly and keep chain-major order."""
from pyvc.lib import arrays
arrays.FLOAT_AS[0] = "val"
PROPERTY = "C10"
LEVEL = "other"
CONTRACT_MODULES = ["contracts.c10"]
CARRIERS = ["batchie.core.ThetaHolder.get_theta", "batchie.core.ThetaHolder.add_theta", "batchie.core.ThetaHolder.combine",
            "batchie.core.ThetaHolder.concat", "batchie.cli.evaluate_model.main@chain_ids", "scenarios.c10.holder_roundtrip", "batchie.core.ThetaHolder.save_h5@empty_guard"]
NATIVE = "c10.py"
EXPLANATION = (
    "PROVED from the bodies, for every number of chains and of samples per chain: get_theta refuses exactly the positions outside "
    "0..len-1 and otherwise returns the sample at that position, holder unchanged; add_theta refuses exactly when the declared "
    "size is reached and otherwise appends at the end; combine = samples of self followed by samples of other, declared size "
    "the sum, operands unchanged, new holder; concat refuses the empty list and otherwise holds flat(instances) - the "
    "recursively specified chain-major flattening (all of chain 0 in step order, then chain 1, ...), declared size the sum "
    "(loop invariant over the chains, combine used through its contract); the chain-id loop of cli/evaluate_model.main "
    "(verified as a REGION of main(): `chain_ids = []` .. `chain_ids = np.array(...)`, live-in = the list of loaded holders) "
    "labels position p with the index of the holder whose block of DECLARED size contains p, in command-line order. LEMMA "
    "(SMT induction): when every holder is complete (stored samples = declared size, which load_h5/save_h5 maintain for complete "
    "chains) the label of position p equals the chain the p-th sample of concat came from. The guard at the top of save_h5 (verified as a region) raises ValueError exactly for an empty collection. BOUNDED ONLY (native/c10.py, real "
    "code and real h5py): save/load bit-exactness and numeric group order (1..101 samples, denormals, non-float32 values, empty "
    "single-effect table), from_dicts/dicts of both sample types (dataclass plumbing and h5py groups with symbolic names are "
    "outside the VC generator), the refusal to save an empty collection, and evaluate_model end to end. Because the "
    "persistence clause is bounded only, the property is claimed at level 'other'.")
TRUSTED = ["pyvc symbolic executor; z3 5.1", "immutable-view use of the combine contract inside concat (the contract proved for heap holders, stated on tokens)",
           "python list semantics: +, append, extend, [x]*n, slicing"]
ASSUMPTIONS = ["the rest of evaluate_model.main (argparse, loading, prediction) is outside the verified region; the region's live-in is typed as a list of holders",
               "chain-id / sample alignment needs complete holders (len(thetas) == n_thetas)"]


def lemmas():
    import z3
    from contracts.c10 import flat_len, n_sum, chain_of, chain_lab, unfold, unfold_lab, base, InstArr, tok_n, tok_thetas, _NoAssume
    inst = z3.Const("inst", InstArr)
    k, p = z3.Ints("k p")
    th = tok_thetas(_NoAssume, z3.Select(inst, k))
    agree = lambda kk: z3.And(flat_len(inst, kk) == n_sum(inst, kk), z3.ForAll([p], z3.Implies(z3.And(p >= 0, p < flat_len(inst, kk)), chain_lab(inst, kk, p) == chain_of(inst, kk, p))))  # noqa
    return [("labels_match_chains_for_complete_holders:base", base(inst), agree(z3.IntVal(0))),
            ("labels_match_chains_for_complete_holders:step", [k >= 0, agree(k), th.length == tok_n(z3.Select(inst, k))] + unfold(_NoAssume, inst, k) + unfold_lab(inst, k), agree(k + 1))]
