"""C11 — Retrospective preparation conserves experiments; the hold-out split partitions."""
from pyvc.lib import arrays
arrays.FLOAT_AS[0] = "val"
PROPERTY = "C11"
LEVEL = "proof"
CONTRACT_MODULES = ["contracts.c11", "contracts.c03"]
R = "batchie.retrospective."
CARRIERS = ["batchie.data.Screen.combine", "batchie.data.Screen.concat", "batchie.core.RetrospectivePlateGenerator.generate_plates",
            "batchie.core.RetrospectivePlateSmoother.smooth_plates", R + "PlatePermutationPlateGenerator._generate_plates", R + "PlatePermutationPlateGenerator._generate_plates@force_include",
            R + "create_random_holdout", R + "create_plate_balanced_holdout_set_among_masked_plates",
            "batchie.data.ScreenSubset.to_screen", "batchie.data.Screen.__init__"]
LEAN = ["Batchie.scatter_count", "Batchie.filter_partition", "Batchie.rank_complement", "Batchie.rank_none_or_all"]
NATIVE = "c11.py"
EXPLANATION = (
    "An experiment is (sample name, treatment names, doses, observation payload); conservation is stated with an explicit "
    "index map from output rows to input rows. PROVED from the bodies: Screen.combine = rows of self followed by rows of "
    "other (all columns incl. plate labels and mask); the template methods generate_plates / smooth_plates, for ANY override "
    "satisfying the abstract contract (output rows = input rows under an injective index map; generators keep the count): "
    "output = generated part (all from unobserved input rows) followed by the observed part unchanged, in order, still "
    "observed, with its plate labels; counts add up (Lean rank_complement); the input screen is returned unchanged when "
    "nothing is unobserved. PlatePermutationPlateGenerator._generate_plates proved against the abstract contract (only plate "
    "labels are permuted; every row kept; all unobserved); the same generator with plates excluded from the permutation "
    "(force_include_plate_names non-empty, contract ...@force_include): the permuted part followed by the untouched part still has every "
    "experiment - count kept (Lean rank_complement) and every output row is an input row. Hold-out splitters (contracts/c03.py): training = rows at the "
    "complement of the selection, hold-out = rows at the selection, column by column incl. plate labels (a partition; "
    "multiset form by Lean filter_partition), hold-out fully observed, training mask kept; create_random_holdout takes "
    "exactly ceil(fraction*size) rows (Lean scatter_count); the plate-balanced splitter takes nothing from observed plates. "
    "BOUNDED ONLY: the per-plate ceil(fraction x |plate|) count of the plate-balanced splitter, and the other shipped "
    "generators / smoothers (SampleSegregating, Pairwise, FixedSize, OptimalSize, NPlatePerCellLine, Merge*) as instances "
    "of the abstract contract.")
TRUSTED = ["pyvc symbolic executor; z3 5.1; Lean 4.33 + Mathlib", "numpy selection theory, concatenate, rng.permutation / rng.choice models",
           "assumed encoder contracts (C01)", "abstract contracts of _generate_plates / _smooth_plates (index-map form); overrides other than "
           "PlatePermutationPlateGenerator are checked against them natively only"]
ASSUMPTIONS = ["observation values are opaque payloads (equality = bit identity)"]
