"""C02 — Screen and experiment-space persistence is lossless."""
from pyvc.lib import arrays
arrays.FLOAT_AS[0] = "val"
PROPERTY = "C02"
LEVEL = "proof"
CONTRACT_MODULES = ["contracts.c02"]
CARRIERS = ["batchie.data.Screen.save_h5", "scenarios.c02.screen_roundtrip", "scenarios.c02.space_roundtrip", "batchie.data.Screen.__init__"]
NATIVE = "c02.py"
EXPLANATION = (
    "Screen.save_h5 body proved: the ghost file holds every one of the 14 datasets (names, doses, ids, both id mappings, "
    "observations, mask, sample/plate ids and names) equal to the corresponding field, and the control-name attribute. "
    "Scenario screen_roundtrip (the real save_h5 and load_h5 bodies executed symbolically one after the other, arity 1-3, "
    "for an arbitrary well-formed screen, in particular with mappings that list conditions absent from the rows): the loaded "
    "screen is equal in every observable - all per-experiment columns incl. observation payloads (bit identity) and mask, "
    "control name, treatment/sample/plate ids, and both mappings element by element; the constructor is shown not to raise "
    "and the result satisfies the class invariant again, so a second cycle is a fixed point (equality of observables is an "
    "equivalence; induction on the number of cycles). load_h5 passes BOTH mappings to the constructor - dropping either one "
    "fails the obligation lossless:_sample_ids / _treatment_ids. Plate ids: the encoder is a deterministic function of the "
    "names. ExperimentSpace round trip proved likewise. h5py and np.char.encode/decode are assumed contracts (conformance-"
    "tested natively on non-ASCII / empty / unequal-length names).")
TRUSTED = ["pyvc symbolic executor; z3 5.1", "h5py model: datasets/attributes read back what was written (pyvc.lib.h5)",
           "np.char.decode(np.char.encode(a), 'utf-8') == a for str arrays (assumed)",
           "assumed encoder contracts (pandas; C01), incl. that encode_1d is a deterministic function of its input"]
ASSUMPTIONS = ["bit-for-bit float storage and utf-8 round trip are library behaviour (assumed, conformance-tested natively)",
               "np.char.encode / decode are modelled as inverse element-wise maps that keep the shape; this holds for non-empty arrays only (np.char.encode of an EMPTY array returns an "
               "empty float64 array of shape (0,)): the zero-row screen is therefore decided by the native harness, where it fails - known finding F9, listed in known_findings.json"]
