"""C03 — Identifiers stay stable through the whole simulation lifecycle."""
import z3
from pyvc.lib import arrays
arrays.FLOAT_AS[0] = "val"
PROPERTY = "C03"
LEVEL = "proof"
CONTRACT_MODULES = ["contracts.c03", "contracts.c12"]
R = "batchie.retrospective."
CARRIERS = [R + "create_random_holdout", R + "create_plate_balanced_holdout_set_among_masked_plates",
            R + "reveal_plates", R + "mask_screen", R + "unmask_screen", "batchie.data.Screen.__init__",
            "batchie.data.ExperimentSpace.from_screen"]
NATIVE = "c03.py"
EXPLANATION = (
    "Relation Stable(s,t): t carries s's sample and treatment mappings verbatim (the same array objects) and both satisfy "
    "the Screen class invariant (every row's id decodes through the mapping to its name / (name, dose); mapping keys "
    "pairwise distinct). Proved from the bodies: both hold-out splitters give Stable(input, training) and Stable(input, "
    "hold-out); reveal_plates, mask_screen, unmask_screen give Stable(input, output) (after fix f59f7cc; on the pinned tree "
    "this obligation failed with a replayable witness); Screen.__init__ follows a supplied mapping verbatim and raises "
    "ValueError iff it is not dense or does not cover the data; ExperimentSpace.from_screen takes the screen's own mappings. "
    "SMT lemma same_mapping_same_id: two well-formed screens with the same mapping give equal names the same sample id and "
    "equal (name, dose) the same treatment id; Stable is reflexive and transitive (identity of arrays), so every history of "
    "reveal/mask/unmask steps in any order keeps ids - by induction on the history. Embedding sizes are functions of the "
    "mapping arrays only, hence equal across stages. Save/load steps are C02's round trip (mappings restored verbatim). "
    "Prediction equality across stages follows with C09's row-purity contract. NOT proved here: the argparse plumbing of "
    "cli/reveal_plate.main and cli/train_model.main (bounded native check).")
TRUSTED = ["pyvc symbolic executor; z3 5.1", "numpy models in pyvc.lib (selection theory, scatter, isin, unique, ...)",
           "assumed encoder contracts (pandas; C01)", "rng.choice(replace=False) returns pairwise distinct members (numpy contract)",
           "Lean: scatter_count (hold-out size), filter_partition"]
ASSUMPTIONS = ["h5 save/load preserves mappings (C02)", "CLI plumbing checked natively only"]


def lemmas():
    """same mapping + both rows decode + distinct keys  =>  equal names have equal ids"""
    from pyvc.values import Int, Str, Real
    SA, IA, RA = z3.ArraySort(Int, Str), z3.ArraySort(Int, Int), z3.ArraySort(Int, Real)
    mn, mi = z3.Const("mn", SA), z3.Const("mi", IA)
    m, k1, k2, k, kk = z3.Ints("m k1 k2 k kk")
    name = z3.Const("name", Str)
    id1, id2 = z3.Ints("id1 id2")
    distinct = z3.ForAll([k, kk], z3.Implies(z3.And(k >= 0, k < kk, kk < m), z3.Select(mn, k) != z3.Select(mn, kk)))
    out = [("same_mapping_same_sample_id",
            [distinct, k1 >= 0, k1 < m, k2 >= 0, k2 < m, z3.Select(mn, k1) == name, z3.Select(mi, k1) == id1,
             z3.Select(mn, k2) == name, z3.Select(mi, k2) == id2], id1 == id2)]
    md = z3.Const("md", RA)
    dose = z3.Real("dose")
    distinct2 = z3.ForAll([k, kk], z3.Implies(z3.And(k >= 0, k < kk, kk < m), z3.Or(z3.Select(mn, k) != z3.Select(mn, kk), z3.Select(md, k) != z3.Select(md, kk))))
    out.append(("same_mapping_same_treatment_id",
                [distinct2, k1 >= 0, k1 < m, k2 >= 0, k2 < m, z3.Select(mn, k1) == name, z3.Select(md, k1) == dose, z3.Select(mi, k1) == id1,
                 z3.Select(mn, k2) == name, z3.Select(md, k2) == dose, z3.Select(mi, k2) == id2], id1 == id2))
    return out
