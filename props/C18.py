"""C18 — Randomised steps are deterministic in their inputs and the given generator/seed."""
import time
PROPERTY = "C18"
LEVEL = "proof"
CONTRACT_MODULES = ["contracts.c18"]
CARRIERS = ["batchie.cli.argument_parsing.get_prng_from_seed_argument"]
NATIVE = "c18.py"
TECHNIQUE = ("contract-based frame conditions: det() obligations decided by a modular effect inference over the real source "
             "(call graph by contracts of the class hierarchy), plus one z3-discharged contract for the seed plumbing")
# entry points: (qualname, parameters that may legitimately be None-guarded: API functions that document `rng` as optional)
B = "batchie."
API_OPTIONAL_RNG = {B + "scoring.main.score_chunk": ["rng"], B + "scoring.main.select_next_plate": ["rng"],
                    B + "fast_mvn.sample_mvn_from_precision": ["rng"]}
ENTRY_CLASSES = [B + "core.RetrospectivePlateGenerator", B + "core.RetrospectivePlateSmoother",
                 B + "core.InitialRetrospectivePlateGenerator", B + "core.Scorer", B + "core.PlatePolicy"]
ENTRY_METHODS = {"RetrospectivePlateGenerator": ["generate_plates", "_generate_plates"], "RetrospectivePlateSmoother": ["smooth_plates", "_smooth_plates"],
                 "InitialRetrospectivePlateGenerator": ["generate_and_unmask_initial_plate", "_generate_and_unmask_initial_plate"],
                 "Scorer": ["score"], "PlatePolicy": ["filter_eligible_plates"]}
ENTRY_FUNCS = [B + "retrospective.create_random_holdout", B + "retrospective.create_plate_balanced_holdout_set_among_masked_plates",
               B + "scoring.gaussian_dbal.dbal_fast_gauss_scoring_vectorized", B + "scoring.gaussian_dbal.dbal_fast_gaussian_scoring_homoscedastic",
               B + "scoring.gaussian_dbal.dbal_fast_gaussian_scoring_heteroscedastic", B + "scoring.main.score_chunk",
               B + "scoring.main.select_next_plate", B + "sampling.sample", B + "fast_mvn.sample_mvn_from_precision",
               B + "cli.prepare_retrospective_simulation.main", B + "cli.calculate_scores.main", B + "cli.select_next_plate.main",
               B + "cli.train_model.main", B + "cli.argument_parsing.get_prng_from_seed_argument"]
EXPLANATION = (
    "Determinism is a frame condition: under the stated precondition no nondeterministic primitive is reachable. pyvc.effects "
    "infers, for every function reachable from each randomised operation (every shipped generator, smoother, initial-plate "
    "generator, scorer and policy found in the class hierarchy at run time, both hold-out splitters, the DBAL kernels, "
    "score_chunk, select_next_plate, sampling.sample -> model.step of every MCMC model, sample_mvn_from_precision, and the four "
    "command lines that take --seed), the set of: module-level numpy.random / random / time / uuid calls, unseeded "
    "default_rng()/SeedSequence(), iteration over a set (PYTHONHASHSEED-dependent order), and `default_rng()` fall-backs "
    "guarded by `if rng is None` - the latter must be discharged by an argument at every call site on the path (CLI mains "
    "must pass the generator built from --seed). One obligation per entry point and one per offending site; sites have "
    "refactor-stable keys so a NEW global-RNG call is a violation even inside a function that already has known ones. "
    "get_prng_from_seed_argument is proved (z3) to return default_rng(SeedSequence(args.seed).generate_state(1)[0]), a "
    "function of args.seed only. Given det() and the library assumption that numpy/pandas functions are functions of "
    "their arguments and of the Generator passed, equal inputs + identically seeded generator give equal outputs and the "
    "global state is neither read nor advanced.")
TRUSTED = ["pyvc.effects call resolution (by import, class hierarchy, parameter annotations; otherwise every /repo class defining the method name)",
           "numpy/pandas/scipy functions are deterministic functions of their arguments and of the Generator passed (library assumption)",
           "no reflection / monkey-patching of numpy.random inside the analysed code (mechanically scanned names only)",
           "z3 5.1 for the seed-plumbing contract"]
ASSUMPTIONS = ["dict iteration order is insertion order (Python >= 3.7)", "floating point reductions are deterministic for equal inputs on one machine"]


def static_obligations(tier):
    from pyvc import effects
    t0 = time.time()
    U = effects.Universe()
    entries = list(ENTRY_FUNCS)
    for cq in ENTRY_CLASSES:
        short = cq.rsplit(".", 1)[1]
        for sub in U.subclasses(cq):
            for mname in ENTRY_METHODS[short]:
                q = sub + "." + mname
                if q in U.functions:
                    entries.append(q)
    out = []
    seen_sites = {}
    for e in sorted(set(entries)):
        if e not in U.functions:
            out.append({"name": "C18/det:%s" % e, "loc": "", "kind": "frame", "result": "failed", "time_s": 0.0, "model": None,
                        "reason": "entry point not found in current source", "hash": "", "smt2_bytes": 0, "backend": "pyvc.effects"})
            continue
        r = U.analyze(e)
        bad = [s for s in r["sites"] if s.kind in ("NONDET", "SETITER")]
        unmet = {p: v for p, v in r["needs"].items() if p not in API_OPTIONAL_RNG.get(e, []) and not _is_method_param_ok(e, p)}
        for s in bad:
            seen_sites.setdefault(s.key, s)
        ok = not bad and not unmet
        why = ""
        if not ok:
            why = "reachable: " + ", ".join(sorted(set(s.key for s in bad)))[:1500] + (" ; unseeded fall-back needs " + repr(unmet) if unmet else "")
        out.append({"name": "C18/det:%s" % e, "loc": "", "kind": "frame", "result": "unsat" if ok else "failed", "time_s": 0.0,
                    "model": None, "reason": why, "hash": "", "smt2_bytes": 0, "backend": "pyvc.effects"})
    for k, s in sorted(seen_sites.items()):
        out.append({"name": "C18/site:%s" % k, "loc": "line %s" % s.lineno, "kind": "frame", "result": "failed", "time_s": 0.0, "model": None,
                    "reason": "%s primitive %s" % (s.kind, s.callee), "hash": "", "smt2_bytes": 0, "backend": "pyvc.effects"})
    dt = time.time() - t0
    for o in out:
        o["time_s"] = round(dt / max(1, len(out)), 4)
    return out


def _is_method_param_ok(entry, p):
    # methods of the pluggable classes receive `rng` from their caller (template methods / CLI); an optional rng parameter
    # of such a method is part of its documented interface
    return entry.rsplit(".", 1)[-1] in ("score", "filter_eligible_plates") and p == "rng"
