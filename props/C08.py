"""C08 — Each Gibbs block draws from the exact full conditional of the documented model."""
from pyvc.lib import arrays
arrays.FLOAT_AS[0] = "real"
PROPERTY = "C08"
LEVEL = "other"
CONTRACT_MODULES = ["contracts.c08"]
CARRIERS = ["batchie.models.sparse_combo.LegacySparseDrugComboImpl.mcmc_step"]
NATIVE = "c08.py"
EXPLANATION = (
    "The central claim - each update is DRAWN FROM the full conditional - is a statement about probability distributions of "
    "floating-point linear-algebra code (Cholesky solves, gamma / normal draws from numpy's global generator); no pre/post-condition "
    "logic within reach expresses 'is distributed as', and the block bodies are 3-index float tensor expressions outside the VC "
    "generator. NOT APPLICABLE to contracts for those clauses; they are covered by the BOUNDED oracle harness native/c08.py (real "
    "sampler, every primitive draw's arguments compared with an independent derivation from the model and priors; fitted-value "
    "cache; mvn routine mean/covariance; exported sample). PROVED (pyvc, from the body of mcmc_step with the twelve block methods "
    "as recorded stubs): one step counts itself, rebuilds the fitted values unclipped first, then visits every one of the twelve "
    "blocks exactly once in the documented order, all Gaussian blocks before the precision blocks. Level 'other'.")
TRUSTED = ["pyvc symbolic executor", "block methods as stubs inside mcmc_step (only 'is called and returns' is used)",
           "native oracle: full conditionals derived from the model definition in the harness docstring"]
ASSUMPTIONS = ["distributional clauses, precision bounds, Mu cache, exported sample: bounded only"]
