"""C08 — Each Gibbs block draws from the exact full conditional of the documented model."""
from pyvc.lib import arrays
arrays.FLOAT_AS[0] = "float"
PROPERTY = "C08"
LEVEL = "other"
CONTRACT_MODULES = ["contracts.c08"]
CARRIERS = ["batchie.models.sparse_combo.LegacySparseDrugComboImpl.mcmc_step", "batchie.models.sparse_combo.LegacySparseDrugComboImpl._alpha_step@default", "batchie.models.sparse_combo.LegacySparseDrugComboImpl._prec_W0_step@bounds", "batchie.models.sparse_combo.LegacySparseDrugComboImpl._prec_obs_step@bounds", "batchie.models.sparse_combo.LegacySparseDrugComboImpl._W0_step@cache", "batchie.models.sparse_combo.LegacySparseDrugComboImpl._V0_step@cache"]
NATIVE = "c08.py"
EXPLANATION = (
    "The central claim - each update is DRAWN FROM the full conditional - is a statement about probability distributions of "
    "floating-point linear-algebra code (Cholesky solves, gamma / normal draws from numpy's global generator); no pre/post-condition "
    "logic within reach expresses 'is distributed as', and the block bodies are 3-index float tensor expressions outside the VC "
    "generator. NOT APPLICABLE to contracts for those clauses; they are covered by the BOUNDED oracle harness native/c08.py (real "
    "sampler, every primitive draw's arguments compared with an independent derivation from the model and priors; fitted-value "
    "cache; mvn routine mean/covariance; exported sample). PROVED (pyvc, from the body of mcmc_step with the twelve block methods "
    "as recorded stubs): one step counts itself, rebuilds the fitted values unclipped first, then visits every one of the twelve "
    "blocks exactly once in the documented order, all Gaussian blocks before the precision blocks; _alpha_step under the default "
    "option: the global intercept becomes exactly the mean of the transformed observations and every running fitted value moves "
    "by the same amount (nothing changes without data); _prec_W0_step and _prec_obs_step: exactly one gamma draw whose shape is "
    "prior shape + half the count and whose scale is 1/(prior rate + half the sum of squares (of the intercepts resp. of "
    "observation minus fitted value) + 1e-3) - the parameters of the conjugate full conditional (sum of squares >= 0 by an SMT "
    "induction lemma) - and the stored precision is clipped into [1/sqrt(1+n_obs), 1e6]; without data the observation precision "
    "is drawn from its prior; _W0_step and _V0_step (loop invariants over the samples resp. treatments, cline_idxs / dd1_idxs / dd2_idxs "
    "as 'exactly the rows of that sample / with that treatment in that position, without repetition'): after the block, for EVERY row "
    "the cached fitted value minus the row's own intercept(s) is what it was before - the cache moves by exactly the change of the "
    "parameters it depends on (for V0 under the explicit precondition that no row has the same treatment in both positions, "
    "which numpy's once-per-index `+=` needs). That these PARAMETERS make the draw a sample of the full conditional is the bounded harness's "
    "job, as are all vector-valued blocks. Level 'other'.")
TRUSTED = ["pyvc symbolic executor; z3 5.1", "reals for floats; sqrt as an uninterpreted function with sqrt(x)>=1 for x>=1; x**2 as an opaque non-negative square", "np.random.gamma/normal (global): any value of the support, parameters logged", "block methods as stubs inside mcmc_step (only 'is called and returns' is used)",
           "native oracle: full conditionals derived from the model definition in the harness docstring"]
ASSUMPTIONS = ["distributional clauses, precision bounds, Mu cache, exported sample: bounded only"]


def lemmas():
    """sum_nonneg by induction on n (sumr's unfolding instantiated at n)"""
    import z3
    from pyvc.lib.np_real import sumr, RealArr
    from pyvc.values import Int
    f = z3.Const("f", RealArr)
    n, k = z3.Ints("n k")
    nonneg = lambda m: z3.ForAll([k], z3.Implies(z3.And(k >= 0, k < m), z3.Select(f, k) >= 0))  # noqa
    return [("sum_nonneg:base", [sumr(f, 0) == 0], sumr(f, 0) >= 0),
            ("sum_nonneg:step", [n >= 0, z3.Implies(nonneg(n), sumr(f, n) >= 0), nonneg(n + 1), sumr(f, n + 1) == sumr(f, n) + z3.Select(f, n)], sumr(f, n + 1) >= 0)]
