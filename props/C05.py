"""C05 — A plate's DBAL score depends on that plate alone and equals the direct estimator."""
import time
PROPERTY = "C05"
LEVEL = "other"
CONTRACT_MODULES = []
CARRIERS = []
NATIVE = "c05.py"
KERNEL = "batchie.scoring.gaussian_dbal.dbal_fast_gauss_scoring_vectorized"
EXPLANATION = (
    "The property is an equality of floating-point values with a reference 'to floating-point accuracy' plus invariances: the "
    "numerical equality is NOT decidable by contracts here (3-D float arrays, exp/log/logsumexp; no verifier for IEEE numerics in "
    "this sandbox) - that part is a BOUNDED stand-in (native/c05.py: every entry point against a direct, unpadded loop-by-loop "
    "evaluation of the documented estimator, and all the stated invariances). What IS decided for all inputs, on the real source, "
    "by a dependency-typing contract (pyvc/planewise.py; requires predictions, variances : P(3) - axis 0 = plate - and the "
    "distance matrix, rng, budget : G; ensures result : P(1)): in dbal_fast_gauss_scoring_vectorized the score of plate p is "
    "computed from slice p of the predicted means and variances, the distance matrix and the drawn triple set ONLY - every "
    "operation is element-wise, a gather that leaves the plate axis whole, a broadcast against a value that does not reach the "
    "plate axis, or a reduction along another axis; hence the score cannot change with which other plates are scored alongside. "
    "Padding neutrality, the scorer's regrouping (max_chunk), experiment order and relabelling are bounded only. Level 'other'.")
TRUSTED = ["pyvc.planewise rules: numpy broadcasting / indexing / reduction semantics as read by the checker", "native oracle: documented estimator (docstring formula)"]
ASSUMPTIONS = ["numerical equality, padding neutrality and the scorer entry point: bounded only"]


def static_obligations(tier):
    from pyvc import repo, planewise
    t0 = time.time()
    try:
        m, node = repo.find(KERNEL)
        st, why = planewise.check(node, {"predictions": 3, "variances": 3}, {"distance_matrix": 2, "rng": None, "max_combos": 0, "distance_factor": 0})
    except Exception as e:  # source not found / not parsable
        st, why = "undecided", repr(e)
    res = {"proved": "unsat", "violated": "failed", "undecided": "unknown"}[st]
    return [{"name": "%s/dep:score_of_a_plate_depends_on_that_plate_only" % KERNEL, "loc": "", "kind": "frame", "result": res, "time_s": round(time.time() - t0, 3),
             "model": None, "reason": "" if st == "proved" else why, "hash": "", "smt2_bytes": 0, "backend": "pyvc.planewise"}]
