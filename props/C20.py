"""C20 — Evaluation metrics and synergy values equal their definitions."""
from pyvc.lib import arrays
arrays.FLOAT_AS[0] = "float"
PROPERTY = "C20"
LEVEL = "other"
CONTRACT_MODULES = ["contracts.c20"]
M = "batchie.models.main.ModelEvaluation."
CARRIERS = [M + "__init__", M + "mse", M + "mse_variance", M + "mean_predictions", "scenarios.c20.evaluation_roundtrip", "batchie.retrospective.calculate_mse"]
NATIVE = "c20.py"
TECHNIQUE = ("contract-based deductive verification (pyvc VCs discharged by z3) for the evaluation metrics; the remaining clauses "
             "(inter-chain variance, single-agent effects, synergy, similarity matrix) by a bounded stand-in on the real functions")
EXPLANATION = (
    "PROVED (all inputs, over the reals, every obligation discharged): ModelEvaluation.mse = sum over all (experiment, "
    "sample) pairs of (P[e,t]-o[e])^2 divided by n*m; mse_variance = population variance across experiments of the "
    "per-experiment mean squared error (an axis mix-up changes the index set of the inner sum and fails); mean_predictions = "
    "per-experiment mean over samples; the constructor's ValueError conditions; an evaluation file reloads with every field "
    "unchanged (over the assumed h5py contract); retrospective.calculate_mse = mean over rows of (average viability - "
    "observation)^2 with predict_viability_avg used through its verified C09 contract. "
    "BOUNDED ONLY (native stand-in, stated bound, NOT counted as proved): inter_chain_mse_variance, "
    "create_single_treatment_effect_map/_array, calculate_synergy, generate_full_combinatoric_space, correlation_matrix. "
    "Because those clauses are decisive for the property the claimed level is 'other', not 'proof'.")
TRUSTED = ["pyvc symbolic executor; z3 5.1", "numpy models over the reals: broadcasting o[:,None], ** 2 as an opaque square function, mean/var as "
           "recursive sums / counts", "sum congruence lemma (proved by SMT induction under C09)", "h5py model",
           "C09 contract of predict_viability_avg"]
ASSUMPTIONS = ["floating point treated as mathematical reals", "inter-chain variance, single-agent effects, synergy and the similarity matrix are decided by the bounded native check only"]


def lemmas():
    """var_cong: arrays equal on [0,n) have equal variance (uses dev2's definition; kept out of the main VCs)"""
    import z3
    from pyvc.lib.np_real import sumr_axioms, mean_axioms, var1, RealArr, var_cong
    from pyvc.values import Int
    v, w = z3.Const("v", RealArr), z3.Const("w", RealArr)
    n, e = z3.Ints("n e")
    hyp = [n >= 1, z3.ForAll([e], z3.Implies(z3.And(e >= 0, e < n), z3.Select(v, e) == z3.Select(w, e)), patterns=[z3.Select(v, e)])]
    return [("var_cong", sumr_axioms() + mean_axioms(with_dev2=True) + hyp, var1(v, n) == var1(w, n))]
