"""C01 — Screen identifiers are a faithful, dense encoding of names and doses."""
from pyvc.lib import arrays
arrays.FLOAT_AS[0] = "val"
PROPERTY = "C01"
LEVEL = "other"
CONTRACT_MODULES = ["contracts.c01"]
CARRIERS = ["batchie.data.Screen.__init__", "batchie.data.ExperimentSpace.n_unique_treatments", "batchie.data.ExperimentSpace.n_unique_samples"]
LEAN = ["Batchie.dense_bound", "Batchie.distinct_le"]
NATIVE = "c01.py"
EXPLANATION = (
    "The two encoders are pandas pipelines (drop_duplicates / sort_values / cumsum / merge): no contract within reach can be "
    "discharged on their bodies, so their contracts are ASSUMED (contracts/screen.py: sorted distinct keys, id = rank minus "
    "the number of controls before it, -1 iff name == control or dose <= 0, every row decodes, a supplied mapping is followed "
    "verbatim or ValueError when it does not cover the data) and CONFORMANCE-TESTED on the real code by native/c01.py "
    "(bounded: exhaustive small alphabets + random screens). PROVED on top of them: Screen.__init__ (6 variants: arity 1,2,3; "
    "with/without observations, mask, supplied mappings): the column stacking / splitting of the encoded ids - every cell's id "
    "decodes through the screen's mapping to that cell's (name, dose), sample and plate ids decode, mappings well-formed "
    "(distinct keys, dense ids), supplied mappings stored verbatim; ExperimentSpace.n_unique_treatments = number of distinct "
    "non-control mapping ids and, for dense ids, STRICTLY greater than every id of the mapping (Lean pigeonhole lemma "
    "dense_bound, instantiated explicitly; through np.setdiff1d / np.unique); ExperimentSpace.n_unique_samples = the length of a "
    "duplicate-free sample mapping (Lean pigeonhole lemma distinct_le) and therefore strictly greater than every (dense) sample "
    "id. BOUNDED ONLY: the encoders themselves and numpy_array_is_0_indexed_integers (its VC needs 'sorting a sorted array is "
    "the identity'; discharged only unstably, not registered). Level 'other' because the decisive encoder clauses are bounded.")
TRUSTED = ["pyvc symbolic executor; z3 5.1; Lean 4.33 + Mathlib", "ASSUMED encoder contracts (pandas), conformance-tested natively",
           "numpy models: unique, setdiff1d, isin, boolean-mask selection, vstack/split/flatten used by the constructor"]
ASSUMPTIONS = ["doses are reals on the SMT side (float comparisons <= 0 exact); names are opaque strings with a total order"]
