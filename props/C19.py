"""C19 — The orchestration script resumes correctly after an interruption at any point."""
PROPERTY = "C19"
LEVEL = "proof"
CONTRACT_MODULES = ["contracts.c19"]
S = "nextflow_script."
CARRIERS = [S + "examine_output_dir_to_determine_current_iteration", S + "get_selected_plates",
            S + "run_next_retrospective_step", S + "run_next_prospective_step", S + "main"]
NATIVE = "c19.py"
EXPLANATION = (
    "Contracts on the real functions of nextflow/scripts/batchie.py over an abstract file system (pyvc/lib/fs.py: "
    "iteration / plate directories and counts of published files per kind; glob, isdir, makedirs, rmtree, open/json and the "
    "pipeline launch are assumed contracts). PROVED from the bodies, for every directory state and every batch size: "
    "(0) the loop invariant of the scan also covers the listing Python leaves bound after the loop (it describes the iteration directory scanned LAST, possibly an empty one), so a "
    "next-step computation that reads it is judged by the postcondition instead of leaving the function undecided. "
    "(1) examine_output_dir...: raises RuntimeError IF AND ONLY IF some plate directory lacks screen_metadata.json or has no "
    "predecessor plate_<j-1>; otherwise returns (0,0,None,None) iff no iteration directory contains a plate directory, else "
    "the successor (batch-size arithmetic) of (I,J) = highest plate of the highest NON-EMPTY iteration directory, with that "
    "step's metadata and its advanced/training screen (loop invariants for both loops incl. the leaked loop variable; ghost "
    "lemmas characterise the sorted, filtered glob listings). (2) get_selected_plates = contents of the selection files of "
    "that iteration. (3) run_next_retrospective_step / run_next_prospective_step: examine the entry state; mutate the tree "
    "only by rmtree, makedirs and one pipeline run, all three on exactly the directory of the step examine returned; that "
    "directory holds no metadata at entry (no completed step is ever deleted or re-run); the command line takes its screen "
    "from the immediate predecessor (retrospective) or the input (prospective / initial), thetas and distances from plate_0 "
    "of the same iteration, --excludes = the selections listed in that iteration before clearing, test screen from "
    "iter_0/plate_0; retrospective stops without touching anything iff the last metadata reports no unobserved plate; "
    "prospective asks for another step iff plate index < batch_size-1. LEMMAS (z3, over those contracts): the crash invariant "
    "CI = 'completed steps are a prefix; optionally the next step's directory exists without metadata; empty iteration "
    "directories anywhere' - a clean CI state is accepted and the resume point is the successor of the last completed "
    "step with its metadata; an interrupted step is refused (RuntimeError); every intermediate state of a step (after "
    "rmtree, between the two mkdirs, after makedirs, pipeline interrupted before metadata, pipeline finished) is again a "
    "CI state, and removing the refused directory restores a clean one - hence any number of interruptions. (4) main(): selects the step function of --mode, passes the command line (outdir, screen, remaining arguments, batch size) "
    "unchanged to every step, continues exactly while the step returns True and stops exactly when it returns False (so a "
    "prospective invocation never crosses an iteration boundary: the step's own contract returns plate < batch_size-1). (5) the "
    "RuntimeError of examine names a plate directory that is itself defective - never a completed step. NOT PROVED / ASSUMED: "
    "what nextflow publishes and in which order (metadata last; external process), determinism of the launched pipeline "
    "('records the same selection': C18), argparse (get_args), and the faithfulness of the file-system model - all listed in "
    "the trusted base; additionally exercised by the BOUNDED harness native/c19.py (real script on real directory trees, every "
    "single interruption point, batch sizes 1..4, both modes; pairs in the thorough tier).")
TRUSTED = ["pyvc symbolic executor; z3 5.1", "abstract file system contracts (pyvc/lib/fs.py): glob lists exactly the matching entries once each in arbitrary order; "
           "makedirs/rmtree/pipeline-run effects; entry names iter_<n>/plate_<n> with decimal n>=0 and such entries are directories",
           "nextflow publishes screen_metadata.json only after the step's other outputs (external process)",
           "get_main_nf_file / get_repository_root: constants outside the output directory"]
ASSUMPTIONS = ["crash points inside a single rmtree / inside the pipeline run are represented by 'any subset of that job directory's files without metadata'"]


def lemmas():
    from contracts.c19 import crash_lemmas
    return crash_lemmas()
