"""C16 — The k-per-sample policy yields batches with zero or exactly k plates per sample."""
import z3
PROPERTY = "C16"
LEVEL = "proof"
CONTRACT_MODULES = ["contracts.c16"]
CARRIERS = ["batchie.policies.k_per_sample.KPerSamplePlatePolicy.filter_eligible_plates"]
LEAN = ["Batchie.batch_complete"]
NATIVE = "c16.py"
EXPLANATION = (
    "Body of KPerSamplePlatePolicy.filter_eligible_plates proved (7 loop invariants over symbolic-length plate lists, "
    "dict/set with symbolic keys) against: raises ValueError iff some plate has != 1 sample; if some sample s has "
    "0 < b(s) < k the result is exactly the unobserved plates of one such sample; otherwise exactly the unobserved plates "
    "whose sample has b = 0 and u >= k; always a subset of the unobserved plates. History level: SMT lemmas over the "
    "counting functions b,u show Inv (at most one incomplete sample, b <= k, incomplete => b+u >= k) holds for the empty "
    "batch, is preserved by moving ANY allowed plate into the batch, and implies the allowed set is non-empty while a "
    "sample is incomplete; Lean theorem batch_complete: Inv and |batch| = m*k give every sample 0 or exactly k plates. "
    "The call in select_next_plate is covered by C06's contract of select_next_plate.")
TRUSTED = [
    "pyvc symbolic executor; z3 5.1 (E-matching on quantified array/counting axioms); Lean 4.33 + Mathlib (batch_complete)",
    "Plate abstraction: plates are immutable tokens with attribute functions n_unique_samples, sample_ids[0]; a plate is non-empty",
    "dict / defaultdict(int) / set models of pyvc.lib.maps (insertion-ordered finite map; membership set)",
    "reading of cnt(P,|P|,s) as Multiset.count s of the plates' sample ids (link between the SMT lemmas and the Lean theorem)",
]
ASSUMPTIONS = ["plate.sample_ids[0] is the plate's sample when n_unique_samples == 1 (definition of the Plate abstraction)"]


def lemmas():
    from contracts.c16 import cnt, s0, cnt_unfold, RefArr
    from pyvc.values import Int, Ref
    P = z3.Const("P", RefArr)
    m, s, j, k = z3.Ints("m s j k")
    out = []
    # cnt_nonneg by induction on m
    out.append(("cnt_nonneg:base", [cnt_unfold(P, 0)], cnt(P, 0, s) >= 0))
    out.append(("cnt_nonneg:step", [m >= 0, cnt(P, m, s) >= 0, cnt_unfold(P, m)], cnt(P, m + 1, s) >= 0))
    # cnt_member: j < m -> cnt(P,m,s0(P[j])) >= 1, induction on m (uses nonneg)
    sj = s0(z3.Select(P, j))
    out.append(("cnt_member:step", [m >= 0, j >= 0, z3.Implies(j < m, cnt(P, m, sj) >= 1), cnt(P, m, sj) >= 0, cnt_unfold(P, m), j < m + 1],
                cnt(P, m + 1, sj) >= 1))
    # cnt_witness: cnt > 0 -> exists j < m, induction on m
    jj = z3.Int("jj")
    ex = lambda mm: z3.Exists([jj], z3.And(jj >= 0, jj < mm, s0(z3.Select(P, jj)) == s))  # noqa
    out.append(("cnt_witness:base", [cnt_unfold(P, 0)], z3.Implies(cnt(P, 0, s) > 0, ex(0))))
    out.append(("cnt_witness:step", [m >= 0, z3.Implies(cnt(P, m, s) > 0, ex(m)), cnt_unfold(P, m)],
                z3.Implies(cnt(P, m + 1, s) > 0, ex(m + 1))))
    # ---- history lemmas over b,u : Int -> Int (counts per sample), k >= 1
    b = z3.Function("b", Int, Int); u = z3.Function("u", Int, Int)
    b2 = z3.Function("b2", Int, Int); u2 = z3.Function("u2", Int, Int)
    x, y, sp = z3.Ints("x y sp")
    inc = lambda f, t: z3.And(f(t) > 0, f(t) < k)  # noqa
    def Inv(bf, uf):
        return z3.And(z3.ForAll([x, y], z3.Implies(z3.And(inc(bf, x), inc(bf, y)), x == y)),
                      z3.ForAll([x], z3.And(bf(x) >= 0, bf(x) <= k, uf(x) >= 0)),
                      z3.ForAll([x], z3.Implies(inc(bf, x), bf(x) + uf(x) >= k)))
    out.append(("history:empty_batch", [k >= 1, z3.ForAll([x], z3.And(b(x) == 0, u(x) >= 0))], Inv(b, u)))
    some_inc = z3.Exists([x], inc(b, x))
    # plate p of sample sp is allowed (postcondition of filter_eligible_plates) and is in the unobserved list (u(sp) >= 1)
    allowed = z3.And(u(sp) >= 1,
                     z3.Implies(some_inc, inc(b, sp)),
                     z3.Implies(z3.Not(some_inc), z3.And(b(sp) == 0, u(sp) >= k)))
    move = z3.ForAll([x], z3.And(b2(x) == b(x) + z3.If(x == sp, 1, 0), u2(x) == u(x) - z3.If(x == sp, 1, 0)))
    out.append(("history:step_preserves_inv", [k >= 1, Inv(b, u), allowed, move], Inv(b2, u2)))
    out.append(("history:incomplete_has_allowed_plate", [k >= 1, Inv(b, u), inc(b, sp)], u(sp) >= 1))
    out.append(("history:new_sample_needs_k", [k >= 1, Inv(b, u), z3.Not(some_inc), allowed], u(sp) >= k))
    return out
