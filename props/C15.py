"""C15 — Combination unranking is a bijection."""
PROPERTY = "C15"
LEVEL = "proof"
CONTRACT_MODULES = ["contracts.c15"]
CARRIERS = [
    "batchie.scoring.gaussian_dbal.generate_combination_at_sorted_index",
    "batchie.scoring.gaussian_dbal.get_combination_at_sorted_index",
    "batchie.scoring.gaussian_dbal.dbal_fast_gauss_scoring_vectorized@draw",
]
LEAN = ["Batchie.pascal", "Batchie.absorb", "Batchie.succ_right", "Batchie.mul_succ", "Batchie.choose_zero",
        "Batchie.choose_pos", "Batchie.choose_n0", "Batchie.div_eq", "Batchie.div_exact",
        "Batchie.crank_mono", "Batchie.crank_inj", "Batchie.unrank_bijective"]
NATIVE = "c15.py"
EXPLANATION = (
    "Body of generate_combination_at_sorted_index proved against: yields k strictly descending values below n whose "
    "combinadic rank sum_j C(c_j, j) equals index (loop invariants for all three loops, termination of the while, no "
    "division by zero); C is uninterpreted on the SMT side, the binomial identities used are Lean/Mathlib theorems "
    "instantiated explicitly. Lean theorem unrank_bijective turns that postcondition into: injective, ascending "
    "lexicographic order, and onto all strictly descending k-tuples below n (so all k-subsets), for all n, k.")
TRUSTED = [
    "pyvc symbolic executor (Python int = mathematical integer, // and % floor semantics)",
    "z3 5.1; Lean 4.33 kernel + Mathlib",
    "reading of each SMT lemma instance as the Lean theorem of the same name (nat -> int cast under the stated guards)",
    "itertools/zip/range/tuple semantics as modelled in pyvc.lib",
    "numpy Generator.choice(N, size, replace=False) returns pairwise distinct members of range(N) (assumed library contract)",
]
ASSUMPTIONS = [
    "Python ints are unbounded (exact); scipy.special.comb(exact=True) is the binomial coefficient",
    "the DBAL call site is verified as a REGION of dbal_fast_gauss_scoring_vectorized (shape unpacking .. the index draw): the indices "
    "handed to the unranker are min(C(n,3), max_combos) pairwise distinct members of range(C(n,3)), given max_combos >= 0; the rest of that "
    "function (floating-point kernel) is outside this contract",
]


def lemmas():
    """crank_frame: crank depends only on the prefix — SMT induction on m."""
    import z3
    from contracts.c15 import crank, crank_unfold, IntArr
    from pyvc.values import Int
    ys, ys2 = z3.Consts("ys ys2", IntArr)
    k0, m, t = z3.Ints("k0 m t")
    def same(upto):
        return z3.ForAll([t], z3.Implies(z3.And(t >= 0, t < upto), z3.Select(ys, t) == z3.Select(ys2, t)))
    base = ("crank_frame:base", [crank_unfold(ys, k0, 0), crank_unfold(ys2, k0, 0)], crank(ys, k0, 0) == crank(ys2, k0, 0))
    step = ("crank_frame:step",
            [m >= 0, z3.Implies(same(m), crank(ys, k0, m) == crank(ys2, k0, m)), same(m + 1),
             crank_unfold(ys, k0, m), crank_unfold(ys2, k0, m)],
            crank(ys, k0, m + 1) == crank(ys2, k0, m + 1))
    return [base, step]
