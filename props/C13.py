"""C13 — Generated, smoothed and initial plates satisfy their documented shape guarantees."""
from pyvc.lib import arrays
arrays.FLOAT_AS[0] = "val"
PROPERTY = "C13"
LEVEL = "other"
CONTRACT_MODULES = ["contracts.c13"]
CARRIERS = ["batchie.data.filter_dataset_to_treatments_that_appear_in_at_least_one_combo"]
NATIVE = "c13.py"
EXPLANATION = (
    "Mostly a BOUNDED stand-in; level 'other'. PROVED from the body (arity 1, 2, 3): the combination filter refuses arity < 2, its "
    "row mask `treatment_selection_vector` is exactly 'no control in the row', the selection vector has one entry per experiment "
    "and the returned screen is exactly screen[selection] column by column (so the filter only ever removes rows); for arity 2 "
    "(the arity the shipped models support) also the keep-set itself: selection[r] <=> every treatment of row r is the control "
    "or occurs in some row without a control (membership chain through in1d / concatenate / unique / flatten / mask selection, "
    "with two stepping stones; about one second). At arity 3 one clause of that chain stays `unknown`, so it is not "
    "registered there (bounded harness). BOUNDED (native/c13.py, real code, random "
    "screens, every clause against an independent reference): single-sample / size-limited plates of the segregating and "
    "pairwise generators (arity 2 and 3), sparse-cover coverage of samples and treatments and the single unobserved remainder, "
    "the combination filter's keep-set, FixedSize / OptimalSize common size and optimality (retained = max_s s*#{plates>=s}), "
    "NPlatePerCellLine minimum, MergeMin final size multiset = reference heap merge, MergeTopBottom ceil-halving count, merge "
    "smoothers never mixing samples. The generators/smoothers are loops over Plate objects, heaps, np.array_split of "
    "permutations and nonlinear size arithmetic (s * count) outside what the VC generator discharges stably.")
TRUSTED = ["pyvc symbolic executor; z3 5.1", "numpy models: all(axis=1), reshape, flatten, unique, concatenate, in1d, boolean-mask selection",
           "Screen.subset/to_screen contract (contracts/c03.py), assumed encoder contracts (C01)"]
ASSUMPTIONS = ["the keep-set clause, all generators and smoothers: bounded only"]
