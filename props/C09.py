"""C09 — Predictions are pure, row-wise, treatment-order-symmetric and control-neutral."""
import z3
from pyvc.lib import arrays
arrays.FLOAT_AS[0] = "float"
PROPERTY = "C09"
LEVEL = "proof"
CONTRACT_MODULES = ["contracts.c09"]
S = "batchie.models.sparse_combo.SparseDrugComboMCMCSample."
I = "batchie.models.sparse_combo_interaction.SparseDrugComboInteractionMCMCSample."
M = "batchie.models.main."
CARRIERS = ["batchie.common.copy_array_with_control_treatments_set_to_zero", "batchie.models.sparse_combo.predict",
            "batchie.models.sparse_combo.predict_single_drug", S + "predict_viability", S + "predict_conditional_mean",
            S + "predict_conditional_variance", I + "predict_conditional_mean", I + "predict_conditional_variance",
            M + "predict_mean_all", M + "predict_viability_all", M + "predict_mean_avg", M + "predict_viability_avg"]
NATIVE = "c09.py"
EXPLANATION = (
    "Over the reals. copy_array_with_control_treatments_set_to_zero proved: a FRESH array whose row k is 0 when the id is -1 "
    "and arr[id] otherwise, source untouched (zeroing the source, or returning a view, fails the frame obligation). "
    "predict / predict_single_drug / both sample classes' predict_* proved pointwise: entry r = fit(sample id r, treatment "
    "ids of row r) where fit is a spec function of those ids and the parameters ONLY (row purity), viability = "
    "clip(expit(mean), .01, .99), variance = 1/precision > 0 for every row, NotImplementedError/ValueError exactly for "
    "unsupported arity, parameters and screen untouched. SMT lemmas from the spec function: fit(s,a,b) = fit(s,b,a) "
    "(column swap), fit(s,a,-1) = fit1(s,a) and control contributes 0 (sum congruence / zero-sum lemmas proved by "
    "induction), subset prediction = entries of whole-screen prediction. Helpers: predict_*_all row t = sample t's "
    "prediction in holder order; *_avg = exact mean (loop invariant over partial sums). NOT covered: the interaction "
    "sample's viability (dictionary lookups, exp/log), predict_variance_all (np.stack) - bounded native only.")
TRUSTED = ["pyvc symbolic executor; z3 5.1", "numpy models: integer-array gather (negative index wraps, result fresh), mask row assignment, "
           "pointwise arithmetic, np.sum(axis=-1) = recursive sum, np.clip, np.repeat", "floating point treated as mathematical reals (NaN/inf not modelled)",
           "expit is a function (uninterpreted)", "abstract Theta methods are functions of (theta, screen) for the helpers"]
ASSUMPTIONS = ["column swap / subset equality hold exactly over the reals; in floating point up to summation-order rounding (native check with tolerance)"]


def lemmas():
    from contracts.c09 import fit, fit1, spec_rows, spec_rows1, T_theta, P2, P1, P1s
    from pyvc.lib.np_real import sumr, sumr_axioms, RealArr
    from pyvc.values import Int, Real
    from pyvc.spec import NS
    from pyvc.lib.arrays import Arr
    A2 = z3.ArraySort(Int, RealArr)
    class T:
        pass
    t = T()
    t.W = Arr((z3.Int("nS"), z3.Int("D")), z3.Const("W", A2), "float"); t.V2 = Arr((z3.Int("nT"), z3.Int("D")), z3.Const("V2", A2), "float")
    t.V1 = Arr((z3.Int("nT"), z3.Int("D")), z3.Const("V1", A2), "float")
    t.W0 = Arr((z3.Int("nS"),), z3.Const("W0", RealArr), "float"); t.V0 = Arr((z3.Int("nT"),), z3.Const("V0", RealArr), "float")
    t.alpha = z3.Real("alpha"); t.precision = z3.Real("precision")
    s, a, b, n, d = z3.Ints("s a b n d")
    f, zero = z3.Const("f", RealArr), z3.K(Int, z3.RealVal(0))
    base = spec_rows(t) + spec_rows1(t) + sumr_axioms() + [z3.Int("D") >= 0]
    out = []
    # induction lemmas about sumr
    g = z3.Const("g", RealArr)
    out.append(("sum_cong:step", [n >= 0, z3.Implies(z3.ForAll([d], z3.Implies(z3.And(d >= 0, d < n), z3.Select(f, d) == z3.Select(g, d))), sumr(f, n) == sumr(g, n)),
                                  z3.ForAll([d], z3.Implies(z3.And(d >= 0, d < n + 1), z3.Select(f, d) == z3.Select(g, d))),
                                  sumr(f, n + 1) == sumr(f, n) + z3.Select(f, n), sumr(g, n + 1) == sumr(g, n) + z3.Select(g, n)], sumr(f, n + 1) == sumr(g, n + 1)))
    out.append(("sum_cong:base", [sumr(f, 0) == 0, sumr(g, 0) == 0], sumr(f, 0) == sumr(g, 0)))
    out.append(("sum_zero:step", [n >= 0, sumr(zero, n) == 0, sumr(zero, n + 1) == sumr(zero, n) + z3.Select(zero, n)], sumr(zero, n + 1) == 0))
    zs = z3.ForAll([n], z3.Implies(n >= 0, sumr(zero, n) == 0), patterns=[sumr(zero, n)])
    out.append(("symmetry", base, fit(t, s, a, b) == fit(t, s, b, a)))
    out.append(("control_neutral", base + [zs, a >= -1], fit(t, s, a, z3.IntVal(-1)) == fit1(t, s, a)))
    out.append(("control_both", base + [zs], fit(t, s, z3.IntVal(-1), z3.IntVal(-1)) == t.alpha + z3.Select(t.W0.data, s)))
    return out
