from pyvc.lib import arrays
arrays.FLOAT_AS[0] = "float"
PROPERTY = "C09"
LEVEL = "proof"
CONTRACT_MODULES = ["contracts.c09"]
CARRIERS = ["batchie.common.copy_array_with_control_treatments_set_to_zero", "batchie.models.sparse_combo.predict"]
EXPLANATION = "wip"
TRUSTED = []
ASSUMPTIONS = []
