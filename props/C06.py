"""C06 — Every candidate plate is scored once; the minimum-score allowed plate is chosen."""
from pyvc.lib import arrays
arrays.FLOAT_AS[0] = "float"
PROPERTY = "C06"
LEVEL = "proof"
CONTRACT_MODULES = ["contracts.c06"]
H = "batchie.scoring.main.ChunkedScoresHolder."
CARRIERS = [H + "__init__", H + "add_score", H + "plate_id_with_minimum_score", H + "combine", H + "concat", "batchie.data.ScreenBase.is_observed", "batchie.scoring.main.select_next_plate", "batchie.scoring.main.score_chunk", "batchie.cli.calculate_scores.main@call", "batchie.cli.select_next_plate.main@call"]
NATIVE = "c06.py"
TECHNIQUE = ("contract-based deductive verification (pyvc + z3) of the scores holder, score_chunk and select_next_plate; the two command lines and the "
             "content of the conditioned views by a bounded stand-in on the real functions")
EXPLANATION = (
    "PROVED (all inputs): ChunkedScoresHolder.__init__ / add_score (representation invariant, append semantics, earlier pairs "
    "kept), combine (pairs of self followed by pairs of other; returns self), concat of 1, 2, 3 chunk tables (every pair of every "
    "table once, in order), plate_id_with_minimum_score (requires some scored eligible id; the result is a scored id of the "
    "eligible set and no eligible scored id has a strictly smaller score - first-minimum argmin, ties allowed). score_chunk, with "
    "and without a batch, for every number of chunks and chunk index: the candidate list is exactly the unobserved plates not in "
    "the batch (each listed plate is such a plate of this screen; every row of such a plate lies in a listed plate), sorted by "
    "strictly increasing plate id; the chunk is section chunk_index of that list under numpy's array_split arithmetic (sections "
    "are consecutive and start at 0 by the model's definition); the scorer - ABSTRACT contract: returns exactly one score per plate "
    "it is given - is called on a dictionary with one key per plate of the section (keys pairwise distinct), and the returned "
    "table is full and holds exactly one row per plate of the section, with the scorer's value (loop invariants for the "
    "dictionary-building and the table-filling loops). select_next_plate (no policy / no batch / ABSTRACT policy = returns a "
    "sub-collection of the unobserved plates it is given): returns None iff no plate is allowed; otherwise the returned view is "
    "exactly the rows of plate `best`, `best` is the id of an allowed plate, that plate is unobserved and not in the batch, and "
    "no allowed plate has a strictly lower score (ghost lemmas characterise the sorted, filtered plate list; Screen.plates is used "
    "through its C14 contract). NOT PROVED (bounded stand-in native/c06.py): that the last section ends at the end of the list "
    "(sum of the section sizes), what the conditioned views (plate + batch, one experiment per condition) contain, and the two "
    "command lines cli/calculate_scores.main, cli/select_next_plate.main - except their CALL plumbing, which is proved as regions of the "
    "two mains: the statement calling score_chunk / select_next_plate hands over exactly the loaded screen, scores, scorer, samples, "
    "distance matrix and policy, the generator seeded from --seed, and the command line's n_chunks / chunk_index / batch ids unchanged.")
TRUSTED = ["pyvc symbolic executor; z3 5.1", "numpy models: isin, boolean-mask selection, argmin (first minimal index), concatenate",
           "scores treated as reals (-inf and NaN are outside the model; the bounded check exercises -inf)"]
ASSUMPTIONS = ["abstract Scorer / PlatePolicy contracts (assumptions on implementations)", "ScreenSubset.concat / combine / filter_dataset_to_unique_treatments inside score_chunk used as: returns some view or raises ValueError, touches nothing", "cli mains: bounded native check only"]
