"""C06 — Every candidate plate is scored once; the minimum-score allowed plate is chosen."""
from pyvc.lib import arrays
arrays.FLOAT_AS[0] = "float"
PROPERTY = "C06"
LEVEL = "other"
CONTRACT_MODULES = ["contracts.c06"]
H = "batchie.scoring.main.ChunkedScoresHolder."
CARRIERS = [H + "__init__", H + "add_score", H + "plate_id_with_minimum_score", H + "combine", H + "concat", "batchie.data.ScreenBase.is_observed", "batchie.scoring.main.select_next_plate", "batchie.scoring.main.score_chunk"]
NATIVE = "c06.py"
TECHNIQUE = ("contract-based deductive verification (pyvc + z3) of the scores holder and the minimum-score selection; score_chunk / "
             "select_next_plate / the two command lines by a bounded stand-in on the real functions")
EXPLANATION = (
    "PROVED (all inputs): ChunkedScoresHolder.__init__ / add_score (representation invariant, append semantics, earlier pairs "
    "kept), combine (pairs of self followed by pairs of other; returns self), plate_id_with_minimum_score (requires some scored "
    "eligible id; the result is a scored id of the eligible set and no eligible scored id has a strictly smaller score - "
    "first-minimum argmin, ties allowed - with and without an eligible list; holder untouched), concat of 1, 2 and 3 chunk tables "
    "(contents symbolic): every (plate, score) pair of every table exactly once, in order, ScreenBase.is_observed on a "
    "view (all selected rows observed). Contracts for select_next_plate (policy abstracted as 'returns a sub-collection of its "
    "unobserved_plates argument') and the comprehension/sorted/array_split machinery exist (contracts/c06.py, pyvc/lib/comp.py) "
    "and discharge most of their obligations, but the membership chain through filter + sorted + policy does not discharge "
    "within a stable solver budget, so select_next_plate and score_chunk are NOT counted: they are decided by the bounded "
    "stand-in only (all chunk counts incl. more chunks than plates, batches, score tables with ties and -inf, chunk-file "
    "orders, four policies). Hence level 'other'.")
TRUSTED = ["pyvc symbolic executor; z3 5.1", "numpy models: isin, boolean-mask selection, argmin (first minimal index), concatenate",
           "scores treated as reals (-inf and NaN are outside the model; the bounded check exercises -inf)"]
ASSUMPTIONS = ["score_chunk, select_next_plate, cli/calculate_scores.main, cli/select_next_plate.main: bounded native check only"]
