#!/bin/bash
# Offline setup: nothing to build except a warm Lean/Mathlib import (the checks compile lean/Batchie.lean themselves).
set -e
cd "$(dirname "$0")"
mkdir -p .scratch evidence replays
python3-vt -c "import z3; assert z3.get_version_string().startswith('5.')"
/venv/bin/python -c "import batchie, numpy"
( cd lean && lean Batchie.lean )
echo setup-ok
