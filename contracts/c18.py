"""C18 — determinism: the only VC-level contract is get_prng_from_seed_argument; everything else is a frame
condition decided by pyvc.effects (see props/C18.py)."""
import z3
from pyvc.spec import contract, abstract_class, TAObj, TInt
from pyvc.lib.rng import G_of_seed, SS_state, SS_of_seed, GenTok

abstract_class("Args", None, {"seed": TInt})
gp = contract("batchie.cli.argument_parsing.get_prng_from_seed_argument", params=[("args", TAObj("Args"))])
gp.ensures("function_of_seed", lambda a, ret, st: [
    ("generator", z3.BoolVal(isinstance(ret, GenTok)) if not isinstance(ret, GenTok) else
     ret.term == G_of_seed(SS_state(SS_of_seed(z3.Function("Args.seed", a.args.term.sort(), z3.IntSort())(a.args.term)), 1, 0)))])
