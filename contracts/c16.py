"""C16 — KPerSamplePlatePolicy.filter_eligible_plates.

Plates are abstract immutable objects (tokens of sort Ref) with
   n_unique_samples(p), sample0(p) = p.sample_ids[0]            (uninterpreted attribute functions)
b(s) = number of batch plates of sample s, u(s) = number of unobserved plates of sample s:
   cnt(P, m, s) = #{ j < m : sample0(P[j]) = s }   (recursive spec function, unfolded explicitly)
"""
import z3
from pyvc.spec import contract, CLASS_MODELS, TInt, TSeq, TAObj, TObj, TOpt, Type, Lemma
from pyvc.values import Int, Bool, Ref, Seq, OptV, AObj, SymList

RefArr = z3.ArraySort(Int, Ref)
nus = z3.Function("plate_n_unique_samples", Ref, Int)
s0 = z3.Function("plate_sample0", Ref, Int)
psize = z3.Function("plate_size", Ref, Int)
psids = z3.Function("plate_sample_ids", Ref, z3.ArraySort(Int, Int))
cnt = z3.Function("cnt", RefArr, Int, Int, Int)


def _plate_sample_ids(i, p):
    i.ctx.assume(psize(p.term) >= 1)  # a Plate is built per occurring plate id: never empty (assumed)
    i.ctx.assume(z3.Select(psids(p.term), 0) == s0(p.term))
    return Seq(psize(p.term), psids(p.term))


CLASS_MODELS["PlateTok"] = {
    "n_unique_samples": lambda i, p: nus(p.term),
    "sample_ids": _plate_sample_ids,
}


def cnt_unfold(P, m):
    s = z3.Int("s!cu")
    return z3.And(
        z3.ForAll([s], cnt(P, 0, s) == 0, patterns=[cnt(P, 0, s)]),
        z3.ForAll([s], cnt(P, m + 1, s) == cnt(P, m, s) + z3.If(s0(z3.Select(P, m)) == s, 1, 0),
                  patterns=[cnt(P, m + 1, s)]))


def cnt_nonneg(P, m):
    s = z3.Int("s!cn")
    return z3.Implies(m >= 0, z3.ForAll([s], cnt(P, m, s) >= 0, patterns=[cnt(P, m, s)]))


def cnt_witness(P, m, s):
    """cnt(P,m,s) > 0 -> exists j<m with sample0(P[j]) = s    (lemma, SMT induction in props/C16)"""
    j = z3.Int("j!cw")
    return z3.Implies(z3.And(m >= 0, cnt(P, m, s) > 0),
                      z3.Exists([j], z3.And(j >= 0, j < m, s0(z3.Select(P, j)) == s)))


def cnt_member_all(P, m):
    j = z3.Int("j!cma")
    return z3.ForAll([j], z3.Implies(z3.And(j >= 0, j < m), cnt(P, m, s0(z3.Select(P, j))) >= 1),
                     patterns=[s0(z3.Select(P, j))])


def cnt_member(P, m, j):
    """j<m -> cnt(P,m,sample0(P[j])) >= 1    (lemma, SMT induction on m)"""
    return z3.Implies(z3.And(j >= 0, j < m), cnt(P, m, s0(z3.Select(P, j))) >= 1)


Q = "batchie.policies.k_per_sample.KPerSamplePlatePolicy.filter_eligible_plates"
T_plates = TSeq(TAObj("PlateTok"))
c = contract(Q, params=[("self", TObj("batchie.policies.k_per_sample.KPerSamplePlatePolicy", fields={"k": TInt})),
                        ("batch_plates", T_plates), ("unobserved_plates", T_plates), ("rng", TInt)],
             returns=T_plates)
c.requires(lambda a: [a.self.k >= 1])
c.use(lambda a: [cnt_member_all(a.unobserved_plates.seq.cols, a.unobserved_plates.seq.length),
                 cnt_nonneg(a.unobserved_plates.seq.cols, a.unobserved_plates.seq.length),
                 cnt_nonneg(a.batch_plates.seq.cols, a.batch_plates.seq.length)])


def _some_multi(a):
    j = z3.Int("j!r")
    B, U = a.batch_plates.seq, a.unobserved_plates.seq
    return z3.Or(z3.Exists([j], z3.And(j >= 0, j < B.length, nus(z3.Select(B.cols, j)) != 1)),
                 z3.Exists([j], z3.And(j >= 0, j < U.length, nus(z3.Select(U.cols, j)) != 1)))


c.raises("ValueError", _some_multi)


def b_of(a, s):
    return cnt(a.batch_plates.seq.cols, a.batch_plates.seq.length, s)


def u_of(a, s):
    return cnt(a.unobserved_plates.seq.cols, a.unobserved_plates.seq.length, s)


def set_eq(ret, U, elig):
    """ret and {U[j] : elig(U[j])} have the same members"""
    r, j = z3.Int("r!se"), z3.Int("j!se")
    return z3.And(
        z3.ForAll([r], z3.Implies(z3.And(r >= 0, r < ret.length),
                                  z3.Exists([j], z3.And(j >= 0, j < U.length, z3.Select(ret.cols, r) == z3.Select(U.cols, j),
                                                        elig(z3.Select(U.cols, j)))))),
        z3.ForAll([j], z3.Implies(z3.And(j >= 0, j < U.length, elig(z3.Select(U.cols, j))),
                                  z3.Exists([r], z3.And(r >= 0, r < ret.length, z3.Select(ret.cols, r) == z3.Select(U.cols, j))))))


def _post(a, ret, st):
    k = a.self.k
    U = a.unobserved_plates.seq
    R = ret.seq
    s = z3.Int("s!p")
    inc = lambda x: z3.And(b_of(a, x) > 0, b_of(a, x) < k)  # noqa
    some_inc = z3.Exists([s], inc(s), patterns=[b_of(a, s)])
    return [
        ("restrict_to_incomplete", z3.Implies(some_inc, z3.Exists([s], z3.And(inc(s), set_eq(R, U, lambda p: s0(p) == s)),
                                                                   patterns=[b_of(a, s)]))),
        ("open_new_only_if_k_remain", z3.Implies(z3.Not(some_inc),
                                                 set_eq(R, U, lambda p: z3.And(b_of(a, s0(p)) == 0, u_of(a, s0(p)) >= k)))),
    ]


c.ensures("allowed", _post)

# ---------------------------------------------------------------- loops
def _cat(v):
    return v


def _inv0(v):
    """the validation loop iterates over all batch and unobserved plates (in whichever order the two lists are joined): the first `it` items of
    WHAT IS BEING ITERATED are single-sample plates"""
    j = z3.Int("j!0")
    X = v.iterated.seq
    return [("plates_seen_so_far_hold_one_sample", z3.ForAll([j], z3.Implies(z3.And(j >= 0, j < v.it), nus(z3.Select(X.cols, j)) == 1), patterns=[z3.Select(X.cols, j)]))]


c.loop("for#0", invariant=_inv0)


def _count_inv(mapname, seqname):
    def inv(v):
        m = getattr(v, mapname)
        P = getattr(v, seqname).seq
        s = z3.Int("s!ci")
        return [
            ("val", z3.ForAll([s], z3.Select(m.val, s) == z3.If(z3.Select(m.dom, s), cnt(P.cols, v.it, s), 0),
                              patterns=[z3.Select(m.val, s)])),
            ("dom", z3.ForAll([s], z3.Select(m.dom, s) == (cnt(P.cols, v.it, s) > 0), patterns=[z3.Select(m.dom, s)])),
        ]
    return inv


def _count_use(seqname):
    def use(v):
        P = getattr(v, seqname).seq
        return [cnt_unfold(P.cols, v.it), cnt_nonneg(P.cols, v.it), cnt_nonneg(P.cols, v.it + 1)]
    return use


c.loop("for#1", invariant=_count_inv("n_plates_per_sample", "unobserved_plates"),
       use=_count_use("unobserved_plates"), types={"n_plates_per_sample": (Int, Int)})

c.loop("for#2", invariant=lambda v: [
    ("ins", z3.ForAll([z3.Int("s!2")], z3.Select(v.sample_ids_with_insufficient_plates.dom, z3.Int("s!2")) ==
                      z3.And(z3.Select(v.n_plates_per_sample.dom, z3.Int("s!2")),
                             z3.Select(v.n_plates_per_sample.pos, z3.Int("s!2")) < v.it,
                             z3.Select(v.n_plates_per_sample.val, z3.Int("s!2")) < v.self.k),
                      patterns=[z3.Select(v.sample_ids_with_insufficient_plates.dom, z3.Int("s!2"))]))],
       types={"sample_ids_with_insufficient_plates": (Int,)})

c.loop("for#3", invariant=_count_inv("n_plates_already_selected_per_sample", "batch_plates"),
       use=_count_use("batch_plates"), types={"n_plates_already_selected_per_sample": (Int, Int)})


def _isnone(x):
    if x is None:
        return z3.BoolVal(True)
    if isinstance(x, OptV):
        return x.isnone
    return z3.BoolVal(False)


def _optval(x):
    if isinstance(x, OptV):
        return x.val
    if x is None:
        return z3.IntVal(0)
    return x


def _inv4(v):
    m = v.n_plates_already_selected_per_sample
    s = z3.Int("s!4")
    sc = v.sample_chosen
    return [
        ("none_iff", _isnone(sc) == z3.ForAll([s], z3.Implies(z3.And(z3.Select(m.dom, s), z3.Select(m.pos, s) < v.it),
                                                               z3.Select(m.val, s) >= v.self.k),
                                              patterns=[z3.Select(m.pos, s)])),
        ("some", z3.Implies(z3.Not(_isnone(sc)), z3.And(z3.Select(m.dom, _optval(sc)), z3.Select(m.val, _optval(sc)) < v.self.k))),
    ]


c.loop("for#4", invariant=_inv4, types={"sample_chosen": TOpt(TInt)})


def _filter_inv(elig):
    def inv(v):
        R = v.result.seq
        U = v.unobserved_plates.seq
        r, j = z3.Int("r!f"), z3.Int("j!f")
        e = lambda p: elig(v, p)  # noqa
        return [
            ("sound", z3.ForAll([r], z3.Implies(z3.And(r >= 0, r < R.length),
                                                z3.Exists([j], z3.And(j >= 0, j < v.it, z3.Select(R.cols, r) == z3.Select(U.cols, j),
                                                                      e(z3.Select(U.cols, j))))))),
            ("complete", z3.ForAll([j], z3.Implies(z3.And(j >= 0, j < v.it, e(z3.Select(U.cols, j))),
                                                   z3.Exists([r], z3.And(r >= 0, r < R.length,
                                                                         z3.Select(R.cols, r) == z3.Select(U.cols, j)))))),
        ]
    return inv


def _elig_either(v, p):
    """which plates the result collects: the two filter loops sit in the two branches of `if sample_chosen is not None`; the criterion is
    written as ONE expression selected by that test, so the invariant does not depend on which branch comes first in the source"""
    restrict = s0(p) == _optval(v.sample_chosen)
    open_new = z3.And(z3.Not(z3.Select(v.sample_ids_with_insufficient_plates.dom, s0(p))), z3.Not(z3.Select(v.n_plates_already_selected_per_sample.dom, s0(p))))
    return z3.If(_isnone(v.sample_chosen), open_new, restrict)


for _k in ("for#5", "for#6"):
    c.loop(_k, invariant=_filter_inv(_elig_either), use=lambda v: [cnt_member(v.unobserved_plates.seq.cols, v.unobserved_plates.seq.length, v.it)],
           types={"result": T_plates})
