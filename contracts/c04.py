"""C04 — training data: BayesianModel.add_observations, SparseDrugCombo._add_observations,
SparseDrugComboInteraction._add_observations (the read-frame part of C04 is decided by pyvc.effects in props/C04.py)."""
import z3
from pyvc.spec import contract, synthetic_class, TObj, TAObj, TTuple, TStr, TInt, TBool, TSeq, TRef, TNone, NS, Forall, Using
from pyvc.values import Int, Bool, Real, Str, Val, Ref, Obj, AObj, SymList, Seq
from pyvc.lib.arrays import TArr, Arr, rank, idx, isnan
from pyvc.lib.np_core import val_cmp, val_fn
from .screen import *  # noqa

ge0 = val_cmp("GtE", 0.0)
f32, clip, logit = val_fn("float32"), val_fn("clip_0p01_0p99"), val_fn("logit")


def transform(x):
    """documented transformation of SparseDrugCombo: logit(clip(float32(x), 0.01, 0.99))"""
    return logit(clip(f32(x)))


# ---- data: a view of a screen (the CLI hands subset_observed() to the model)
def T_data():
    return TObj(SUBSET, fields={"screen": TRef("screen"), "selection_vector": TArr(Bool)})


def col(a, priv):
    """column of the data handed to the model = parent's column at the selected rows"""
    return G(a.screen, priv), a.data.selection_vector, nrows(a.screen)


def all_selected_observed(a):
    r = z3.Int("r!aso")
    n = nrows(a.screen)
    return z3.ForAll([r], z3.Implies(z3.And(r >= 0, r < n, z3.Select(a.data.selection_vector.data, r)), z3.Select(G(a.screen, "_observation_mask").data, r)),
                     patterns=[z3.Select(a.data.selection_vector.data, r)])


# ---- BayesianModel.add_observations: refuses masked rows, otherwise hands the very same object on
ANYMODEL = synthetic_class("spec.AnyBayesianModel", ["batchie.core.BayesianModel"])
hand = contract("batchie.core.BayesianModel._add_observations", abstract=True)
hand.modifies_fields = ["handed"]


def _hand_apply(i, a, node, fr):
    scr = a.data.fields["screen"]
    ns = NS({"screen": scr, "data": a.data}, "argument")
    i.ctx.prove("%s/call:_add_observations:only_observed_rows@%s" % (i._cur_label, getattr(node, "lineno", "?")), all_selected_observed(ns), node, "call")
    a.self.fields["handed"] = a.data
    a.self.fields["calls"] = a.self.fields["calls"] + 1
    return None


hand.apply = _hand_apply

ao = contract("batchie.core.BayesianModel.add_observations",
              params=[("screen", TAObj("Screen")), ("self", TObj(ANYMODEL, ghost={"handed": TNone, "calls": TInt})), ("data", T_data())])
ao.requires(lambda a: screen_shape_wf(a.screen) + [a.data.selection_vector.shape[0] == nrows(a.screen), a.self.calls == 0])


def _some_masked(a):
    r = z3.Int("r!sm")
    n = nrows(a.screen)
    return z3.Exists([r], z3.And(r >= 0, r < n, z3.Select(a.data.selection_vector.data, r), z3.Not(z3.Select(G(a.screen, "_observation_mask").data, r))))


ao.raises("ValueError", _some_masked)
ao.ensures("hands_on_observed_only", lambda a, ret, st: [("same_object", bool_(a.self.fields["handed"] is a.data)), ("once", a.self.fields["calls"] == 1)])

# ---- the legacy sampler's data store (abstract: four parallel lists; C08 verifies _update's index sets)
IMPL = "batchie.models.sparse_combo.LegacySparseDrugComboImpl"
from pyvc.spec import Prim  # noqa
T_impl = TObj(IMPL, fields={"y": TSeq(Prim(Val)), "cline": TSeq(TInt), "dd1": TSeq(TInt), "dd2": TSeq(TInt)})
up = contract(IMPL + "._update")
up.modifies_fields = ["y", "cline", "dd1", "dd2"]


def _up_apply(i, a, node, fr):
    from pyvc.lib import seq_append
    o = a.self
    L = o.fields["y"].seq.length
    i.ctx.prove("%s/call:_update:lists_aligned@%s" % (i._cur_label, getattr(node, "lineno", "?")),
                z3.And(o.fields["cline"].seq.length == L, o.fields["dd1"].seq.length == L, o.fields["dd2"].seq.length == L), node, "call")
    for f, v in (("y", a.y), ("cline", a.cl), ("dd1", a.dd1), ("dd2", a.dd2)):
        seq_append(i, o.fields[f], v, node)
    return None


up.apply = _up_apply
up.trusted = True
up.note = "abstract contract of LegacySparseDrugComboImpl._update: appends one (y, cl, dd1, dd2) record (its index dictionaries are C08's subject)"

SDC = "batchie.models.sparse_combo.SparseDrugCombo"
T_sdc = TObj(SDC, fields={"wrapped_model": T_impl})
ad = contract(SDC + "._add_observations", params=[("screen", T_screen(2)), ("self", T_sdc), ("data", T_data())])
ad.requires(lambda a: screen_shape_wf(a.screen) + [a.data.selection_vector.shape[0] == nrows(a.screen)] + [
    a.self.wrapped_model.fields[f].seq.length == a.self.wrapped_model.y.seq.length for f in ("cline", "dd1", "dd2")])


def _bad_obs(a):
    r = z3.Int("r!bo")
    n = nrows(a.screen)
    ob = G(a.screen, "_observations").data
    selr = lambda t: z3.And(t >= 0, t < n, z3.Select(a.data.selection_vector.data, t))  # noqa
    return z3.Or(z3.Exists([r], z3.And(selr(r), z3.Not(ge0(z3.Select(ob, r))))),
                 z3.Exists([r], z3.And(selr(r), isnan(transform(z3.Select(ob, r))))))


ad.raises("ValueError", _bad_obs)


def trained_records(a, upto, impl, impl0):
    """impl's four lists = impl0's followed by one record per selected row (the first `upto` of them), in row order"""
    n = nrows(a.screen)
    sel = a.data.selection_vector.data
    ob, sid, tid = G(a.screen, "_observations").data, G(a.screen, "_sample_ids").data, G(a.screen, "_treatment_ids").data
    k = z3.Int("k!tr")
    L0 = impl0.y.length
    row = lambda t: idx(sel, n, t)  # noqa
    y, cl, d1, d2 = impl.y.seq, impl.cline.seq, impl.dd1.seq, impl.dd2.seq
    return [("count", z3.And(y.length == L0 + upto, cl.length == y.length, d1.length == y.length, d2.length == y.length)),
            ("records", z3.ForAll([k], z3.Implies(z3.And(k >= 0, k < upto), z3.And(
                z3.Select(y.cols, L0 + k) == transform(z3.Select(ob, row(k))), z3.Select(cl.cols, L0 + k) == z3.Select(sid, row(k)),
                z3.Select(d1.cols, L0 + k) == z3.Select(z3.Select(tid, row(k)), 0), z3.Select(d2.cols, L0 + k) == z3.Select(z3.Select(tid, row(k)), 1))),
                patterns=[row(k)])),
            ("earlier_kept", z3.ForAll([k], z3.Implies(z3.And(k >= 0, k < L0), z3.And(
                z3.Select(y.cols, k) == z3.Select(impl0.y.cols, k), z3.Select(cl.cols, k) == z3.Select(impl0.cline.cols, k),
                z3.Select(d1.cols, k) == z3.Select(impl0.dd1.cols, k), z3.Select(d2.cols, k) == z3.Select(impl0.dd2.cols, k))),
                patterns=[z3.Select(y.cols, k)]))]


ad.requires(lambda a: [("only_observed_rows", all_selected_observed(a))])
ad.ensures("trained_on_observed_rows_once", lambda a, ret, st: trained_records(
    a, rank(a.data.selection_vector.data, nrows(a.screen)), a.self.wrapped_model, a.old.self.wrapped_model))


def _ad_inv(s):
    a = NS({"screen": s.screen, "data": s.data}, "argument")
    return trained_records(a, s.it, s.self.wrapped_model, s.old.old.self.wrapped_model)


ad.loop("for#0", invariant=_ad_inv)


# ================================================================ cli/train_model.main: what the model is trained on (REGION: from
# `observed_subset = data.subset_observed()` to the end of the `if` that calls add_observations).  Claim: the model receives, at most once,
# exactly the object returned by data.subset_observed() - never the screen itself or another view - and nothing when there is no observed row.
import ast as _ast4
from pyvc.spec import abstract_class, TOpt
from pyvc.values import OptV
abstract_class("ModelTok", "batchie.core.BayesianModel", {})
from . import c14 as _c14  # noqa  (registers the Screen view contracts)
from pyvc.spec import REGISTRY as _REG14  # noqa
_so = _REG14.get(SCREEN + ".subset_observed")


def _so_apply(i, a, node, fr):
    if not i._cur_label.split("[")[0].endswith("@trains_on"):
        return NotImplemented
    tok = i.ctx.fresh("observed_view", Ref)
    i.ctx.ghost["observed_view"] = (a.self, tok)
    return OptV(i.ctx.fresh("no_observed_rows", Bool), AObj("ScreenSubset", tok))


def _ao_apply(i, a, node, fr):
    if not i._cur_label.split("[")[0].endswith("@trains_on"):
        return NotImplemented
    i.ctx.ghost.setdefault("training_calls", []).append(a.data)
    return None


if _so is not None:
    _so.inline = False
    _so.apply = _so_apply
ao.apply = _ao_apply

tm = contract("batchie.cli.train_model.main@trains_on", params=[("data", TAObj("Screen")), ("model", TAObj("ModelTok"))])
tm.region = (lambda st: isinstance(st, _ast4.Assign) and getattr(st.targets[0], "id", None) == "observed_subset", lambda st: isinstance(st, _ast4.If))


def _tm_post(a, ret, st):
    g = st.ctx.ghost
    ov = g.get("observed_view")
    calls = g.get("training_calls", [])
    sub = st._cur_frame.locals.get("observed_subset")
    none = sub.isnone if isinstance(sub, OptV) else z3.BoolVal(sub is None)
    out = [("asks_the_loaded_screen_for_its_observed_part", bool_(ov is not None and ov[0] is a.data)),
           ("at_most_one_training_call", bool_(len(calls) <= 1))]
    if calls:
        d = calls[0]
        d = d.val if isinstance(d, OptV) else d
        out.append(("trains_on_exactly_the_observed_part", z3.And(z3.Not(none), bool_(ov is not None and isinstance(d, AObj) and d.term.eq(ov[1])))))
    else:
        out.append(("no_training_call_only_without_observed_rows", none))
    return out


tm.ensures("plumbing", _tm_post)
