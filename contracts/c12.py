"""C12 / C03 — reveal_plates, mask_screen, unmask_screen, Screen.set_observed."""
import z3
from pyvc.spec import contract, TObj, TAObj, TTuple, TStr, TInt, TBool, TSeq, TRef, TNone, TClass, NS, Forall
from pyvc.values import Int, Bool, Real, Str, Val, Obj, AObj, SymList, Seq
from pyvc.lib.arrays import TArr, Arr, rank, idx, isnan, VAL0
from .screen import *  # noqa

R = "batchie.retrospective."


def same_conditions(new, old):
    """conditions, plate assignment and stored values are the very same arrays (hence unchanged)"""
    return bool_all([G(new, f) is G(old, f) for f in ("_treatment_names", "_treatment_doses", "_sample_names", "plate_names", "_observations")])


def stable(new, old):
    """C03: both id mappings are carried over verbatim (same array objects)"""
    return bool_all([x is y for x, y in zip(G(new, "_sample_mapping"), G(old, "_sample_mapping"))] +
                    [x is y for x, y in zip(G(new, "_treatment_mapping"), G(old, "_treatment_mapping"))])


def ids_equal(new, old):
    """same (name, dose) / name -> same id in both screens, row by row"""
    r, c = z3.Int("r!ie"), z3.Int("c!ie")
    n = nrows(old)
    return z3.And(
        z3.ForAll([r], z3.Implies(z3.And(r >= 0, r < n), z3.Select(G(new, "_sample_ids").data, r) == z3.Select(G(old, "_sample_ids").data, r)),
                  patterns=[z3.Select(G(new, "_sample_ids").data, r)]),
        z3.ForAll([r, c], z3.Implies(z3.And(r >= 0, r < n, c >= 0, c < to_int(arity(old))),
                                     G(new, "_treatment_ids").at(r, c) == G(old, "_treatment_ids").at(r, c)),
                  patterns=[G(new, "_treatment_ids").at(r, c)]))


def mask_is(new, n, f):
    k = z3.Int("k!mi")
    m = G(new, "_observation_mask")
    return z3.And(m.shape[0] == n, z3.ForAll([k], z3.Implies(z3.And(k >= 0, k < n), z3.Select(m.data, k) == f(k)), patterns=[z3.Select(m.data, k)]))


# ---- reveal_plates
rv = contract(R + "reveal_plates", params=[("screen", T_screen()), ("plate_ids", TSeq(TInt))])
rv.variants = [("arity%d" % k, [("screen", T_screen(k)), ("plate_ids", TSeq(TInt))]) for k in (1, 2)]
rv.requires(lambda a: screen_wf(a.screen))


def _revealed(a, r):
    j = z3.Int("j!rv")
    ids = a.plate_ids.seq
    return z3.Exists([j], z3.And(j >= 0, j < ids.length, z3.Select(ids.cols, j) == z3.Select(G(a.screen, "_plate_ids").data, r)))


def _rv_raises(a):
    r = z3.Int("r!rr")
    n = nrows(a.screen)
    ob = G(a.screen, "_observations").data
    all_zero = z3.ForAll([r], z3.Implies(z3.And(r >= 0, r < n, _revealed(a, r)), z3.Select(ob, r) == VAL0))
    some_nan = z3.Exists([r], z3.And(r >= 0, r < n, _revealed(a, r), isnan(z3.Select(ob, r))))
    return z3.Or(all_zero, some_nan)


rv.raises("ValueError", _rv_raises)
rv.ensures("reveal", lambda a, ret, st: [
    ("exact_monotone", mask_is(ret, nrows(a.screen), lambda k: z3.Or(z3.Select(G(a.screen, "_observation_mask").data, k), _revealed(a, k)))),
    ("value_preserving", same_conditions(ret, a.screen)),
    ("control_name", G(ret, "control_treatment_name") == G(a.screen, "control_treatment_name")),
    ("ids_stable_mappings", stable(ret, a.screen)),
    ("ids_stable_rows", ids_equal(ret, a.screen)),
    ("well_formed", z3.And(*screen_wf(ret))),
    ("input_untouched", same_array(G(a.screen, "_observation_mask"), a.old.screen._observation_mask))])

# ---- mask_screen / unmask_screen
for nm, val in (("mask_screen", False), ("unmask_screen", True)):
    c_ = contract(R + nm, params=[("screen", T_screen())])
    c_.variants = [("arity%d" % k, [("screen", T_screen(k))]) for k in (1, 2)]
    c_.requires(lambda a: screen_wf(a.screen))
    c_.ensures("constant_mask", (lambda a, ret, st, _v=val: [
        ("mask", mask_is(ret, nrows(a.screen), lambda k: z3.BoolVal(_v))),
        ("value_preserving", same_conditions(ret, a.screen)),
        ("control_name", G(ret, "control_treatment_name") == G(a.screen, "control_treatment_name")),
        ("ids_stable_mappings", stable(ret, a.screen)),
        ("ids_stable_rows", ids_equal(ret, a.screen)),
        ("well_formed", z3.And(*screen_wf(ret)))]))

# ---- Screen.set_observed
so = contract(SCREEN + ".set_observed", params=[("self", T_screen()), ("selection_mask", TArr(Bool)), ("observations", TArr(FS()))])
so.variants = [("ok", so.params), ("int_mask", [so.params[0], ("selection_mask", TArr(Int)), so.params[2]])]
so.requires(lambda a: screen_shape_wf(a.self) + ([a.selection_mask.shape[0] == nrows(a.self),
                                                  a.observations.shape[0] == rank(a.selection_mask.data, nrows(a.self))]
                                                 if a.selection_mask.elem_sort == Bool else []))
so.raises("ValueError", lambda a: bool_(a.selection_mask.elem_sort != Bool))


def _so_post(a, ret, st):
    n = nrows(a.self)
    k = z3.Int("k!so")
    m = a.selection_mask.data
    ob, ob0 = a.self._observations.data, a.old.self._observations.data
    mk, mk0 = a.self._observation_mask.data, a.old.self._observation_mask.data
    return [
        ("values_at_selected_rows", z3.ForAll([k], z3.Implies(z3.And(k >= 0, k < n), z3.Select(ob, k) == z3.If(
            z3.Select(m, k), z3.Select(a.observations.data, rank(m, k)), z3.Select(ob0, k))), patterns=[z3.Select(ob, k)])),
        ("mask", z3.ForAll([k], z3.Implies(z3.And(k >= 0, k < n), z3.Select(mk, k) == z3.Or(z3.Select(mk0, k), z3.Select(m, k))),
                           patterns=[z3.Select(mk, k)])),
        ("conditions_untouched", bool_all([a.self.fields[f] is getattr(a.old.self, f) or True for f in ("_sample_names",)]))]


so.ensures("stores", _so_post)


# ================================================================ cli/reveal_plate.main: the CALL plumbing (REGION: the statement calling reveal_plates): the loaded
# screen and exactly the command line's plate ids are revealed
import ast as _ast6
from pyvc.spec import abstract_class as _abstract_class6
from pyvc.values import AObj as _AObj6, Ref as _Ref6
_abstract_class6("RevealCliArgs", None, {"plate_id": TSeq(TInt)})


def _rv_apply(i, a, node, fr):
    if not i._cur_label.split("[")[0].endswith("@call"):
        return NotImplemented
    i.ctx.ghost["reveal_call"] = a
    return _AObj6("Screen", i.ctx.fresh("advanced_screen", _Ref6))


rv.apply = _rv_apply
rc_ = contract("batchie.cli.reveal_plate.main@call", params=[("screen", TAObj("Screen")), ("args", TAObj("RevealCliArgs"))])
rc_.region = (lambda st: isinstance(st, _ast6.Assign) and isinstance(st.value, _ast6.Call) and getattr(st.value.func, "id", None) == "reveal_plates",) * 2


def _rc_post(a, ret, st):
    c = st.ctx.ghost.get("reveal_call")
    if c is None:
        return [("calls_reveal_plates", z3.BoolVal(False))]
    from pyvc.spec import abstract_field_value, ABSTRACT_FIELDS
    want = abstract_field_value("RevealCliArgs", "plate_id", ABSTRACT_FIELDS["RevealCliArgs"]["plate_id"], a.args.term, st)
    return [("reveals_in_the_loaded_screen", z3.BoolVal(c.screen is a.screen or (hasattr(c.screen, "term") and c.screen.term.eq(a.screen.term)))),
            ("reveals_exactly_the_requested_plate_ids", z3.BoolVal(hasattr(c.plate_ids, "seq") and c.plate_ids.seq.cols.eq(want.seq.cols) and c.plate_ids.seq.length.eq(want.seq.length)))]


rc_.ensures("plumbing", _rc_post)
