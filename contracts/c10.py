"""C10 — posterior-sample collections: holder operations keep order and bounds; chain ids follow chain-major order."""
import z3
from pyvc.spec import contract, TObj, TAObj, TInt, TSeq, TClass, TPyList, NS, Forall
from pyvc.values import Int, Bool, Obj, SymList, PyList

TH = "batchie.core.ThetaHolder"
TTheta = TAObj("ThetaTok")
T_thetas = TSeq(TTheta)


def T_holder():
    return TObj(TH, fields={"_n_thetas": TInt, "thetas": T_thetas})


def thetas(o):
    x = o.fields["thetas"] if isinstance(o, Obj) else o.thetas
    return x.seq if hasattr(x, "seq") else x  # entry snapshots hold the Seq itself


def nth(o):
    return o.fields["_n_thetas"] if isinstance(o, Obj) else o._n_thetas


def same_seq(a, b):
    k = z3.Int("k!ss")
    return z3.And(a.length == b.length, z3.ForAll([k], z3.Implies(z3.And(k >= 0, k < a.length), z3.Select(a.cols, k) == z3.Select(b.cols, k)), patterns=[z3.Select(a.cols, k)]))


def is_concat(r, a, b):
    """r == a ++ b"""
    k = z3.Int("k!cc")
    return z3.And(r.length == a.length + b.length,
                  z3.ForAll([k], z3.Implies(z3.And(k >= 0, k < a.length), z3.Select(r.cols, k) == z3.Select(a.cols, k)), patterns=[z3.Select(r.cols, k)]),
                  z3.ForAll([k], z3.Implies(z3.And(k >= 0, k < b.length), z3.Select(r.cols, a.length + k) == z3.Select(b.cols, k)), patterns=[z3.Select(b.cols, k)]))


# ---- get_theta
gt = contract(TH + ".get_theta", params=[("self", T_holder()), ("step_index", TInt)])
gt.raises("ValueError", lambda a: z3.Or(a.step_index < 0, a.step_index > thetas(a.self).length - 1))
gt.ensures("returns_the_sample_at_that_position", lambda a, ret, st: ret.term == z3.Select(thetas(a.self).cols, a.step_index))
gt.ensures("holder_unchanged", lambda a, ret, st: z3.And(same_seq(thetas(a.self), thetas(a.old.self)), nth(a.self) == nth(a.old.self)))

# ---- add_theta
ad = contract(TH + ".add_theta", params=[("self", T_holder()), ("theta", TTheta)])
ad.raises("ValueError", lambda a: thetas(a.old.self).length >= nth(a.old.self))
ad.ensures("appended_at_the_end", lambda a, ret, st: z3.And(
    thetas(a.self).length == thetas(a.old.self).length + 1, z3.Select(thetas(a.self).cols, thetas(a.old.self).length) == a.theta.term,
    z3.ForAll([z3.Int("k!ad")], z3.Implies(z3.And(z3.Int("k!ad") >= 0, z3.Int("k!ad") < thetas(a.old.self).length),
                                           z3.Select(thetas(a.self).cols, z3.Int("k!ad")) == z3.Select(thetas(a.old.self).cols, z3.Int("k!ad"))))))
ad.ensures("declared_size_unchanged_and_respected", lambda a, ret, st: z3.And(nth(a.self) == nth(a.old.self), thetas(a.self).length <= nth(a.self)))
ad.modifies_fields = ["thetas"]
ad.inline = True  # three-line body: executed at call sites (load_h5), the contract above is proved for it separately

# ---- combine
cb = contract(TH + ".combine", params=[("self", T_holder()), ("other", T_holder())], returns=T_holder())
cb.ensures("declared_size_is_the_sum", lambda a, ret, st: nth(ret) == nth(a.self) + nth(a.other))
cb.ensures("samples_of_self_then_samples_of_other", lambda a, ret, st: is_concat(thetas(ret), thetas(a.old.self), thetas(a.old.other)))
cb.ensures("operands_unchanged", lambda a, ret, st: z3.And(same_seq(thetas(a.self), thetas(a.old.self)), same_seq(thetas(a.other), thetas(a.old.other)),
                                                           nth(a.self) == nth(a.old.self), nth(a.other) == nth(a.old.other)))
cb.ensures("result_is_a_new_holder", lambda a, ret, st: z3.BoolVal(ret is not a.self and ret is not a.other))


# ---- concat over an immutable view of the holders (tokens): chain-major order as a recursive specification
from pyvc.spec import abstract_class, TOpt
from pyvc.values import AObj, Ref, Seq
HT = "HolderTok"
abstract_class(HT, TH, {"_n_thetas": TInt, "thetas": T_thetas})
T_tok = TAObj(HT)
ThetaSort = Ref
InstArr = z3.ArraySort(Int, Ref)
# spec functions over a list of holders (array of tokens):  first k holders flattened
n_sum = z3.Function("n_sum", InstArr, Int, Int)  # sum of declared sizes
flat_len = z3.Function("flat_len", InstArr, Int, Int)  # number of samples
flat_at = z3.Function("flat_at", InstArr, Int, Int, ThetaSort)  # p-th sample
chain_of = z3.Function("chain_of", InstArr, Int, Int, Int)  # chain (holder index) of the p-th sample


def tok_thetas(interp, t):
    from pyvc.spec import abstract_field_value, ABSTRACT_FIELDS
    return abstract_field_value(HT, "thetas", ABSTRACT_FIELDS[HT]["thetas"], t, interp).seq


def tok_n(t):
    return z3.Function("%s.%s" % (HT, "_n_thetas"), Ref, Int)(t)


def unfold(interp, inst, k):
    """definition of the spec functions at k -> k+1 (instantiated explicitly; no recursive triggers)"""
    p = z3.Int("p!uf")
    hk = z3.Select(inst, k)
    th = tok_thetas(interp, hk)
    fl, fl1 = flat_len(inst, k), flat_len(inst, k + 1)
    return [n_sum(inst, k + 1) == n_sum(inst, k) + tok_n(hk), fl1 == fl + th.length, th.length >= 0,
            z3.ForAll([p], flat_at(inst, k + 1, p) == z3.If(p < fl, flat_at(inst, k, p), z3.Select(th.cols, p - fl)), patterns=[flat_at(inst, k + 1, p)]),
            z3.ForAll([p], chain_of(inst, k + 1, p) == z3.If(p < fl, chain_of(inst, k, p), k), patterns=[chain_of(inst, k + 1, p)])]


def base(inst):
    return [n_sum(inst, 0) == 0, flat_len(inst, 0) == 0]


class _NoAssume:
    class ctx:
        @staticmethod
        def assume(f):
            pass


def holds_flat(interp, tok, inst, k):
    """token `tok` holds exactly the first k holders flattened, declared size = their sum"""
    th = tok_thetas(interp, tok)
    p = z3.Int("p!hf")
    return z3.And(tok_n(tok) == n_sum(inst, k), th.length == flat_len(inst, k),
                  z3.ForAll([p], z3.Implies(z3.And(p >= 0, p < th.length), z3.Select(th.cols, p) == flat_at(inst, k, p)), patterns=[z3.Select(th.cols, p)]))


cc = contract(TH + ".concat", params=[("cls", TClass(TH)), ("instances", TSeq(T_tok))], returns=T_tok)
cc.raises("ValueError", lambda a: a.instances.seq.length == 0)
cc.use(lambda a: base(a.instances.seq.cols) + unfold(_NoAssume, a.instances.seq.cols, z3.IntVal(0)))
cc.ensures("chain_major_order", lambda a, ret, st: holds_flat(st, ret.term, a.instances.seq.cols, a.instances.seq.length))
cc.loop("for#0", invariant=lambda v: [("first_holds_the_chains_so_far", holds_flat(v.interp, v.first.term, v.instances.seq.cols, v.it + 1))],
        use=lambda v: unfold(v.interp, v.instances.seq.cols, v.it + 1), types={"first": T_tok})


def _cb_apply(i, a, node, fr):
    """combine on immutable holder views: the contract proved above for heap holders, stated on tokens"""
    if isinstance(a.self, Obj) and isinstance(a.other, Obj):
        return NotImplemented
    ctx = i.ctx
    r = ctx.fresh("combined", Ref)
    ta, tb, tr = tok_thetas(i, a.self.term), tok_thetas(i, a.other.term), tok_thetas(i, r)
    ctx.assume(tok_n(r) == tok_n(a.self.term) + tok_n(a.other.term))
    ctx.assume(is_concat(tr, ta, tb))
    return AObj(HT, r)


cb.apply = _cb_apply


# ---- evaluate_model.main: the chain-id labelling loop (a REGION of main(): from `chain_ids = []` to `chain_ids = np.array(...)`)
import ast as _ast
from pyvc.lib.arrays import Arr


def _assign_to(name):
    return lambda st: isinstance(st, _ast.Assign) and len(st.targets) == 1 and isinstance(st.targets[0], _ast.Name) and st.targets[0].id == name


em = contract("batchie.cli.evaluate_model.main@chain_ids", params=[("theta_holders", TSeq(T_tok))])
em.region = (_assign_to("chain_ids"), _assign_to("chain_ids"))
em.requires(lambda a: [z3.ForAll([z3.Int("k!em")], tok_n(z3.Select(a.theta_holders.seq.cols, z3.Int("k!em"))) >= 0)])  # declared sizes are counts
em.use(lambda a: base(a.theta_holders.seq.cols))


def _em_post(a, ret, st):
    ci = st._cur_frame.locals["chain_ids"]
    inst, N = a.theta_holders.seq.cols, a.theta_holders.seq.length
    p = z3.Int("p!em")
    ok = isinstance(ci, Arr) and ci.ndim == 1
    if not ok:
        return [("chain_ids_is_an_integer_vector", z3.BoolVal(False))]
    return [("one_label_per_declared_sample", ci.shape[0] == n_sum(inst, N)),
            ("labels_follow_chain_major_order", z3.ForAll([p], z3.Implies(z3.And(p >= 0, p < ci.shape[0]), z3.Select(ci.data, p) == chain_lab(inst, N, p)),
                                                          patterns=[z3.Select(ci.data, p)]))]


chain_lab = z3.Function("chain_label", InstArr, Int, Int, Int)  # label of position p when holders contribute their DECLARED sizes


def unfold_lab(inst, k):
    p = z3.Int("p!ul")
    hk = z3.Select(inst, k)
    return [n_sum(inst, k + 1) == n_sum(inst, k) + tok_n(hk),
            z3.ForAll([p], chain_lab(inst, k + 1, p) == z3.If(p < n_sum(inst, k), chain_lab(inst, k, p), k), patterns=[chain_lab(inst, k + 1, p)])]


em.ensures("chain_ids", _em_post)
em.loop("for#0", invariant=lambda v: [
    ("length", v.chain_ids.seq.length == n_sum(v.theta_holders.seq.cols, v.it)),
    ("labels", z3.ForAll([z3.Int("p!ei")], z3.Implies(z3.And(z3.Int("p!ei") >= 0, z3.Int("p!ei") < v.chain_ids.seq.length),
                                                      z3.Select(v.chain_ids.seq.cols, z3.Int("p!ei")) == chain_lab(v.theta_holders.seq.cols, v.it, z3.Int("p!ei"))),
                         patterns=[z3.Select(v.chain_ids.seq.cols, z3.Int("p!ei"))]))],
    use=lambda v: unfold_lab(v.theta_holders.seq.cols, v.it), types={"chain_ids": TSeq(TInt)})


# ---- persistence: the real save_h5 / load_h5 on a holder of n samples of a generic conforming sample type (scenarios/c10.py);
# n is CONCRETE per variant (1, 2, 11, 12: beyond ten samples string order and numeric order of the group names differ), every
# parameter value and array shape is symbolic
from pyvc.spec import TStr, TReal, TPyList
from pyvc.lib.arrays import TArr
from pyvc.values import Real
GT = "scenarios.c10.GenericTheta"


def T_gtheta():
    return TObj(GT, fields={"A": TArr(Real, 2), "s": TReal, "B": TArr(Real), "c": TReal})


def T_full_holder(n):
    return TObj(TH, fields={"_n_thetas": TInt, "thetas": TPyList(*[T_gtheta() for _ in range(n)])})


def same_arr(x, y):
    k, c = z3.Ints("k!sa c!sa")
    if x.ndim == 1:
        return z3.And(x.shape[0] == y.shape[0], z3.ForAll([k], z3.Implies(z3.And(k >= 0, k < x.shape[0]), z3.Select(x.data, k) == z3.Select(y.data, k))))
    return z3.And(x.shape[0] == y.shape[0], x.shape[1] == y.shape[1],
                  z3.ForAll([k, c], z3.Implies(z3.And(k >= 0, k < x.shape[0], c >= 0, c < x.shape[1]), z3.Select(z3.Select(x.data, k), c) == z3.Select(z3.Select(y.data, k), c))))


hr = contract("scenarios.c10.holder_roundtrip", params=[("h", T_full_holder(2)), ("fn", TStr)])
hr.variants = [("n%d" % n, [("h", T_full_holder(n)), ("fn", TStr)]) for n in (1, 2, 11, 12)]
hr.requires(lambda a: [a.h.fields["_n_thetas"] == len(a.h.fields["thetas"].items)])  # a complete chain


def _hr_post(a, ret, st):
    src = a.h.fields["thetas"].items
    got = ret.fields["thetas"]
    items = got.items if isinstance(got, PyList) else None
    out = [("declared_size_preserved", ret.fields["_n_thetas"] == a.h.fields["_n_thetas"]),
           ("number_of_samples_preserved", z3.BoolVal(items is not None and len(items) == len(src)))]
    if items is None or len(items) != len(src):
        return out
    for k, (t0, t1) in enumerate(zip(src, items)):
        out.append(("sample_%d_in_place_and_identical" % k, z3.And(same_arr(t1.fields["A"], t0.fields["A"]), t1.fields["s"] == t0.fields["s"],
                                                                   same_arr(t1.fields["B"], src[0].fields["B"]), t1.fields["c"] == src[0].fields["c"])))
    return out


hr.ensures("lossless_in_order", _hr_post)


# ---- save_h5 refuses an empty collection (REGION: the guard at the top of ThetaHolder.save_h5; the rest of the function is covered by the
# persistence scenario above for non-empty collections)
import ast as _ast2
sv0 = contract(TH + ".save_h5@empty_guard", params=[("self", T_holder()), ("fn", TStr)])
sv0.region = (lambda st: isinstance(st, _ast2.If), lambda st: isinstance(st, _ast2.If) and isinstance(st.test, _ast2.Compare))
sv0.raises("ValueError", lambda a: thetas(a.self).length == 0)
sv0.ensures("non_empty_collections_pass_the_guard", lambda a, ret, st: thetas(a.self).length > 0)
