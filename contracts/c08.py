"""C08 — the Gibbs sweep.  Deductive part: the sweep structure of LegacySparseDrugComboImpl.mcmc_step (every block exactly once per step,
fitted values rebuilt first, Gaussian blocks before the precision blocks that condition on them).  The block bodies themselves are
floating-point linear algebra with random draws: their distributional correctness is not expressible as a pre/post-condition here
(bounded oracle harness native/c08.py)."""
import z3
from pyvc.spec import contract, TObj, TInt, TBool

IMPL = "batchie.models.sparse_combo.LegacySparseDrugComboImpl"
BLOCKS = ["_alpha_step", "_W0_step", "_V0_step", "_W_step", "_V2_step", "_V1_step",
          "_prec_W0_step", "_prec_V0_step", "_prec_obs_step", "_prec_V2_step", "_prec_V1_step", "_prec_W_step"]
T_impl = TObj(IMPL, fields={"num_mcmc_steps": TInt})


def _stub(name):
    c = contract(IMPL + "." + name, params=[("self", T_impl)])
    c.trusted = True  # body not under contract here: only "is called, returns, touches nothing but self" is used
    c.note = "sweep stub: the call is recorded in the ghost log"

    def apply(i, a, node, fr):
        i.ctx.ghost.setdefault("sweep", []).append((name, dict(clip=getattr(a, "clip", None)) if name == "_reconstruct_Mu" else {}))
        return None
    c.apply = apply
    return c


for _b in BLOCKS + ["_reconstruct_Mu"]:
    _stub(_b)

ms = contract(IMPL + ".mcmc_step", params=[("self", T_impl)])
ms.ensures("counts_the_step", lambda a, ret, st: a.self.fields["num_mcmc_steps"] == a.old.self.num_mcmc_steps + 1)


def _sweep(a, ret, st):
    log = st.ctx.ghost.get("sweep", [])
    names = [n for n, _ in log]
    gauss = ["_alpha_step", "_W0_step", "_V0_step", "_W_step", "_V2_step", "_V1_step"]
    prec = [b for b in BLOCKS if b.startswith("_prec")]
    pos = {n: k for k, n in enumerate(names)}
    return [("fitted_values_rebuilt_unclipped_before_any_block", z3.BoolVal(bool(log) and log[0] == ("_reconstruct_Mu", {"clip": False}))),
            ("every_block_exactly_once", z3.BoolVal(sorted(names[1:]) == sorted(BLOCKS))),
            ("documented_order", z3.BoolVal(names[1:] == BLOCKS)),
            ("precision_blocks_after_the_gaussian_blocks", z3.BoolVal(all(n in pos for n in BLOCKS) and max(pos[g] for g in gauss) < min(pos[p] for p in prec)))]


ms.ensures("sweep", _sweep)
