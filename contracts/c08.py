"""C08 — the Gibbs sweep.  Deductive part: the sweep structure of LegacySparseDrugComboImpl.mcmc_step (every block exactly once per step,
fitted values rebuilt first, Gaussian blocks before the precision blocks that condition on them).  The block bodies themselves are
floating-point linear algebra with random draws: their distributional correctness is not expressible as a pre/post-condition here
(bounded oracle harness native/c08.py)."""
import z3
from pyvc.spec import contract, TObj, TInt, TBool, Using

IMPL = "batchie.models.sparse_combo.LegacySparseDrugComboImpl"
BLOCKS = ["_alpha_step", "_W0_step", "_V0_step", "_W_step", "_V2_step", "_V1_step",
          "_prec_W0_step", "_prec_V0_step", "_prec_obs_step", "_prec_V2_step", "_prec_V1_step", "_prec_W_step"]
T_impl = TObj(IMPL, fields={"num_mcmc_steps": TInt})


def _stub(name):
    c = contract(IMPL + "." + name, params=[("self", T_impl)])
    c.trusted = True  # body not under contract here: only "is called, returns, touches nothing but self" is used
    c.note = "sweep stub: the call is recorded in the ghost log"

    def apply(i, a, node, fr):
        i.ctx.ghost.setdefault("sweep", []).append((name, dict(clip=getattr(a, "clip", None)) if name == "_reconstruct_Mu" else {}))
        return None
    c.apply = apply
    return c


for _b in BLOCKS + ["_reconstruct_Mu"]:
    _stub(_b)

ms = contract(IMPL + ".mcmc_step", params=[("self", T_impl)])
ms.ensures("counts_the_step", lambda a, ret, st: a.self.fields["num_mcmc_steps"] == a.old.self.num_mcmc_steps + 1)


def _sweep(a, ret, st):
    log = st.ctx.ghost.get("sweep", [])
    names = [n for n, _ in log]
    gauss = ["_alpha_step", "_W0_step", "_V0_step", "_W_step", "_V2_step", "_V1_step"]
    prec = [b for b in BLOCKS if b.startswith("_prec")]
    pos = {n: k for k, n in enumerate(names)}
    return [("fitted_values_rebuilt_unclipped_before_any_block", z3.BoolVal(bool(log) and log[0] == ("_reconstruct_Mu", {"clip": False}))),
            ("every_block_exactly_once", z3.BoolVal(sorted(names[1:]) == sorted(BLOCKS))),
            ("documented_order", z3.BoolVal(names[1:] == BLOCKS)),
            ("precision_blocks_after_the_gaussian_blocks", z3.BoolVal(all(n in pos for n in BLOCKS) and max(pos[g] for g in gauss) < min(pos[p] for p in prec)))]


ms.ensures("sweep", _sweep)


# ---- _alpha_step: under the default options (fake_intercept=True) the global intercept is HELD at the mean of the transformed
# observations, and the running fitted values follow it (Mu' = Mu + (alpha' - alpha)); with no data nothing changes.
from pyvc.spec import TReal, TSeq
from pyvc.lib.arrays import TArr
from pyvc.values import Real, Int
from pyvc.lib.np_real import mean1

T_alpha = TObj(IMPL, fields={"alpha": TReal, "fake_intercept": TBool, "y": TSeq(TReal), "Mu": TArr(Real)})
al = contract(IMPL + "._alpha_step@default", params=[("self", T_alpha)])
al.requires(lambda a: [a.self.fields["fake_intercept"] == True, a.self.fields["Mu"].shape[0] == a.self.fields["y"].seq.length])  # noqa: E712


def _al_post(a, ret, st):
    o, old = a.self.fields, a.old.self
    n = old.y.length
    k = z3.Int("k!al")
    return [("no_data_nothing_changes", z3.Implies(n == 0, o["alpha"] == old.alpha)),
            ("intercept_is_the_mean_of_the_observations", z3.Implies(n > 0, o["alpha"] == mean1(old.y.cols, n))),
            ("fitted_values_follow_the_intercept", z3.And(o["Mu"].shape[0] == old.Mu.shape[0], z3.ForAll([k], z3.Implies(z3.And(k >= 0, k < n),
                z3.Select(o["Mu"].data, k) == z3.Select(old.Mu.data, k) + (o["alpha"] - old.alpha)), patterns=[z3.Select(o["Mu"].data, k)]))),
            ("observations_untouched", z3.And(o["y"].seq.length == n))]


al.ensures("alpha", _al_post)


# ---- _prec_W0_step: the conjugate-gamma update of the per-sample-intercept precision is parameterised as the documented conditional and
# the stored precision stays inside its documented bounds [1/sqrt(1+n_obs), 1e6]
from pyvc.lib.np_real import sumr, sq, sqrt_r
T_pw0 = TObj(IMPL, fields={"a0": TReal, "b0": TReal, "n_clines": TInt, "W0": TArr(Real), "tau0": TReal, "y": TSeq(TReal)})
pw = contract(IMPL + "._prec_W0_step@bounds", params=[("self", T_pw0)])
pw.requires(lambda a: [a.self.fields["b0"] >= 0, a.self.fields["a0"] >= 0, a.self.fields["n_clines"] >= 0, a.self.fields["W0"].shape[0] == a.self.fields["n_clines"]])


def _pw_post(a, ret, st):
    o, old = a.self.fields, a.old.self
    draws = st.ctx.ghost.get("legacy_draws", [])
    n = z3.ToReal(old.y.length)
    lo = 1 / sqrt_r(1 + n)
    out = [("exactly_one_gamma_draw", z3.BoolVal(len(draws) == 1 and draws[0][0] == "gamma"))]
    if len(draws) == 1:
        shape, scale = draws[0][1]
        A = st.ctx.ghost.get("last_sq_array")
        k = z3.Int("k!pw")
        out.append(("shape_is_prior_shape_plus_half_the_number_of_samples", shape == old.a0 + 0.5 * z3.ToReal(old.n_clines)))
        if A is None:
            out.append(("rate_uses_the_sum_of_squares", z3.BoolVal(False)))
        else:
            out.append(("scale_is_one_over_prior_rate_plus_half_the_sum_of_squared_intercepts", z3.And(
                A.shape[0] == old.W0.shape[0], z3.ForAll([k], z3.Implies(z3.And(k >= 0, k < A.shape[0]), z3.Select(A.data, k) == sq(z3.Select(old.W0.data, k))), patterns=[z3.Select(A.data, k)]),
                scale == 1 / (old.b0 + 0.5 * sumr(A.data, A.shape[0]) + 0.001))))
    out.append(("precision_stays_inside_its_bounds", z3.And(o["tau0"] >= lo, o["tau0"] <= 1000000, lo > 0, lo <= 1)))
    return out


def sum_nonneg(f, n):
    """lemma (proved by SMT induction in props/C08.lemmas): a sum of non-negative terms is non-negative"""
    k = z3.Int("k!sn")
    return z3.Implies(z3.And(n >= 0, z3.ForAll([k], z3.Implies(z3.And(k >= 0, k < n), z3.Select(f, k) >= 0), patterns=[z3.Select(f, k)])), sumr(f, n) >= 0)


pw.after("bn", lambda v: [("rate_is_at_least_the_prior_rate", Using([sum_nonneg(v.ghost["last_sq_array"].data, v.ghost["last_sq_array"].shape[0])], v.bn >= v.self.fields["b0"]))])
pw.ensures("tau0", _pw_post)


# ---- _prec_obs_step: observation-noise precision
T_po = TObj(IMPL, fields={"a0": TReal, "b0": TReal, "prec": TReal, "y": TSeq(TReal), "Mu": TArr(Real), "last_rmse": TReal})
po = contract(IMPL + "._prec_obs_step@bounds", params=[("self", T_po)])
po.requires(lambda a: [a.self.fields["b0"] > 0, a.self.fields["a0"] >= 0, a.self.fields["Mu"].shape[0] == a.self.fields["y"].seq.length])
po.after("bn", lambda v: [("rate_is_at_least_the_prior_rate", Using([sum_nonneg(v.ghost["last_sq_array"].data, v.ghost["last_sq_array"].shape[0])], v.bn >= v.self.fields["b0"]))])


def _po_post(a, ret, st):
    o, old = a.self.fields, a.old.self
    draws = st.ctx.ghost.get("legacy_draws", [])
    n = old.y.length
    nr = z3.ToReal(n)
    out = [("exactly_one_gamma_draw", z3.BoolVal(len(draws) == 1 and draws[0][0] == "gamma"))]
    if len(draws) != 1:
        return out
    shape, scale = draws[0][1]
    A = st.ctx.ghost.get("last_sq_array")
    k = z3.Int("k!po")
    if A is None:
        out.append(("without_data_the_prior_is_sampled", z3.And(n == 0, shape == old.a0, scale == 1 / old.b0)))
        return out
    resid = lambda kk: z3.Select(old.y.cols, kk) - z3.Select(old.Mu.data, kk)  # noqa
    out += [("data_present", n > 0),
            ("shape_is_prior_shape_plus_half_the_number_of_observations", shape == old.a0 + 0.5 * nr),
            ("scale_is_one_over_prior_rate_plus_half_the_squared_error_of_the_fitted_values", z3.And(
                A.shape[0] == n, z3.ForAll([k], z3.Implies(z3.And(k >= 0, k < n), z3.Select(A.data, k) == sq(resid(k))), patterns=[z3.Select(A.data, k)]),
                scale == 1 / (old.b0 + 0.5 * sumr(A.data, n) + 0.001))),
            ("precision_stays_inside_its_bounds", z3.And(o["prec"] >= 1 / sqrt_r(1 + nr), o["prec"] <= 1000000))]
    return out


po.ensures("prec", _po_post)


# ---- _W0_step: the running fitted values keep tracking the per-sample intercepts.  With I(c) = the recorded rows of sample c (data-structure
# invariant of cline_idxs, stated as the precondition), after the block   Mu[i] - W0[cline[i]]   is what it was before, for EVERY row i:
# the cache moves by exactly the change of the row's own intercept.
from pyvc.lib.maps import TIdxFamily
T_w0 = TObj(IMPL, fields={"y": TSeq(TReal), "cline": TSeq(TInt), "dd1": TSeq(TInt), "dd2": TSeq(TInt), "n_clines": TInt, "cline_idxs": TIdxFamily("cline"),
                          "Mu": TArr(Real), "W0": TArr(Real), "prec": TReal, "tau0": TReal})
w0 = contract(IMPL + "._W0_step@cache", params=[("self", T_w0)])


def _rows_by_sample(o):
    """cline_idxs[c] lists, without repetition, exactly the rows whose sample is c"""
    fam, cl, n = o["cline_idxs"], o["cline"].seq if hasattr(o["cline"], "seq") else o["cline"], None
    n = cl.length
    c, k, k2, i_ = z3.Ints("c!rb k!rb k2!rb i!rb")
    pos = z3.Function("row_pos_in_its_sample_list", Int, Int)
    e = lambda cc, kk: z3.Select(fam.arr(cc), kk)  # noqa
    return [z3.ForAll([c, k], z3.Implies(z3.And(k >= 0, k < fam.len(c)), z3.And(e(c, k) >= 0, e(c, k) < n, z3.Select(cl.cols, e(c, k)) == c)), patterns=[e(c, k)]),
            z3.ForAll([c, k, k2], z3.Implies(z3.And(k >= 0, k < k2, k2 < fam.len(c)), e(c, k) != e(c, k2)), patterns=[z3.MultiPattern(e(c, k), e(c, k2))]),
            z3.ForAll([i_], z3.Implies(z3.And(i_ >= 0, i_ < n), z3.And(z3.Select(cl.cols, i_) >= 0, z3.Select(cl.cols, i_) < o["n_clines"], pos(i_) >= 0,
                                                                     pos(i_) < fam.len(z3.Select(cl.cols, i_)), e(z3.Select(cl.cols, i_), pos(i_)) == i_)),
                      patterns=[z3.Select(cl.cols, i_)])]


w0.requires(lambda a: _rows_by_sample(a.self.fields) + [a.self.fields["Mu"].shape[0] == a.self.fields["y"].seq.length, a.self.fields["cline"].seq.length == a.self.fields["y"].seq.length,
                                                        a.self.fields["dd1"].seq.length == a.self.fields["y"].seq.length, a.self.fields["dd2"].seq.length == a.self.fields["y"].seq.length,
                                                        a.self.fields["W0"].shape[0] == a.self.fields["n_clines"], a.self.fields["n_clines"] >= 0,
                                                        a.self.fields["prec"] > 0, a.self.fields["tau0"] > 0])


def _seq(x):
    return x.seq if hasattr(x, "seq") else x


def _tracks(o, old_Mu, old_W0, cl, n):
    cl = _seq(cl)
    i_ = z3.Int("i!tr")
    ci = z3.Select(cl.cols, i_)
    return z3.ForAll([i_], z3.Implies(z3.And(i_ >= 0, i_ < n), z3.Select(o["Mu"].data, i_) - z3.Select(o["W0"].data, ci) == z3.Select(old_Mu.data, i_) - z3.Select(old_W0.data, ci)),
                     patterns=[z3.Select(o["Mu"].data, i_)])


w0.ensures("cache", lambda a, ret, st: [
    ("fitted_values_move_with_the_rows_own_intercept", _tracks(a.self.fields, a.old.self.Mu, a.old.self.W0, a.old.self.cline, a.old.self.y.length)),
    ("shapes_kept", z3.And(a.self.fields["Mu"].shape[0] == a.old.self.Mu.shape[0], a.self.fields["W0"].shape[0] == a.old.self.W0.shape[0]))])
w0.loop("for#0", invariant=lambda v: [
    ("shapes_kept", z3.And(v.self.fields["Mu"].shape[0] == v.old.old.self.Mu.shape[0], v.self.fields["W0"].shape[0] == v.old.old.self.W0.shape[0])),
    ("tracks_so_far", _tracks(v.self.fields, v.old.old.self.Mu, v.old.old.self.W0, v.old.old.self.cline, v.old.old.self.y.length)),
    ("later_intercepts_untouched", z3.ForAll([z3.Int("c!li")], z3.Implies(z3.And(z3.Int("c!li") >= v.it, z3.Int("c!li") < v.old.old.self.n_clines),
                                                                          z3.Select(v.self.fields["W0"].data, z3.Int("c!li")) == z3.Select(v.old.old.self.W0.data, z3.Int("c!li"))),
                                             patterns=[z3.Select(v.self.fields["W0"].data, z3.Int("c!li"))]))])


# ---- _V0_step: the same for the per-treatment intercepts, which enter a row through BOTH treatment positions.  Precondition (made explicit; the
# property's datasets satisfy it): no row has the same non-control treatment in both positions - numpy's `Mu[idx] += d` adds d once per distinct
# index, so such a row would receive one d for two occurrences.
T_v0 = TObj(IMPL, fields={"y": TSeq(TReal), "cline": TSeq(TInt), "dd1": TSeq(TInt), "dd2": TSeq(TInt), "n_drugdoses": TInt,
                          "dd1_idxs": TIdxFamily("dd1"), "dd2_idxs": TIdxFamily("dd2"), "Mu": TArr(Real), "V0": TArr(Real), "prec": TReal,
                          "phi0": TArr(Real), "eta0": TReal})
v0 = contract(IMPL + "._V0_step@cache", params=[("self", T_v0)])


def _rows_by_treatment(o, fam_name, col_name, tag):
    fam, col = o[fam_name], _seq(o[col_name])
    n = col.length
    c, k, k2, i_ = z3.Ints("c!rt k!rt k2!rt i!rt")
    pos = z3.Function("row_pos_in_its_%s_list" % tag, Int, Int)
    e = lambda cc, kk: z3.Select(fam.arr(cc), kk)  # noqa
    return [z3.ForAll([c, k], z3.Implies(z3.And(k >= 0, k < fam.len(c)), z3.And(e(c, k) >= 0, e(c, k) < n, z3.Select(col.cols, e(c, k)) == c)), patterns=[e(c, k)]),
            z3.ForAll([c, k, k2], z3.Implies(z3.And(k >= 0, k < k2, k2 < fam.len(c)), e(c, k) != e(c, k2)), patterns=[z3.MultiPattern(e(c, k), e(c, k2))]),
            z3.ForAll([i_], z3.Implies(z3.And(i_ >= 0, i_ < n, z3.Select(col.cols, i_) >= 0), z3.And(z3.Select(col.cols, i_) < o["n_drugdoses"], pos(i_) >= 0,
                                                                                                pos(i_) < fam.len(z3.Select(col.cols, i_)), e(z3.Select(col.cols, i_), pos(i_)) == i_)),
                      patterns=[z3.Select(col.cols, i_)]),
            z3.ForAll([i_], z3.Implies(z3.And(i_ >= 0, i_ < n), z3.Select(col.cols, i_) >= -1), patterns=[z3.Select(col.cols, i_)])]


def _v0_req(a):
    o = a.self.fields
    n = o["y"].seq.length
    i_ = z3.Int("i!vr")
    d1, d2 = o["dd1"].seq, o["dd2"].seq
    return _rows_by_treatment(o, "dd1_idxs", "dd1", "dd1") + _rows_by_treatment(o, "dd2_idxs", "dd2", "dd2") + [
        o["Mu"].shape[0] == n, o["cline"].seq.length == n, d1.length == n, d2.length == n, o["V0"].shape[0] == o["n_drugdoses"], o["phi0"].shape[0] == o["n_drugdoses"],
        o["n_drugdoses"] >= 0, o["prec"] > 0, o["eta0"] > 0,
        z3.ForAll([i_], z3.Implies(z3.And(i_ >= 0, i_ < o["phi0"].shape[0]), z3.Select(o["phi0"].data, i_) > 0), patterns=[z3.Select(o["phi0"].data, i_)]),
        ("no_row_combines_a_treatment_with_itself", z3.ForAll([i_], z3.Implies(z3.And(i_ >= 0, i_ < n, z3.Select(d1.cols, i_) >= 0), z3.Select(d1.cols, i_) != z3.Select(d2.cols, i_)),
                                                              patterns=[z3.Select(d1.cols, i_)]))]


v0.requires(_v0_req)


def _v0z(V0, t):
    return z3.If(t >= 0, z3.Select(V0.data, t), z3.RealVal(0))


def _tracks2(o, old_Mu, old_V0, d1, d2, n):
    d1, d2 = _seq(d1), _seq(d2)
    i_ = z3.Int("i!t2")
    a1, a2 = z3.Select(d1.cols, i_), z3.Select(d2.cols, i_)
    return z3.ForAll([i_], z3.Implies(z3.And(i_ >= 0, i_ < n), z3.Select(o["Mu"].data, i_) - _v0z(o["V0"], a1) - _v0z(o["V0"], a2) ==
                                      z3.Select(old_Mu.data, i_) - _v0z(old_V0, a1) - _v0z(old_V0, a2)), patterns=[z3.Select(o["Mu"].data, i_)])


v0.ensures("cache", lambda a, ret, st: [
    ("fitted_values_move_with_the_rows_own_treatment_intercepts", _tracks2(a.self.fields, a.old.self.Mu, a.old.self.V0, a.old.self.dd1, a.old.self.dd2, a.old.self.y.length)),
    ("shapes_kept", z3.And(a.self.fields["Mu"].shape[0] == a.old.self.Mu.shape[0], a.self.fields["V0"].shape[0] == a.old.self.V0.shape[0]))])
v0.loop("for#0", invariant=lambda v: [
    ("shapes_kept", z3.And(v.self.fields["Mu"].shape[0] == v.old.old.self.Mu.shape[0], v.self.fields["V0"].shape[0] == v.old.old.self.V0.shape[0])),
    ("tracks_so_far", _tracks2(v.self.fields, v.old.old.self.Mu, v.old.old.self.V0, v.old.old.self.dd1, v.old.old.self.dd2, v.old.old.self.y.length)),
    ("later_intercepts_untouched", z3.ForAll([z3.Int("c!l2")], z3.Implies(z3.And(z3.Int("c!l2") >= v.it, z3.Int("c!l2") < v.old.old.self.n_drugdoses),
                                                                          z3.Select(v.self.fields["V0"].data, z3.Int("c!l2")) == z3.Select(v.old.old.self.V0.data, z3.Int("c!l2"))),
                                             patterns=[z3.Select(v.self.fields["V0"].data, z3.Int("c!l2"))]))])
