"""C11 — retrospective preparation conserves experiments (template methods, Screen.combine, permutation generator).
Conservation is stated with an explicit index map from output rows to input rows (ghost arrays given by the abstract
contracts / the numpy models); multiset statements follow from Lean lemmas (filter_partition, scatter_count)."""
import z3
from pyvc.spec import contract, synthetic_class, TObj, TAObj, TTuple, TStr, TInt, TReal, TBool, TSeq, TRef, TNone, TClass, NS, Forall, Using
from pyvc.values import Int, Bool, Real, Str, Val, Ref, Obj, AObj, SymList, Seq
from pyvc.lib.arrays import TArr, Arr, rank, idx
from pyvc.lib.rng import TGenerator
from .screen import *  # noqa

COND_COLS = ["_treatment_names", "_treatment_doses", "_sample_names", "_observations"]  # what an "experiment" is (plus its plate label / status)


def row_equal(new, k, old, r, cols=COND_COLS):
    """row k of `new` is row r of `old`: same sample, treatments, doses and observation payload"""
    out = []
    for f in cols:
        a, b = G(new, f), G(old, f)
        if a.ndim == 2:
            ar = a.shape[1]
            for c in range(ar):
                out.append(z3.Select(z3.Select(a.data, k), c) == z3.Select(z3.Select(b.data, r), c))
        else:
            out.append(z3.Select(a.data, k) == z3.Select(b.data, r))
    return z3.And(*out)


# ---- Screen.combine: rows of self followed by rows of other
cmb = contract(SCREEN + ".combine", params=[("self", T_screen(2)), ("other", T_screen(2))])
cmb.variants = [("arity%d" % k, [("self", T_screen(k)), ("other", T_screen(k))]) for k in (1, 2)]
cmb.inline = True
cmb.requires(lambda a: screen_wf(a.self) + screen_wf(a.other))
cmb.raises("ValueError", lambda a: G(a.other, "control_treatment_name") != G(a.self, "control_treatment_name"))
# the constructor may also reject the union (a plate name used by both screens with different observation status)
cmb.raises("ValueError", lambda a: z3.BoolVal(True), iff=False)


def concatenated(ret, s, o):
    k = z3.Int("k!cc")
    n0, n1 = nrows(s), nrows(o)
    cols = COND_COLS + ["plate_names", "_observation_mask"]
    return [("length", nrows(ret) == n0 + n1),
            ("first_part", z3.ForAll([k], z3.Implies(z3.And(k >= 0, k < n0), row_equal(ret, k, s, k, cols)), patterns=[z3.Select(G(ret, "_sample_names").data, k)])),
            ("second_part", z3.ForAll([k], z3.Implies(z3.And(k >= 0, k < n1), row_equal(ret, n0 + k, o, k, cols)), patterns=[z3.Select(G(o, "_sample_names").data, k)]))]


cmb.ensures("rows_concatenated", lambda a, ret, st: concatenated(ret, a.self, a.other) + [("well_formed", z3.And(*screen_wf(ret)))])

# ---- abstract _generate_plates / _smooth_plates (ghost index maps), template methods
GEN = synthetic_class("spec.AnyPlateGenerator", ["batchie.core.RetrospectivePlateGenerator"])
SMO = synthetic_class("spec.AnyPlateSmoother", ["batchie.core.RetrospectivePlateSmoother"])
src_of = z3.Function("generated_row_source", Ref, Int, Int)  # (output screen token, output row) -> input row


def _abstract_apply(kind):
    def apply(i, a, node, fr):
        ctx = i.ctx
        s = a.screen
        ar = arity(s)
        out = T_screen(ar if isinstance(ar, int) else None).fresh(ctx, "generated")
        for g in screen_wf(out):
            ctx.assume(g)
        tok = ctx.fresh("gen_tok", Ref)
        k, k2 = z3.Int("k!ab"), z3.Int("k2!ab")
        n_in, n_out = nrows(s), nrows(out)
        f = lambda t: src_of(tok, t)  # noqa
        ctx.assume(G(out, "control_treatment_name") == G(s, "control_treatment_name"))
        ctx.assume(z3.ForAll([k], z3.Implies(z3.And(k >= 0, k < n_out), z3.And(f(k) >= 0, f(k) < n_in, row_equal(out, k, s, f(k)))),
                             patterns=[z3.Select(G(out, "_sample_names").data, k)]))
        ctx.assume(z3.ForAll([k, k2], z3.Implies(z3.And(k >= 0, k < k2, k2 < n_out), f(k) != f(k2)), patterns=[z3.MultiPattern(f(k), f(k2))]))
        if kind == "generator":
            ctx.assume(n_out == n_in)  # generators keep every experiment (injective + same count = bijective)
        else:
            ctx.assume(n_out <= n_in)
        ctx.ghost["abstract_result"] = (out, tok)
        return out
    return apply


ag = contract("batchie.core.RetrospectivePlateGenerator._generate_plates", abstract=True)
ag.apply = _abstract_apply("generator")
ag.trusted = True
ag.note = "abstract contract of _generate_plates: output rows are the input rows rearranged (injective index map, same count); each shipped override is checked against it natively (bounded) or by its own body proof"
asm = contract("batchie.core.RetrospectivePlateSmoother._smooth_plates", abstract=True)
asm.apply = _abstract_apply("smoother")
asm.trusted = True
asm.note = "abstract contract of _smooth_plates: output rows are a sub-collection of the input rows (injective index map)"


def _template_post(kind):
    def post(a, ret, st):
        s = a.screen
        n = nrows(s)
        msk = G(s, "_observation_mask").data
        k, r = z3.Int("k!tp"), z3.Int("r!tp")
        some_unobs = z3.Exists([r], z3.And(r >= 0, r < n, z3.Not(z3.Select(msk, r))))
        res = st.ctx.ghost.get("abstract_result")
        if ret is a.screen:
            return [("unchanged_when_nothing_unobserved", z3.Not(some_unobs))]
        out = [("something_unobserved", some_unobs)]
        nO = rank(msk, n)
        if res is not None:
            gen, tok = res
            ng = nrows(gen)
            from .c03 import neg_mask
            from .lemmas import rank_complement
            inv = neg_mask(st, G(s, "_observation_mask"))
            from .lemmas import rank_none
            lem = [rank_complement(msk, inv.data, n), rank_none(msk, n), rank_none(inv.data, n)]
            # every output row is an input row; generated part first, then the observed part unchanged and still observed
            out += [("count", Using(lem, z3.And(nrows(ret) == ng + nO, (ng == n - nO) if kind == "generator" else (ng <= n - nO)))),
                    ("observed_part_passes_through", z3.ForAll([k], z3.Implies(z3.And(k >= 0, k < nO), z3.And(
                        row_equal(ret, ng + k, s, idx(msk, n, k), COND_COLS + ["plate_names"]), z3.Select(G(ret, "_observation_mask").data, ng + k))),
                        patterns=[idx(msk, n, k)])),
                    ("generated_part_from_unobserved_rows", z3.ForAll([k], z3.Implies(z3.And(k >= 0, k < ng), z3.Exists([r], z3.And(
                        r >= 0, r < n, z3.Not(z3.Select(msk, r)), row_equal(ret, k, s, r)))), patterns=[z3.Select(G(ret, "_sample_names").data, k)]))]
        return out
    return post


for cls, kind, abstract_name in (("batchie.core.RetrospectivePlateGenerator.generate_plates", "generator", GEN), ("batchie.core.RetrospectivePlateSmoother.smooth_plates", "smoother", SMO)):
    tm = contract(cls, params=[("self", TObj(abstract_name)), ("screen", T_screen(2)), ("rng", TGenerator())])
    tm.variants = [("arity%d" % k, [("self", TObj(abstract_name)), ("screen", T_screen(k)), ("rng", TGenerator())]) for k in (1, 2)]
    tm.requires(lambda a: screen_wf(a.screen))
    # the final Screen(...) may reject the combination (e.g. a generated plate name colliding with an observed plate of the
    # other status); the property speaks about the cases in which the operation returns
    tm.raises("ValueError", lambda a: z3.BoolVal(True), iff=False)
    tm.ensures("conserves_experiments", _template_post(kind))

# ---- PlatePermutationPlateGenerator._generate_plates against the abstract generator contract (index map = idx of the selection)
PPG = "batchie.retrospective.PlatePermutationPlateGenerator"
pp = contract(PPG + "._generate_plates", params=[("self", TObj(PPG, fields={"force_include_plate_names": TNone})), ("screen", T_screen(2)), ("rng", TGenerator())])
pp.variants = [("arity%d" % k, [("self", TObj(PPG, fields={"force_include_plate_names": TNone})), ("screen", T_screen(k)), ("rng", TGenerator())]) for k in (1, 2)]
pp.requires(lambda a: screen_wf(a.screen))
pp.raises("ValueError", lambda a: z3.BoolVal(True), iff=False)


def _pp_post(a, ret, st):
    from .lemmas import rank_none
    s = a.screen
    n = nrows(s)
    k = z3.Int("k!ppp")
    sel = st._cur_frame.locals.get("selection_vector")
    lem = [rank_none(sel.data, n)]
    f = lambda t: idx(sel.data, n, t)  # noqa  the index map of the abstract contract
    return [("keeps_every_experiment", Using(lem, nrows(ret) == n)),
            ("rows_are_input_rows", z3.ForAll([k], z3.Implies(z3.And(k >= 0, k < nrows(ret)), z3.And(f(k) >= 0, f(k) < n, row_equal(ret, k, s, f(k)))),
                                              patterns=[z3.Select(G(ret, "_sample_names").data, k)])),
            ("all_unobserved", z3.ForAll([k], z3.Implies(z3.And(k >= 0, k < nrows(ret)), z3.Not(z3.Select(G(ret, "_observation_mask").data, k))),
                                         patterns=[z3.Select(G(ret, "_observation_mask").data, k)])),
            ("control_name", G(ret, "control_treatment_name") == G(s, "control_treatment_name"))]


pp.ensures("sub:RetrospectivePlateGenerator._generate_plates", _pp_post)

# ---- the same generator with plates excluded from the permutation (force_include_plate_names): permuted part followed by the untouched part
ppf = contract(PPG + "._generate_plates@force_include", params=[("self", TObj(PPG, fields={"force_include_plate_names": TSeq(TStr)})), ("screen", T_screen(2)), ("rng", TGenerator())])
ppf.requires(lambda a: screen_wf(a.screen) + [a.self.fields["force_include_plate_names"].seq.length >= 1])
ppf.raises("ValueError", lambda a: z3.BoolVal(True), iff=False)


def _ppf_post(a, ret, st):
    from .lemmas import rank_none, rank_complement
    s = a.screen
    n = nrows(s)
    k, r = z3.Int("k!ppf"), z3.Int("r!ppf")
    sel = st._cur_frame.locals.get("selection_vector")
    comp = st.ctx.ghost.get("last_not_array")
    lem = [rank_none(sel.data, n)] + ([rank_complement(sel.data, comp.data, n)] if comp is not None else [])
    return [("keeps_every_experiment", Using(lem, nrows(ret) == n)),
            ("rows_are_input_rows", z3.ForAll([k], z3.Implies(z3.And(k >= 0, k < nrows(ret)), z3.Exists([r], z3.And(r >= 0, r < n, row_equal(ret, k, s, r)))),
                                              patterns=[z3.Select(G(ret, "_sample_names").data, k)])),
            ("control_name", G(ret, "control_treatment_name") == G(s, "control_treatment_name"))]


ppf.ensures("conservation", _ppf_post)


# ---- Screen.concat (list length concrete per variant: 1, 2 screens; contents symbolic): rows of every screen, in order
from pyvc.spec import TPyList
sct = contract(SCREEN + ".concat", params=[("cls", TClass(SCREEN)), ("screens", TPyList(T_screen(2)))])
sct.variants = [("screens%d" % n, [("cls", TClass(SCREEN)), ("screens", TPyList(*[T_screen(2) for _ in range(n)]))]) for n in (1, 2)]
sct.requires(lambda a: [f for s_ in a.screens.items for f in screen_wf(s_)])
sct.raises("ValueError", lambda a: z3.BoolVal(True), iff=False)  # combine / the constructor may refuse the union (not claimed)


def _sct_post(a, ret, st):
    items = a.screens.items
    if len(items) == 1:
        return [("single_screen_returned_as_is", z3.BoolVal(ret is items[0]))]
    return concatenated(ret, items[0], items[1])


sct.ensures("rows_of_every_screen_in_order", _sct_post)
