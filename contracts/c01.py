"""C01 — identifiers are a faithful dense encoding.  Deductive part on top of the ASSUMED pandas encoder contracts (contracts/screen.py):
the constructor plumbing (Screen.__init__, verified there), the validator numpy_array_is_0_indexed_integers, and the experiment-space
sizes that bound every id."""
import z3
from pyvc.spec import contract, TObj, TAObj, TInt, TBool, TTuple, TStr, NS, Forall, Lemma, Using
from pyvc.values import Int, Bool, Real, Str
from pyvc.lib.arrays import TArr, Arr
from .screen import *  # noqa

D = "batchie.data."

# ---- Lean-proved pigeonhole fact, instantiated explicitly
IntArr = z3.ArraySort(Int, Int)


miss = z3.Function("missing_value", IntArr, Int, Int, Int)  # skolem function for the contrapositive of the Lean theorem


def _dense_bound(u, m, v):
    """Lean: (forall w in [0,v], exists j < m, u j = w) -> v < m.   Used in contrapositive, skolemised form (choice of the witness
    as a function of (u, m, v) is conservative): v < m, or missing_value(u,m,v) in [0,v] occurs nowhere in u[0..m)."""
    j = z3.Int("j!db")
    w0 = miss(u, m, v)
    return z3.Implies(z3.And(m >= 0, v >= 0), z3.Or(v < m, z3.And(w0 >= 0, w0 <= v, z3.ForAll([j], z3.Implies(z3.And(j >= 0, j < m), z3.Select(u, j) != w0),
                                                                                                 patterns=[z3.Select(u, j)]))))


dense_bound = Lemma("dense_bound", _dense_bound, "lean:Batchie.dense_bound", "every value 0..v occurs among u[0..m) -> v < m (contrapositive, skolemised)")


def dense_ids_at(arr, k, v):
    """instance of the precondition dense_ids(arr) at (k, v): its quantifier has no trigger covering v, so it is instantiated explicitly"""
    k1 = z3.Int("k1!dia")
    n = arr.shape[0]
    return z3.Implies(z3.And(k >= 0, k < n, v >= 0, v < z3.Select(arr.data, k)), z3.Exists([k1], z3.And(k1 >= 0, k1 < n, z3.Select(arr.data, k1) == v)))


# ---- numpy_array_is_0_indexed_integers: NOT under contract.  Its body compares np.sort(np.unique(arr)) with an arange; the VC
# "accepted arrays are gap-free" needs "sorting an already strictly increasing array is the identity" (an induction) and was
# discharged only by z3's model-based instantiation in 36 s on one path and not at all with E-matching - unstable, so it is
# left to the bounded harness (native/c01.py) instead of being registered.

# ---- ExperimentSpace sizes
ES = D + "ExperimentSpace"
T_es = TObj(ES, fields={"treatment_mapping": TTuple(TArr(Str), TArr(Real), TArr(Int)), "sample_mapping": TTuple(TArr(Str), TArr(Int)), "control_treatment_name": TStr})

nt = contract(ES + ".n_unique_treatments", params=[("self", T_es)], returns=TInt)
nt.requires(lambda a: [dense_ids(a.self.fields["treatment_mapping"][2])])


def _nt_post(a, ret, st):
    tmi = a.self.fields["treatment_mapping"][2]
    u = st.ctx.ghost.get("last_unique")
    j = z3.Int("j!nt")
    if u is None:
        return [("size_is_a_count_of_distinct_values", z3.BoolVal(False))]
    return [("size_is_the_number_of_distinct_non_control_ids", ret == u.shape[0]),
            ("step:every_non_control_id_is_counted", Forall(
                [("k!nu", Int)], lambda kk: z3.Implies(z3.And(kk >= 0, kk < tmi.shape[0], z3.Select(tmi.data, kk) >= 0),
                                                       z3.Exists([j], z3.And(j >= 0, j < u.shape[0], z3.Select(u.data, j) == z3.Select(tmi.data, kk)))),
                patterns=lambda kk: [z3.Select(tmi.data, kk)], hints=lambda k0: [z3.Select(tmi.data, k0)])),
            ("size_strictly_bounds_every_treatment_id", Forall(
                [("k!nt", Int)], lambda kk: z3.Implies(z3.And(kk >= 0, kk < tmi.shape[0]), z3.Select(tmi.data, kk) < ret),
                patterns=lambda kk: [z3.Select(tmi.data, kk)], hints=lambda k0: [z3.Select(tmi.data, k0)],
                lemmas=lambda k0: [dense_bound(u.data, u.shape[0], z3.Select(tmi.data, k0)),
                                   dense_ids_at(tmi, k0, miss(u.data, u.shape[0], z3.Select(tmi.data, k0)))]))]


nt.ensures("bound", _nt_post)


# ---- ExperimentSpace.n_unique_samples: for a duplicate-free sample mapping it is the mapping's length, hence (dense ids) above every id
StrArr = z3.ArraySort(Int, Str)
dup1 = z3.Function("dup_first", StrArr, Int, StrArr, Int, Int)
dup2 = z3.Function("dup_second", StrArr, Int, StrArr, Int, Int)
unmatched = z3.Function("unmatched_position", StrArr, Int, StrArr, Int, Int)


def _distinct_le(a_, L, u, m):
    """Lean distinct_le in contrapositive, skolemised form: L <= m, or two positions below L hold the same value, or some position below L holds
    a value that occurs nowhere in u[0..m)"""
    j = z3.Int("j!dl")
    i1, i2, i3 = dup1(a_, L, u, m), dup2(a_, L, u, m), unmatched(a_, L, u, m)
    return z3.Implies(z3.And(L >= 0, m >= 0), z3.Or(
        L <= m,
        z3.And(i1 >= 0, i1 < i2, i2 < L, z3.Select(a_, i1) == z3.Select(a_, i2)),
        z3.And(i3 >= 0, i3 < L, z3.ForAll([j], z3.Implies(z3.And(j >= 0, j < m), z3.Select(u, j) != z3.Select(a_, i3)), patterns=[z3.Select(u, j)]))))


distinct_le = Lemma("distinct_le", _distinct_le, "lean:Batchie.distinct_le", "L pairwise distinct values all occurring in u[0..m) -> L <= m (contrapositive, skolemised)")

ns = contract(ES + ".n_unique_samples", params=[("self", T_es)], returns=TInt)
ns.requires(lambda a: [keys_distinct1(a.self.fields["sample_mapping"][0], a.self.fields["sample_mapping"][0].shape[0]),
                       a.self.fields["sample_mapping"][1].shape[0] == a.self.fields["sample_mapping"][0].shape[0], dense_ids(a.self.fields["sample_mapping"][1])])


def _ns_post(a, ret, st):
    smn, smi = a.self.fields["sample_mapping"]
    u = st.ctx.ghost.get("last_unique")
    if u is None:
        return [("size_is_a_count_of_distinct_names", z3.BoolVal(False))]
    L = smn.shape[0]
    inst = distinct_le(smn.data, L, u.data, u.shape[0])
    w = unmatched(smn.data, L, u.data, u.shape[0])
    d1, d2 = dup1(smn.data, L, u.data, u.shape[0]), dup2(smn.data, L, u.data, u.shape[0])
    return [("one_per_mapped_sample", Using([inst, z3.Select(smn.data, w) == z3.Select(smn.data, w), z3.Select(smn.data, d1) == z3.Select(smn.data, d1),
                                             z3.Select(smn.data, d2) == z3.Select(smn.data, d2)], ret == L)),
            ("size_strictly_bounds_every_sample_id", Forall(
                [("k!ns", Int)], lambda kk: z3.Implies(z3.And(kk >= 0, kk < smi.shape[0]), z3.Select(smi.data, kk) < ret),
                patterns=lambda kk: [z3.Select(smi.data, kk)], hints=lambda k0: [z3.Select(smi.data, k0)],
                lemmas=lambda k0: [dense_bound(smi.data, smi.shape[0], z3.Select(smi.data, k0)),
                                   dense_ids_at(smi, k0, miss(smi.data, smi.shape[0], z3.Select(smi.data, k0)))]))]


ns.ensures("count", _ns_post)
