"""C06 — every candidate plate is scored once; the minimum-score allowed plate is chosen."""
import z3
from pyvc.spec import (contract, TObj, TAObj, TTuple, TStr, TInt, TReal, TBool, TSeq, TRef, TNone, TClass, TOpt, NS, Forall, Using, Focus,
                       CLASS_MODELS, abstract_class)
from pyvc.values import Int, Bool, Real, Str, Ref, Obj, AObj, SymList, Seq
from pyvc.lib.arrays import TArr, Arr, rank, idx
from .screen import *  # noqa

CSH = "batchie.scoring.main.ChunkedScoresHolder"
T_csh = TObj(CSH, fields={"size": TInt, "scores": TArr(Real), "plate_ids": TArr(Int), "current_index": TInt})
abstract_class("ChunkedScoresHolder", CSH, {"size": TInt, "scores": TArr(Real), "plate_ids": TArr(Int), "current_index": TInt})


def F(o, f):
    return G(o, f)


def csh_wf(o):
    return [F(o, "scores").shape[0] == F(o, "plate_ids").shape[0], F(o, "current_index") >= 0, F(o, "current_index") <= F(o, "scores").shape[0]]


def csh_full(o):
    return csh_wf(o) + [F(o, "current_index") == F(o, "scores").shape[0]]


# ---- __init__ / add_score
ci = contract(CSH + ".__init__", params=[("self", TObj(CSH)), ("size", TInt)])
ci.requires(lambda a: [a.size >= 0])
ci.creates = {"size": TInt, "scores": TArr(Real), "plate_ids": TArr(Int), "current_index": TInt}
ci.ensures("empty", lambda a, ret, st: csh_wf(a.self) + [("size", z3.And(a.self.size == a.size, a.self.scores.shape[0] == a.size, a.self.current_index == 0))])

ad = contract(CSH + ".add_score", params=[("self", T_csh), ("plate_id", TInt), ("score", TReal)])
ad.modifies_fields = ["scores", "plate_ids", "current_index"]
ad.requires(lambda a: csh_wf(a.self) + [("room", a.self.current_index < a.self.scores.shape[0])])


def kept_prefix(o, old, upto):
    k = z3.Int("k!kp")
    return z3.ForAll([k], z3.Implies(z3.And(k >= 0, k < upto), z3.And(z3.Select(F(o, "scores").data, k) == z3.Select(F(old, "scores").data, k),
                                                                      z3.Select(F(o, "plate_ids").data, k) == z3.Select(F(old, "plate_ids").data, k))),
                     patterns=[z3.Select(F(o, "plate_ids").data, k), z3.Select(F(old, "plate_ids").data, k)])


ad.ensures("append", lambda a, ret, st: csh_wf(a.self) + [
    ("count", a.self.current_index == a.old.self.current_index + 1),
    ("capacity", z3.And(a.self.scores.shape[0] == a.old.self.scores.shape[0], a.self.size == a.old.self.size)),
    ("kept", kept_prefix(a.self, a.old.self, a.old.self.current_index)),
    ("new", z3.And(z3.Select(a.self.plate_ids.data, a.old.self.current_index) == a.plate_id,
                   z3.Select(a.self.scores.data, a.old.self.current_index) == a.score))])

# ---- plate_id_with_minimum_score
pm = contract(CSH + ".plate_id_with_minimum_score", params=[("self", T_csh), ("eligible_plate_ids", TSeq(TInt))], returns=TInt)
pm.variants = [("eligible_list", pm.params), ("no_restriction", [("self", T_csh), ("eligible_plate_ids", TNone)])]


def elig(a, pid):
    if a.eligible_plate_ids is None:
        return z3.BoolVal(True)
    j = z3.Int("j!el")
    E = a.eligible_plate_ids.seq
    return z3.Exists([j], z3.And(j >= 0, j < E.length, z3.Select(E.cols, j) == pid))


def _some_scored_eligible(a):
    k = z3.Int("k!se")
    return z3.Exists([k], z3.And(k >= 0, k < F(a.self, "scores").shape[0], elig(a, z3.Select(F(a.self, "plate_ids").data, k))))


pm.requires(lambda a: csh_full(a.self) + [("some_scored_plate_is_eligible", _some_scored_eligible(a))])


def _pm_post(a, ret, st):
    k = z3.Int("k!pmp")
    n = F(a.self, "scores").shape[0]
    sc, pid = F(a.self, "scores").data, F(a.self, "plate_ids").data
    return [("chosen_is_scored_and_eligible_and_minimal", z3.Exists([k], z3.And(
        k >= 0, k < n, z3.Select(pid, k) == ret, elig(a, ret),
        z3.ForAll([z3.Int("k2!pmp")], z3.Implies(z3.And(z3.Int("k2!pmp") >= 0, z3.Int("k2!pmp") < n, elig(a, z3.Select(pid, z3.Int("k2!pmp")))),
                                                 z3.Select(sc, z3.Int("k2!pmp")) >= z3.Select(sc, k)))))),
            ("holder_untouched", z3.And(same_array(F(a.self, "scores"), a.old.self.scores), same_array(F(a.self, "plate_ids"), a.old.self.plate_ids)))]


pm.ensures("minimum", _pm_post)


def _pm_apply(i, a, node, fr):
    """call-site use of the contract proved above, in SKOLEMISED form: the positions whose existence the post-condition asserts are
    named (ghost 'argmin_witness') so that callers can state their own existential claims with an explicit witness"""
    from pyvc.spec import named
    from pyvc.engine import _aslist
    ctx = i.ctx
    ln = getattr(node, "lineno", "?")
    for rq in pm._requires:
        for nm, f in named(_aslist(rq(a)), "pre"):
            ctx.prove("%s/call:plate_id_with_minimum_score:%s@%s" % (i._cur_label, nm, ln), f, node, "call")
    n = F(a.self, "scores").shape[0]
    sc, pid = F(a.self, "scores").data, F(a.self, "plate_ids").data
    ret, k0 = ctx.fresh("min_plate_id", Int), ctx.fresh("min_pos", Int)
    ctx.assume(z3.And(k0 >= 0, k0 < n, z3.Select(pid, k0) == ret))
    j0 = None
    if a.eligible_plate_ids is not None:
        E = a.eligible_plate_ids.seq
        j0 = ctx.fresh("min_elig_pos", Int)
        ctx.assume(z3.And(j0 >= 0, j0 < E.length, z3.Select(E.cols, j0) == ret))
    k2 = z3.Int("k2!pma")
    ctx.assume(z3.ForAll([k2], z3.Implies(z3.And(k2 >= 0, k2 < n, elig(a, z3.Select(pid, k2))), z3.Select(sc, k2) >= z3.Select(sc, k0)), patterns=[z3.Select(pid, k2)]))
    ctx.ghost["argmin_witness"] = dict(k=k0, j=j0, ret=ret)
    return ret


pm.apply = _pm_apply

# ---- combine (mutates and returns self): pairs of self followed by pairs of other
cb = contract(CSH + ".combine", params=[("self", T_csh), ("other", T_csh)])
cb.modifies_fields = ["scores", "plate_ids", "current_index"]
cb.requires(lambda a: csh_full(a.self) + csh_full(a.other))
cb.inline = True  # four-line body: executed at call sites (concat); the contract below is proved for it separately


def _cb_post(a, ret, st):
    k = z3.Int("k!cbp")
    n0, n1 = a.old.self.scores.shape[0], a.old.other.scores.shape[0]
    o = a.self
    return csh_full(o) + [("returns_self", bool_(ret is a.self)), ("length", o.scores.shape[0] == n0 + n1),
                          ("first", kept_prefix(o, a.old.self, n0)),
                          ("second", z3.ForAll([k], z3.Implies(z3.And(k >= 0, k < n1), z3.And(
                              z3.Select(o.scores.data, n0 + k) == z3.Select(a.old.other.scores.data, k),
                              z3.Select(o.plate_ids.data, n0 + k) == z3.Select(a.old.other.plate_ids.data, k))),
                              patterns=[z3.Select(a.old.other.plate_ids.data, k)]))]


cb.ensures("concatenated", _cb_post)

# ================================================================ pure-method summaries on Plate tokens
pid_fn = z3.Function("Plate.plate_id", Ref, Int)
pobs_fn = z3.Function("Plate.is_observed", Ref, Bool)


def one_plate(p):
    """the view selects a non-empty set of rows that all carry the same plate id (Plate.plate_id does not raise)"""
    scr = G(p, "screen")
    n = nrows(scr)
    sel, pids = G(p, "selection_vector"), G(scr, "_plate_ids")
    r, r2 = z3.Int("r!op"), z3.Int("r2!op")
    return z3.And(sel.shape[0] == n, z3.Exists([r], z3.And(r >= 0, r < n, z3.Select(sel.data, r))),
                  z3.ForAll([r, r2], z3.Implies(z3.And(r >= 0, r < n, r2 >= 0, r2 < n, z3.Select(sel.data, r), z3.Select(sel.data, r2)),
                                                z3.Select(pids.data, r) == z3.Select(pids.data, r2))))


def plate_summary_axioms():
    """consequences of the verified contracts of Plate.plate_id (C14) and ScreenBase.is_observed for EVERY token"""
    t = z3.Const("t!ps", Ref)
    p = AObj("Plate", t)
    scr = G(p, "screen")
    n = nrows(scr)
    sel, pids, msk = G(p, "selection_vector"), G(scr, "_plate_ids"), G(scr, "_observation_mask")
    r = z3.Int("r!ps")
    from .c14 import is_plate_view
    return [z3.ForAll([t], z3.Implies(is_plate_view(t), z3.ForAll([r], z3.Implies(z3.And(r >= 0, r < n, z3.Select(sel.data, r)),
                                                                                  z3.Select(pids.data, r) == pid_fn(t)))), patterns=[pid_fn(t)]),
            z3.ForAll([t], pobs_fn(t) == z3.ForAll([r], z3.Implies(z3.And(r >= 0, r < n, z3.Select(sel.data, r)), z3.Select(msk.data, r))),
                      patterns=[pobs_fn(t)])]


def _install(i):
    if not i.ctx.ghost.get("_plate_summaries"):
        i.ctx.ghost["_plate_summaries"] = True
        allow = getattr(i.ctx, "_allow_fresh_in_scope", False)
        sc, i.ctx.scopes = i.ctx.scopes, []
        for ax in plate_summary_axioms():
            i.ctx.assume(ax)
        i.ctx.scopes = sc


def _plate_id_attr(i, p):
    _install(i)
    from .c14 import is_plate_view
    i.ctx.prove("%s/call:Plate.plate_id:single_plate_view" % (i._cur_label,), is_plate_view(p.term), None, "call")
    return pid_fn(p.term)


def _is_observed_attr(i, p):
    _install(i)
    return pobs_fn(p.term)


CLASS_MODELS["Plate"]["plate_id"] = _plate_id_attr
CLASS_MODELS["Plate"]["is_observed"] = _is_observed_attr

# ---- ScreenBase.is_observed on a view (justifies the summary)
io = contract("batchie.data.ScreenBase.is_observed", params=[("screen", TAObj("Screen")), ("self", TObj(PLATE, fields={"screen": TRef("screen"), "selection_vector": TArr(Bool)}))], returns=TBool)
io.requires(lambda a: screen_shape_wf(a.screen) + [a.self.selection_vector.shape[0] == nrows(a.screen)])
io.ensures("all_selected_rows_observed", lambda a, ret, st: [("iff", ret == z3.ForAll([z3.Int("r!io")], z3.Implies(
    z3.And(z3.Int("r!io") >= 0, z3.Int("r!io") < nrows(a.screen), z3.Select(a.self.selection_vector.data, z3.Int("r!io"))),
    z3.Select(G(a.screen, "_observation_mask").data, z3.Int("r!io")))))])

# ================================================================ select_next_plate
from .c14 import plates_post, pl as plates_contract  # noqa
# in this module Screen.plates is used through its (C14-verified) CONTRACT at call sites, not inlined: the callers below need the
# facts "every element is a single-plate view / ids ascending / rows covered", not the comprehension that builds them
plates_contract.inline = False
plates_contract.returns = TSeq(TAObj("Plate"))
# filter_dataset_to_unique_treatments applied to a VIEW (score_chunk conditions each candidate plate on the batch): here only "returns
# some view, changes nothing" is used - what the conditioned view contains does not enter the claims of this module (C14 proves its content
# for screens; the bounded harness checks it for views)
from .c14 import fu as _fu_contract  # noqa


def _fu_apply(i, a, node, fr):
    v = a.screen
    is_view = (isinstance(v, Obj) and "selection_vector" in v.fields) or (isinstance(v, AObj) and v.clsname in ("ScreenSubset", "Plate"))
    if not is_view:
        return NotImplemented
    return AObj("ScreenSubset", i.ctx.fresh("conditioned_view", Ref))


_fu_contract.inline = False
_fu_contract.apply = _fu_apply
# ScreenSubset.concat / ScreenSubset.combine inside score_chunk's batch branch: used here as "returns some view of a screen or raises
# ValueError; touches nothing" (C14 proves what they return and that the operands are untouched; the content of the conditioned views is
# outside this module's claims)
from .c14 import ct_ as _concat_contract, cb as _combine_contract  # noqa


def _opaque_view_or_error(what):
    def apply(i, a, node, fr):
        from pyvc.engine import PyRaise, ExcVal
        if i.ctx.decide(i.ctx.fresh(what + "_refuses", Bool)):
            raise PyRaise(ExcVal("ValueError"), node)
        return AObj("ScreenSubset", i.ctx.fresh(what + "_view", Ref))
    return apply


for _c, _w in ((_concat_contract, "concat"), (_combine_contract, "combine")):
    _c.inline = False
    _c.apply = _opaque_view_or_error(_w)
from pyvc.lib.rng import TGenerator  # noqa

abstract_class("PlatePolicy", "batchie.core.PlatePolicy", {})
pol = contract("batchie.core.PlatePolicy.filter_eligible_plates", abstract=True)


def _policy_apply(i, a, node, fr):
    """abstract policy: returns some sub-collection of the unobserved plates it was given (every outcome allowed)"""
    U = a.unobserved_plates
    out = TSeq(TAObj("Plate")).fresh(i.ctx, "policy_result")
    j, k = z3.Int("j!pa"), z3.Int("k!pa")
    i.ctx.assume(z3.ForAll([j], z3.Implies(z3.And(j >= 0, j < out.seq.length),
                                           z3.Exists([k], z3.And(k >= 0, k < U.seq.length, z3.Select(out.seq.cols, j) == z3.Select(U.seq.cols, k)))),
                           patterns=[z3.Select(out.seq.cols, j)]))
    i.ctx.ghost["policy_args"] = (a.batch_plates, a.unobserved_plates)
    i.ctx.ghost["policy_result"] = out.seq
    return out


pol.apply = _policy_apply
pol.trusted = True
pol.note = "abstract PlatePolicy contract: the result is a sub-collection of the `unobserved_plates` argument"

SNP = "batchie.scoring.main.select_next_plate"
sn = contract(SNP, params=[("scores", T_csh), ("screen", TAObj("Screen")), ("policy", TNone), ("batch_plate_ids", TSeq(TInt)), ("rng", TGenerator())])
sn.variants = [("no_policy", sn.params),
               ("no_policy_no_batch", [("scores", T_csh), ("screen", TAObj("Screen")), ("policy", TNone), ("batch_plate_ids", TNone), ("rng", TGenerator())]),
               ("with_policy", [("scores", T_csh), ("screen", TAObj("Screen")), ("policy", TAObj("PlatePolicy")), ("batch_plate_ids", TSeq(TInt)), ("rng", TGenerator())])]


def in_batch(a, pid):
    if a.batch_plate_ids is None:
        return z3.BoolVal(False)
    j = z3.Int("j!ib")
    B = a.batch_plate_ids.seq
    return z3.Exists([j], z3.And(j >= 0, j < B.length, z3.Select(B.cols, j) == pid))


def cand_row(a, r):
    """row r belongs to an unobserved plate that is not in the batch"""
    return z3.And(z3.Not(z3.Select(G(a.screen, "_observation_mask").data, r)), z3.Not(in_batch(a, z3.Select(G(a.screen, "_plate_ids").data, r))))


def _all_candidates_scored(a):
    r, k = z3.Int("r!acs"), z3.Int("k!acs")
    n = nrows(a.screen)
    return z3.ForAll([r], z3.Implies(z3.And(r >= 0, r < n, cand_row(a, r)),
                                     z3.Exists([k], z3.And(k >= 0, k < F(a.scores, "scores").shape[0],
                                                           z3.Select(F(a.scores, "plate_ids").data, k) == z3.Select(G(a.screen, "_plate_ids").data, r)))),
                     patterns=[z3.Select(G(a.screen, "_plate_ids").data, r)])


sn.requires(lambda a: screen_shape_wf(a.screen) + plate_consistency(a.screen) + csh_full(a.scores) + [("every_candidate_plate_has_a_score", _all_candidates_scored(a))])


def _loc(st, name):
    from pyvc.spec import BindError
    fr = getattr(st, "_cur_frame", None)
    if fr is None or name not in fr.locals:
        raise BindError("local variable %r not bound in current source" % name)
    return fr.locals[name]


def _sn_post(a, ret, st):
    n = nrows(a.screen)
    r, k, k2, j, q = z3.Int("r!snp"), z3.Int("k!snp"), z3.Int("k2!snp"), z3.Int("j!snp"), z3.Int("q!snp")
    pids = G(a.screen, "_plate_ids").data
    sc, spid = F(a.scores, "scores").data, F(a.scores, "plate_ids").data
    m = F(a.scores, "scores").shape[0]
    U = _loc(st, "unobserved_plates_not_already_selected").seq  # sorted list of candidate plate tokens
    elig_list = _loc(st, "eligible_plates")
    inr = lambda t: z3.And(t >= 0, t < n)  # noqa
    # stepping stones (each is proved, then available to the next)
    stones = [
        ("candidates_are_unobserved_not_in_batch", z3.ForAll([j], z3.Implies(z3.And(j >= 0, j < U.length), z3.And(
            z3.Not(pobs_fn(z3.Select(U.cols, j))), z3.Not(in_batch(a, pid_fn(z3.Select(U.cols, j)))), __import__("contracts.c14", fromlist=["x"]).is_plate_view(z3.Select(U.cols, j)),
            same_obj_term(G(AObj("Plate", z3.Select(U.cols, j)), "screen"), a.screen))), patterns=[z3.Select(U.cols, j)])),
        ("every_candidate_row_is_in_a_listed_plate", Forall([("r!snc", Int)], lambda rr: z3.Implies(z3.And(inr(rr), cand_row(a, rr)), z3.Exists([j], z3.And(
            j >= 0, j < U.length, z3.Select(G(AObj("Plate", z3.Select(U.cols, j)), "selection_vector").data, rr)))), patterns=lambda rr: [z3.Select(pids, rr)],
            hints=lambda r0: [z3.Select(pids, r0), z3.Select(G(a.screen, "_observation_mask").data, r0)],
            without=([elig_list.seq.cols] if (a.policy is not None and hasattr(elig_list, "seq")) else []) + [sc, spid])),
    ]
    if elig_list is None or (hasattr(elig_list, "seq") and False):
        pass
    E = elig_list.seq
    if a.policy is None:
        allowed_tok = lambda t: z3.Exists([j], z3.And(j >= 0, j < U.length, z3.Select(U.cols, j) == t))  # noqa
    else:
        allowed_tok = lambda t: z3.Exists([j], z3.And(j >= 0, j < E.length, z3.Select(E.cols, j) == t))  # noqa
    none_iff = (U.length == 0) if a.policy is None else (E.length == 0)
    if ret is None:
        return stones + [("nothing_only_if_no_plate_allowed", none_iff),
                         ("no_candidate_row_then", z3.Implies(bool_(a.policy is None), z3.Not(z3.Exists([r], z3.And(inr(r), cand_row(a, r))))))]
    w_ = st.ctx.ghost.get("argmin_witness")
    best = w_["ret"] if w_ else _loc(st, "best_plate_id")  # the id returned by plate_id_with_minimum_score (independent of the local's name)
    sel = ret.fields["selection_vector"]
    return stones + [
        ("something_only_if_some_plate_allowed", z3.Not(none_iff)),
        ("chosen_is_an_allowed_plate", (lambda w: z3.And(w["j"] >= 0, w["j"] < E.length, pid_fn(z3.Select(E.cols, w["j"])) == best, allowed_tok(z3.Select(E.cols, w["j"])))
                                        if w and w.get("j") is not None else z3.BoolVal(False))(st.ctx.ghost.get("argmin_witness"))),
        ("returned_view_is_that_plate", z3.And(sel.shape[0] == n, z3.ForAll([r], z3.Implies(inr(r), z3.Select(sel.data, r) == (z3.Select(pids, r) == best)),
                                                                              patterns=[z3.Select(sel.data, r)]))),
        ("allowed_is_subset_of_candidates", z3.ForAll([j], z3.Implies(z3.And(j >= 0, j < E.length), z3.Exists([q], z3.And(
            q >= 0, q < U.length, z3.Select(U.cols, q) == z3.Select(E.cols, j)))), patterns=[z3.Select(E.cols, j)])),
        ("chosen_plate_token_is_an_unobserved_non_batch_single_plate_view", Focus((lambda w: (lambda T: z3.And(
            z3.Not(pobs_fn(T)), z3.Not(in_batch(a, pid_fn(T))), __import__("contracts.c14", fromlist=["x"]).is_plate_view(T), pid_fn(T) == best,
            same_obj_term(G(AObj("Plate", T), "screen"), a.screen)))(z3.Select(E.cols, w["j"])) if w and w.get("j") is not None else z3.BoolVal(False))(st.ctx.ghost.get("argmin_witness")),
            [t_ for t_ in _listing_terms(st)[3:]] + [sc, spid])),  # keep the filter mask (the list length is rank(mask, n)), drop the sort permutation arrays
        ("unobserved_and_not_in_batch", Forall([("r!snq", Int)], lambda rr: z3.Implies(z3.And(inr(rr), z3.Select(sel.data, rr)), cand_row(a, rr)),
                                               patterns=lambda rr: [z3.Select(sel.data, rr)],
                                               hints=lambda r0: [z3.Select(sel.data, r0), z3.Select(pids, r0), z3.Select(G(a.screen, "_observation_mask").data, r0)],
                                               without=_listing_terms(st) + [sc, spid])),
        ("no_allowed_plate_scores_lower", z3.Exists([k], z3.And(k >= 0, k < m, z3.Select(spid, k) == best, z3.ForAll([k2, j], z3.Implies(
            z3.And(k2 >= 0, k2 < m, j >= 0, j < E.length, z3.Select(spid, k2) == pid_fn(z3.Select(E.cols, j))), z3.Select(sc, k2) >= z3.Select(sc, k)))))),
    ]


def same_obj_term(x, y):
    return x.term == y.term


def _listing_terms(st):
    """arrays that only describe HOW the candidate list was built (filter mask, sort permutation, ...): clauses that are about the chosen
    plate leave the hypotheses mentioning them out of their VC"""
    g = st.ctx.ghost
    out = []
    Fl = g.get("c06_filtered")
    if Fl is not None and hasattr(Fl, "filter_of"):
        out += [Fl.filter_of[0], Fl.filter_of[2], Fl.seq.cols]
    U = None
    try:
        U = _loc(st, "unobserved_plates_not_already_selected")
    except Exception:
        pass
    if U is not None and hasattr(U, "sorted_of"):
        out += [U.sorted_of[0], U.sorted_of[1], U.sorted_of[2]]
    return out


# ghost lemmas at the point where the candidate list is built: what the sorted, filtered list of plates is, relative to the list of all
# plates it was filtered from (proved in the small context of that statement, then used by the post-condition clauses)
from pyvc.lib.arrays import rank as _rank, idx as _idx


def _stash_filtered(v):
    v.ghost["c06_filtered"] = v.unobserved_plates_not_already_selected  # the comprehension result (before sorting)
    return []


def _listing_lemmas(v):
    U = v.unobserved_plates_not_already_selected
    Fl = v.ghost.get("c06_filtered")
    if Fl is None or not hasattr(Fl, "filter_of") or not hasattr(U, "sorted_of"):
        return [("candidate_list_is_a_sorted_filter_of_the_plates", z3.BoolVal(False))]
    M, L0, allk = Fl.filter_of
    src, perm, inv, L = U.sorted_of
    j = z3.Int("j!ll6")
    k = z3.Int("k!ll6")
    Us = U.seq
    # explicit witness terms (no existential skolems: two mutually triggering exists-lemmas would loop in E-matching)
    src_k = lambda jj: _idx(M, L0, z3.Select(perm, jj))  # noqa  position in the unfiltered list of the jj-th listed plate
    pos_j = lambda kk: z3.Select(inv, _rank(M, kk))  # noqa  position in the sorted list of the kk-th plate (when it passes the filter)
    v.ghost["c06_listing"] = (M, L0, allk, src_k, pos_j)
    return [("every_listed_plate_passed_the_filter", Forall(
                [("j!l6a", Int)], lambda jj: z3.Implies(z3.And(jj >= 0, jj < Us.length), z3.And(src_k(jj) >= 0, src_k(jj) < L0, z3.Select(M, src_k(jj)),
                                                                                              z3.Select(Us.cols, jj) == z3.Select(allk, src_k(jj)))),
                patterns=lambda jj: [z3.Select(Us.cols, jj)],
                hints=lambda j0: [z3.Select(Us.cols, j0), z3.Select(perm, j0), z3.Select(src, z3.Select(perm, j0)), z3.Select(Fl.seq.cols, z3.Select(perm, j0)),
                                  _idx(M, L0, z3.Select(perm, j0)), z3.Select(allk, _idx(M, L0, z3.Select(perm, j0)))])),
            ("every_plate_that_passes_the_filter_is_listed", Forall(
                [("k!l6b", Int)], lambda kk: z3.Implies(z3.And(kk >= 0, kk < L0, z3.Select(M, kk)), z3.And(pos_j(kk) >= 0, pos_j(kk) < Us.length,
                                                                                                       z3.Select(Us.cols, pos_j(kk)) == z3.Select(allk, kk))),
                patterns=lambda kk: [z3.Select(M, kk)],
                hints=lambda k0: [z3.Select(M, k0), z3.Select(allk, k0), z3.Select(Fl.seq.cols, _rank(M, k0)), z3.Select(src, _rank(M, k0)), z3.Select(inv, _rank(M, k0)),
                                  z3.Select(Us.cols, z3.Select(inv, _rank(M, k0)))]))]


sn.after("unobserved_plates_not_already_selected", _stash_filtered, ordinal=0)
sn.after("unobserved_plates_not_already_selected", _listing_lemmas, ordinal=1)
sn.ensures("selection", _sn_post)


# ================================================================ ChunkedScoresHolder.concat: every (plate, score) pair of every chunk table exactly once, in order
# (list length CONCRETE per variant: 1, 2, 3 chunk tables; the tables' contents and lengths are symbolic)
from pyvc.spec import TPyList


def _pairs_concat(res_ids, res_sc, parts):
    """res = parts[0] ++ parts[1] ++ ... (plate ids and scores alike)"""
    k = z3.Int("k!pc")
    out = []
    off = z3.IntVal(0)
    for (ids, sc) in parts:
        n = ids.shape[0]
        out.append(z3.ForAll([k], z3.Implies(z3.And(k >= 0, k < n), z3.And(z3.Select(res_ids.data, off + k) == z3.Select(ids.data, k),
                                                                        z3.Select(res_sc.data, off + k) == z3.Select(sc.data, k))), patterns=[z3.Select(ids.data, k)]))
        off = off + n
    out.append(z3.And(res_ids.shape[0] == off, res_sc.shape[0] == off))
    return z3.And(*out)


cct = contract(CSH + ".concat", params=[("cls", TClass(CSH)), ("scores_list", TPyList(T_csh))])
cct.variants = [("chunks%d" % n, [("cls", TClass(CSH)), ("scores_list", TPyList(*[T_csh for _ in range(n)]))]) for n in (1, 2, 3)]
cct.requires(lambda a: [f for h in a.scores_list.items for f in csh_full(h)])
cct.ensures("every_pair_of_every_table_once_in_order", lambda a, ret, st: _pairs_concat(
    ret.fields["plate_ids"], ret.fields["scores"], [(h.plate_ids, h.scores) for h in a.old.scores_list]))  # entry snapshot of the list = tuple of field snapshots


# ================================================================ score_chunk (no plates selected in the batch yet): the chunk is section `chunk_index` of
# the sorted list of unobserved plates, and the returned table holds exactly one score per plate of that section
from pyvc.lib.maps import SymMap
from pyvc.lib.comp import split_bounds

abstract_class("Scorer", "batchie.core.Scorer", {})
scr_abs = contract("batchie.core.Scorer.score", abstract=True)
scr_abs.trusted = True
scr_abs.note = "abstract Scorer contract: returns exactly one score per plate it was given (same key set); the values are arbitrary"


def _scorer_apply(i, a, node, fr):
    plates = a.plates
    if not isinstance(plates, SymMap) or not plates.ready:
        raise i_unsupported("Scorer.score on %r" % (plates,), node)
    ctx = i.ctx
    ks = plates.dom.sort().domain()
    m = SymMap()
    m.val = ctx.fresh("score_of", z3.ArraySort(ks, Real))
    m.dom = ctx.fresh("scored", z3.ArraySort(ks, Bool))
    m.pos = ctx.fresh("score_pos", z3.ArraySort(ks, Int))
    m.keys = Seq(plates.keys.length, ctx.fresh("scored_keys", z3.ArraySort(Int, ks)))
    m.ready = True
    for f in m.wf():
        ctx.assume(f)
    k = z3.Const("k!sa", ks)
    ctx.assume(z3.ForAll([k], z3.Select(m.dom, k) == z3.Select(plates.dom, k), patterns=[z3.Select(m.dom, k), z3.Select(plates.dom, k)]))
    ctx.ghost["scorer_call"] = dict(plates=plates, scores=m)
    return m


def i_unsupported(msg, node):
    from pyvc.values import Unsupported
    return Unsupported(msg, node)


scr_abs.apply = _scorer_apply

SCK = "batchie.scoring.main.score_chunk"
sk = contract(SCK, params=[("scorer", TAObj("Scorer")), ("thetas", TAObj("ThetaHolderTok")), ("screen", TAObj("Screen")), ("distance_matrix", TAObj("DistTok")),
                           ("rng", TGenerator()), ("progress_bar", TBool), ("n_chunks", TInt), ("chunk_index", TInt), ("batch_plate_ids", TNone)])
sk.variants = [("no_batch", sk.params), ("with_batch", sk.params[:-1] + [("batch_plate_ids", TSeq(TInt))])]
sk.raises("ValueError", lambda a: bool_(a.batch_plate_ids is not None), iff=False)  # batch branch: concat of no plates / foreign views refuse
sk.requires(lambda a: screen_shape_wf(a.screen) + plate_consistency(a.screen) + [a.n_chunks >= 1, a.chunk_index >= 0, a.chunk_index < a.n_chunks])


def _sk_post(a, ret, st):
    g = st.ctx.ghost
    call = g.get("scorer_call")
    U = _loc(st, "unobserved_plates").seq
    chunk = _loc(st, "chunk_plates")
    if call is None or not hasattr(chunk, "section_of"):
        return [("scores_the_section_through_the_scorer", z3.BoolVal(False))]
    base, lo, hi = chunk.section_of
    elo, ehi = split_bounds(U.length, a.n_chunks, a.chunk_index)
    n = hi - lo
    hp, hs = F(ret, "plate_ids"), F(ret, "scores")
    sm = call["scores"]
    k, j = z3.Int("k!skp"), z3.Int("j!skp")
    nrw = nrows(a.screen)
    pids_ = G(a.screen, "_plate_ids").data
    jj_ = z3.Int("j!skc")
    return [("listed_plates_are_unobserved_and_not_in_the_batch", z3.ForAll([jj_], z3.Implies(z3.And(jj_ >= 0, jj_ < U.length), z3.And(
                z3.Not(pobs_fn(z3.Select(U.cols, jj_))), z3.Not(in_batch(a, pid_fn(z3.Select(U.cols, jj_)))), __import__("contracts.c14", fromlist=["x"]).is_plate_view(z3.Select(U.cols, jj_)),
                same_obj_term(G(AObj("Plate", z3.Select(U.cols, jj_)), "screen"), a.screen))), patterns=[z3.Select(U.cols, jj_)])),
            ("every_unobserved_non_batch_row_is_in_a_listed_plate", Forall([("r!skc", Int)], lambda rr: z3.Implies(z3.And(rr >= 0, rr < nrw, cand_row(a, rr)), z3.Exists([jj_], z3.And(
                jj_ >= 0, jj_ < U.length, z3.Select(G(AObj("Plate", z3.Select(U.cols, jj_)), "selection_vector").data, rr)))), patterns=lambda rr: [z3.Select(pids_, rr)],
                hints=lambda r0: [z3.Select(pids_, r0), z3.Select(G(a.screen, "_observation_mask").data, r0)])),
            ("listed_plates_have_strictly_increasing_ids", z3.ForAll([jj_, k], z3.Implies(z3.And(jj_ >= 0, jj_ < k, k < U.length), pid_fn(z3.Select(U.cols, jj_)) < pid_fn(z3.Select(U.cols, k))),
                                                                     patterns=[z3.MultiPattern(z3.Select(U.cols, jj_), z3.Select(U.cols, k))])),
            ("chunk_is_its_section_of_the_sorted_unobserved_plates", z3.And(bool_(base is U or base.cols.eq(U.cols)), lo == elo, hi == ehi)),
            ("table_is_full_with_one_row_per_plate_of_the_section", z3.And(*csh_full(ret), hp.shape[0] == n)),
            ("every_plate_of_the_section_has_a_row", Forall([("k!skq", Int)], lambda kk: z3.Implies(z3.And(kk >= lo, kk < hi), z3.Exists([j], z3.And(
                j >= 0, j < n, z3.Select(hp.data, j) == pid_fn(z3.Select(U.cols, kk))))),
                hints=lambda k0: [z3.Select(U.cols, k0), pid_fn(z3.Select(U.cols, k0)), z3.Select(chunk.seq.cols, k0 - lo), z3.Select(call["plates"].keys.cols, k0 - lo),
                                  z3.Select(call["plates"].dom, pid_fn(z3.Select(U.cols, k0))), z3.Select(sm.dom, pid_fn(z3.Select(U.cols, k0))),
                                  z3.Select(sm.pos, pid_fn(z3.Select(U.cols, k0))), z3.Select(hp.data, z3.Select(sm.pos, pid_fn(z3.Select(U.cols, k0))))])),
            ("every_row_is_a_plate_of_the_section_with_the_scorers_value", z3.ForAll([j], z3.Implies(z3.And(j >= 0, j < n), z3.And(
                z3.Exists([k], z3.And(k >= lo, k < hi, z3.Select(hp.data, j) == pid_fn(z3.Select(U.cols, k)))),
                z3.Select(hs.data, j) == z3.Select(sm.val, z3.Select(hp.data, j)))), patterns=[z3.Select(hp.data, j)]))]


def _sk_inv(v):
    h = v.scores_holder
    sm = v.scores  # the scorer's result (SymMap)
    j = z3.Int("j!ski")
    hp, hs = F(h, "plate_ids"), F(h, "scores")
    return [("table_wf", z3.And(*csh_wf(h))), ("capacity", z3.And(hp.shape[0] == sm.keys.length, F(h, "size") == sm.keys.length)),
            ("filled_so_far", F(h, "current_index") == v.it),
            ("rows_so_far", z3.ForAll([j], z3.Implies(z3.And(j >= 0, j < v.it), z3.And(
                z3.Select(hp.data, j) == z3.Select(sm.keys.cols, j), z3.Select(hs.data, j) == z3.Select(sm.val, z3.Select(sm.keys.cols, j)))),
                patterns=[z3.Select(hp.data, j)]))]


def _sk_inv0(v):
    """building the dictionary of conditioned views: after `it` plates the keys are the ids of the first `it` plates of the chunk, in order"""
    m = v.plates_to_score
    ch = v.chunk_plates.seq
    j = z3.Int("j!sk0")
    return [("one_key_per_plate_so_far", m.keys.length == v.it),
            ("keys_are_the_plate_ids_in_order", z3.ForAll([j], z3.Implies(z3.And(j >= 0, j < v.it), z3.Select(m.keys.cols, j) == pid_fn(z3.Select(ch.cols, j))),
                                                         patterns=[z3.Select(m.keys.cols, j)]))]


sk.loop("for#0", invariant=_sk_inv0, types={"plates_to_score": (Int, Ref)})
sk.loop("for#1", invariant=_sk_inv)
sk.ensures("chunk", _sk_post)


# ================================================================ the two command lines: the CALL plumbing (regions of the mains)
# What is checked: the statement that calls score_chunk / select_next_plate hands over exactly the loaded objects, the generator seeded from
# --seed and the command line's chunk / batch arguments.  (Loading, argparse and writing the result are outside these regions.)
import ast as _ast3
abstract_class("ScoreCliArgs", None, {"progress": TBool, "n_chunks": TInt, "chunk_index": TInt, "batch_plate_ids": TSeq(TInt)})
abstract_class("SelectCliArgs", None, {"batch_plate_id": TSeq(TInt)})


def _record(name, keep_contract):
    def apply(i, a, node, fr):
        if i._cur_label.split("[")[0].endswith("@call"):
            i.ctx.ghost["cli_call"] = (name, a)
            return AObj("ChunkedScoresHolder" if name == "score_chunk" else "Plate", i.ctx.fresh("cli_result", Ref))
        return NotImplemented
    return apply


sk.apply = _record("score_chunk", sk)
sn.apply = _record("select_next_plate", sn)


def _calls(fname):
    return lambda st: isinstance(st, _ast3.Assign) and isinstance(st.value, _ast3.Call) and getattr(st.value.func, "id", None) == fname


cs1 = contract("batchie.cli.calculate_scores.main@call", params=[("scorer", TAObj("Scorer")), ("thetas", TAObj("ThetaHolderTok")), ("screen", TAObj("Screen")),
                                                                 ("distance_matrix", TAObj("DistTok")), ("rng", TGenerator()), ("args", TAObj("ScoreCliArgs"))])
cs1.region = (_calls("score_chunk"), _calls("score_chunk"))


def _same(x, y):
    return bool_(x is y or (hasattr(x, "term") and hasattr(y, "term") and x.term.eq(y.term)))


def _cs1_post(a, ret, st):
    rec = st.ctx.ghost.get("cli_call")
    if rec is None or rec[0] != "score_chunk":
        return [("calls_score_chunk", z3.BoolVal(False))]
    c = rec[1]
    from pyvc.spec import abstract_field_value, ABSTRACT_FIELDS
    fld = lambda f: abstract_field_value("ScoreCliArgs", f, ABSTRACT_FIELDS["ScoreCliArgs"][f], a.args.term, st)  # noqa
    bp = fld("batch_plate_ids")
    return [("hands_over_the_loaded_objects", z3.And(_same(c.scorer, a.scorer), _same(c.thetas, a.thetas), _same(c.screen, a.screen), _same(c.distance_matrix, a.distance_matrix))),
            ("hands_over_the_seeded_generator", bool_(c.rng is a.rng)),
            ("hands_over_the_chunk_arguments_unchanged", z3.And(c.n_chunks == fld("n_chunks"), c.chunk_index == fld("chunk_index"))),
            ("hands_over_the_batch_unchanged", bool_(hasattr(c.batch_plate_ids, "seq") and c.batch_plate_ids.seq.cols.eq(bp.seq.cols) and c.batch_plate_ids.seq.length.eq(bp.seq.length)))]


cs1.ensures("plumbing", _cs1_post)

cs2 = contract("batchie.cli.select_next_plate.main@call", params=[("screen", TAObj("Screen")), ("scores", T_csh), ("policy", TAObj("PlatePolicy")), ("rng", TGenerator()),
                                                                  ("args", TAObj("SelectCliArgs"))])
cs2.region = (_calls("select_next_plate"), _calls("select_next_plate"))


def _cs2_post(a, ret, st):
    rec = st.ctx.ghost.get("cli_call")
    if rec is None or rec[0] != "select_next_plate":
        return [("calls_select_next_plate", z3.BoolVal(False))]
    c = rec[1]
    from pyvc.spec import abstract_field_value, ABSTRACT_FIELDS
    bp = abstract_field_value("SelectCliArgs", "batch_plate_id", ABSTRACT_FIELDS["SelectCliArgs"]["batch_plate_id"], a.args.term, st)
    return [("hands_over_the_loaded_screen_scores_and_policy", z3.And(_same(c.screen, a.screen), bool_(c.scores is a.scores), _same(c.policy, a.policy))),
            ("hands_over_the_seeded_generator", bool_(c.rng is a.rng)),
            ("hands_over_the_batch_unchanged", bool_(hasattr(c.batch_plate_ids, "seq") and c.batch_plate_ids.seq.cols.eq(bp.seq.cols) and c.batch_plate_ids.seq.length.eq(bp.seq.length)))]


cs2.ensures("plumbing", _cs2_post)
