"""C02 — Screen / ExperimentSpace persistence is lossless (over the assumed h5py / np.char contracts)."""
import z3
from pyvc.spec import contract, TObj, TAObj, TTuple, TStr, TInt, TBool, TSeq, TRef, TNone, TClass, NS, Forall
from pyvc.values import Int, Bool, Real, Str, Val, Obj, AObj
from pyvc.lib.arrays import TArr, Arr
from pyvc.lib import h5 as H5
from .screen import *  # noqa

FILE_KEYS_1D = {"treatment_mapping_names": ("_treatment_mapping", 0), "treatment_mapping_doses": ("_treatment_mapping", 1),
                "treatment_mapping_ids": ("_treatment_mapping", 2), "observations": "_observations", "observation_mask": "_observation_mask",
                "sample_ids": "_sample_ids", "sample_names": "_sample_names", "sample_mapping_names": ("_sample_mapping", 0),
                "sample_mapping_ids": ("_sample_mapping", 1), "plate_ids": "_plate_ids", "plate_names": "plate_names"}
FILE_KEYS_2D = {"treatment_names": "_treatment_names", "treatment_doses": "_treatment_doses", "treatment_ids": "_treatment_ids"}


def field_of(s, spec):
    if isinstance(spec, tuple):
        return G(s, spec[0])[spec[1]]
    return G(s, spec)


def file_holds_screen(f, s):
    out = []
    for k, spec in list(FILE_KEYS_1D.items()) + list(FILE_KEYS_2D.items()):
        if k not in f.datasets:
            return [("dataset_%s_written" % k, z3.BoolVal(False))]
        out.append((k, same_array(f.datasets[k], field_of(s, spec))))
    if "control_treatment_name" not in f.attrs.items:
        return [("attr_written", z3.BoolVal(False))]
    out.append(("control_name", f.attrs.items["control_treatment_name"] == G(s, "control_treatment_name")))
    return out


sv = contract(SCREEN + ".save_h5", params=[("self", T_screen(2)), ("fn", TStr)])
sv.variants = [("arity%d" % k, [("self", T_screen(k)), ("fn", TStr)]) for k in (1, 2, 3)]
sv.inline = True  # straight-line body: executed at call sites
sv.requires(lambda a: screen_wf(a.self))
sv.ensures("file", lambda a, ret, st: file_holds_screen(H5.store(st)[H5.fkey(a.fn)], a.self))

# ---- scenario: save then load
rt = contract("scenarios.c02.screen_roundtrip", params=[("s", T_screen(2)), ("fn", TStr)])
rt.variants = [("arity%d" % k, [("s", T_screen(k)), ("fn", TStr)]) for k in (1, 2, 3)]
rt.requires(lambda a: screen_wf(a.s))


def observably_equal(t, s):
    out = []
    for f in ROW_FIELDS_1D + ROW_FIELDS_2D:
        out.append((f, same_array(G(t, f), G(s, f))))
    for nm, k in (("_sample_mapping", 2), ("_treatment_mapping", 3)):
        for j in range(k):
            out.append(("%s_%d" % (nm, j), same_array(G(t, nm)[j], G(s, nm)[j])))
    out.append(("control_name", G(t, "control_treatment_name") == G(s, "control_treatment_name")))
    return out


rt.ensures("lossless", lambda a, ret, st: observably_equal(ret, a.s) + [("well_formed", z3.And(*screen_wf(ret)))])

# ---- ExperimentSpace round trip
ES = "batchie.data.ExperimentSpace"
T_space = TObj(ES, fields={"treatment_mapping": TTuple(TArr(Str), TArr(Real), TArr(Int)), "sample_mapping": TTuple(TArr(Str), TArr(Int)),
                           "control_treatment_name": TStr})
rs = contract("scenarios.c02.space_roundtrip", params=[("e", T_space), ("fn", TStr)])
rs.ensures("lossless", lambda a, ret, st: [
    ("treatment_mapping_%d" % j, same_array(ret.fields["treatment_mapping"][j], a.e.treatment_mapping[j])) for j in range(3)] + [
    ("sample_mapping_%d" % j, same_array(ret.fields["sample_mapping"][j], a.e.sample_mapping[j])) for j in range(2)] + [
    ("control_name", ret.fields["control_treatment_name"] == a.e.control_treatment_name)])
