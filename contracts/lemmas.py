"""Mathematical lemmas used (by explicit instantiation) in VCs.

Each Lemma names its proof: 'lean:<theorem>' (compiled from /verif/lean/*.lean against Mathlib on every
run; statement in the Lean file is the universally quantified form of `inst`) or 'smt' (proved by the
obligations returned from lemma_obligations()).  `inst(*terms)` returns the instance as a z3 formula.
"""
import z3
from pyvc.spec import Lemma
from pyvc.values import Int
from pyvc.lib.misc import C

Implies, And = z3.Implies, z3.And

pascal = Lemma(
    "pascal", lambda n, k: Implies(And(n >= 1, k >= 1), C(n, k) == C(n - 1, k) + C(n - 1, k - 1)),
    "lean:Batchie.pascal", "n>=1 & k>=1 -> C(n,k) = C(n-1,k) + C(n-1,k-1)")
absorb = Lemma(
    "absorb", lambda n, k: Implies(And(n >= 1, k >= 1), C(n, k) * k == n * C(n - 1, k - 1)),
    "lean:Batchie.absorb", "n>=1 & k>=1 -> C(n,k)*k = n*C(n-1,k-1)")
succ_right = Lemma(
    "succ_right", lambda n, k: Implies(And(k >= 0, k <= n), C(n, k + 1) * (k + 1) == C(n, k) * (n - k)),
    "lean:Batchie.succ_right", "0<=k<=n -> C(n,k+1)*(k+1) = C(n,k)*(n-k)")
mul_succ = Lemma(
    "mul_succ", lambda m, j: Implies(And(j >= 0, m >= 0, j <= m + 1), C(m, j) * (m + 1) == C(m + 1, j) * (m + 1 - j)),
    "lean:Batchie.mul_succ", "0<=j<=m+1 -> C(m,j)*(m+1) = C(m+1,j)*(m+1-j)")
C_zero = Lemma(
    "C_zero", lambda n, k: Implies(And(n >= 0, k > n), C(n, k) == 0),
    "lean:Batchie.choose_zero", "0<=n<k -> C(n,k) = 0")
C_pos = Lemma(
    "C_pos", lambda n, k: Implies(And(k >= 0, k <= n), C(n, k) >= 1),
    "lean:Batchie.choose_pos", "0<=k<=n -> C(n,k) >= 1")
C_n0 = Lemma(
    "C_n0", lambda n: Implies(n >= 0, C(n, 0) == 1),
    "lean:Batchie.choose_n0", "n>=0 -> C(n,0) = 1")
C_nonneg = Lemma(
    "C_nonneg", lambda n, k: Implies(And(n >= 0, k >= 0), C(n, k) >= 0),
    "lean:Batchie.choose_nonneg", "C(n,k) >= 0")
div_exact = Lemma(
    "div_exact", lambda a, b: Implies(b > 0, (b * a) / b == a),
    "lean:Batchie.div_exact", "b>0 -> (b*a) div b = a   (integer division)")
div_eq = Lemma(
    "div_eq", lambda x, b, y: Implies(And(b > 0, x == b * y), x / b == y),
    "lean:Batchie.div_eq", "b>0 & x = b*y -> x div b = y")

from pyvc.lib.arrays import rank as _rank


def _scatter_count(m, n, ix, k):
    j, j2, p = z3.Int("j!scn"), z3.Int("j2!scn"), z3.Int("p!scn")
    return Implies(And(k >= 0,
                       z3.ForAll([j], Implies(And(j >= 0, j < k), And(z3.Select(ix, j) >= 0, z3.Select(ix, j) < n))),
                       z3.ForAll([j, j2], Implies(And(j >= 0, j < j2, j2 < k), z3.Select(ix, j) != z3.Select(ix, j2))),
                       z3.ForAll([p], Implies(And(p >= 0, p < n), z3.Select(m, p) == z3.Exists([j], And(j >= 0, j < k, z3.Select(ix, j) == p))))),
                   _rank(m, n) == k)


scatter_count = Lemma("scatter_count", _scatter_count, "lean:Batchie.scatter_count",
                      "k pairwise distinct positions ix[0..k) below n, m[p] <=> p is one of them  ->  rank(m,n) = k   "
                      "(rank(m,n) read as the cardinality of {p<n | m[p]})")


def _rank_complement(m, inv, n):
    k = z3.Int("k!rcp")
    return Implies(And(n >= 0, z3.ForAll([k], Implies(And(k >= 0, k < n), z3.Select(inv, k) == z3.Not(z3.Select(m, k))))),
                   _rank(inv, n) + _rank(m, n) == n)


rank_complement = Lemma("rank_complement", _rank_complement, "lean:Batchie.rank_complement",
                        "inv is the pointwise complement of m on [0,n)  ->  rank(inv,n) + rank(m,n) = n   (card of a filter and of its complement)")


def _rank_none(m, n):
    k = z3.Int("k!rn")
    return And(Implies(And(n >= 0, z3.ForAll([k], Implies(And(k >= 0, k < n), z3.Not(z3.Select(m, k))))), _rank(m, n) == 0),
               Implies(And(n >= 0, z3.ForAll([k], Implies(And(k >= 0, k < n), z3.Select(m, k)))), _rank(m, n) == n))


rank_none = Lemma("rank_none_or_all", _rank_none, "lean:Batchie.rank_none_or_all",
                  "no True below n -> rank(m,n) = 0 ; all True below n -> rank(m,n) = n")
