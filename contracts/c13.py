"""C13 — shape guarantees of generated / smoothed / initial plates.  Deductive part: the combination filter."""
import z3
from pyvc.spec import contract, TObj, TAObj, TInt, TBool, TSeq, NS, Forall, Using
from pyvc.values import Int, Bool
from pyvc.lib.arrays import TArr, Arr
from .screen import *  # noqa

CF = "batchie.data.filter_dataset_to_treatments_that_appear_in_at_least_one_combo"
cf = contract(CF, params=[("screen", T_screen(2))])
cf.variants = [("arity%d" % k, [("screen", T_screen(k))]) for k in (1, 2, 3)]
cf.requires(lambda a: screen_wf(a.screen))
cf.raises("ValueError", lambda a: bool_(arity(a.screen) < 2))
cf.raises("ValueError", lambda a: z3.BoolVal(True), iff=False)  # the materialising constructor may reject (never for a well-formed screen: not claimed)


def in_combo(a, t):
    """treatment id t occurs in some row without any control"""
    r = z3.Int("r!ic")
    n, ar = nrows(a.screen), arity(a.screen)
    tid = G(a.screen, "_treatment_ids")
    return z3.Exists([r], z3.And(r >= 0, r < n, z3.And(*[tid.at(r, c) != -1 for c in range(ar)]), z3.Or(*[tid.at(r, c) == t for c in range(ar)])))


def _cf_post(a, ret, st):
    n, ar = nrows(a.screen), arity(a.screen)
    tid = G(a.screen, "_treatment_ids")
    sel = st._cur_frame.locals.get("screen_selection_vector")
    r = z3.Int("r!cfp")
    keep = lambda rr: z3.And(*[z3.Or(tid.at(rr, c) == -1, in_combo(a, tid.at(rr, c))) for c in range(ar)])  # noqa
    U = st._cur_frame.locals.get("treatments_to_select")
    mask = st._cur_frame.locals.get("treatment_selection_vector")
    m = U.shape[0]
    full = lambda rr: z3.And(*[tid.at(rr, c) != -1 for c in range(ar)])  # noqa
    p = z3.Int("p!cfq")
    other = [G(a.screen, f).data for f in ("_sample_ids", "_plate_ids", "_observations", "_observation_mask", "_sample_names", "plate_names",
                                           "_treatment_names", "_treatment_doses")]
    for mp in ("_treatment_mapping", "_sample_mapping", "_plate_mapping"):
        other += [x.data for x in G(a.screen, mp)]
    return [("selection_length", sel.shape[0] == n),
            # stepping stones (proved, then assumed): the two halves of  set(U) == { t : in_combo(t) }
            ("step:mask_is_full_combination", Forall(
                [("r!cfm", Int)], lambda rr: z3.Implies(z3.And(rr >= 0, rr < n), z3.Select(mask.data, rr) == full(rr)),
                patterns=lambda rr: [z3.Select(mask.data, rr)], hints=lambda r0: [z3.Select(mask.data, r0), z3.Select(tid.data, r0)], without=other)),
            # NOT PROVED (bounded stand-in native/c13.py::combo_filter): the membership chain
            #   sel[r] <=> every treatment of row r is the control or occurs in unique(flatten(tid[mask]))
            # needs nested existential witnesses through isin/concatenate/unique/flatten(div,mod)/mask-gather; with stepping stones
            # the three clauses discharge in some runs (0.5 s .. 40 s) and go `unknown` in others, i.e. they are unstable under
            # every solver schedule tried - an unstable obligation would be a false alarm waiting to happen, so it is not registered.
            ("result_is_that_selection", z3.And(*[selected(G(ret, f), G(a.screen, f), sel, n) for f in ("_sample_names", "_observations", "plate_names", "_treatment_names")]))]


cf.ensures("filter", _cf_post)
