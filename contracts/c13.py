"""C13 — shape guarantees of generated / smoothed / initial plates.  Deductive part: the combination filter."""
import z3
from pyvc.spec import contract, TObj, TAObj, TInt, TBool, TSeq, NS, Forall, Using
from pyvc.values import Int, Bool
from pyvc.lib.arrays import TArr, Arr
from .screen import *  # noqa

CF = "batchie.data.filter_dataset_to_treatments_that_appear_in_at_least_one_combo"
cf = contract(CF, params=[("screen", T_screen(2))])
cf.variants = [("arity%d" % k, [("screen", T_screen(k))]) for k in (1, 2, 3)]
cf.requires(lambda a: screen_wf(a.screen))
cf.raises("ValueError", lambda a: bool_(arity(a.screen) < 2))
cf.raises("ValueError", lambda a: z3.BoolVal(True), iff=False)  # the materialising constructor may reject (never for a well-formed screen: not claimed)


def in_combo(a, t):
    """treatment id t occurs in some row without any control"""
    r = z3.Int("r!ic")
    n, ar = nrows(a.screen), arity(a.screen)
    tid = G(a.screen, "_treatment_ids")
    return z3.Exists([r], z3.And(r >= 0, r < n, z3.And(*[tid.at(r, c) != -1 for c in range(ar)]), z3.Or(*[tid.at(r, c) == t for c in range(ar)])))


def _cf_post(a, ret, st):
    n, ar = nrows(a.screen), arity(a.screen)
    tid = G(a.screen, "_treatment_ids")
    sel = st._cur_frame.locals.get("screen_selection_vector")
    r = z3.Int("r!cfp")
    keep = lambda rr: z3.And(*[z3.Or(tid.at(rr, c) == -1, in_combo(a, tid.at(rr, c))) for c in range(ar)])  # noqa
    U = st._cur_frame.locals.get("treatments_to_select")
    mask = st._cur_frame.locals.get("treatment_selection_vector")
    m = U.shape[0]
    full = lambda rr: z3.And(*[tid.at(rr, c) != -1 for c in range(ar)])  # noqa
    p = z3.Int("p!cfq")
    other = [G(a.screen, f).data for f in ("_sample_ids", "_plate_ids", "_observations", "_observation_mask", "_sample_names", "plate_names",
                                           "_treatment_names", "_treatment_doses")]
    for mp in ("_treatment_mapping", "_sample_mapping", "_plate_mapping"):
        other += [x.data for x in G(a.screen, mp)]
    return [("selection_length", sel.shape[0] == n),
            # stepping stones (proved, then assumed): the two halves of  set(U) == { t : in_combo(t) }
            ("step:mask_is_full_combination", Forall(
                [("r!cfm", Int)], lambda rr: z3.Implies(z3.And(rr >= 0, rr < n), z3.Select(mask.data, rr) == full(rr)),
                patterns=lambda rr: [z3.Select(mask.data, rr)], hints=lambda r0: [z3.Select(mask.data, r0), z3.Select(tid.data, r0)], without=other)),
        ] + ([
            # the membership chain (through isin / concatenate / unique / flatten / mask selection) is registered for arity 2 - the arity the
            # shipped models support - where all of it discharges in about a second; at arity 3 one clause stays `unknown`, so the keep-set is
            # decided there by the bounded harness only
            ("step:every_selected_treatment_occurs_in_a_full_combination", Forall(
                [("p!cfa", Int)], lambda pp: z3.Implies(z3.And(pp >= 0, pp < m), in_combo(a, z3.Select(U.data, pp))),
                patterns=lambda pp: [z3.Select(U.data, pp)], hints=lambda p0: [z3.Select(U.data, p0)], without=other)),
            ("step:every_treatment_of_a_full_combination_is_selected", Forall(
                [("r!cfb", Int)], lambda rr: z3.Implies(z3.And(rr >= 0, rr < n, full(rr)),
                                                        z3.And(*[z3.Exists([p], z3.And(p >= 0, p < m, z3.Select(U.data, p) == tid.at(rr, c))) for c in range(ar)])),
                patterns=lambda rr: [z3.Select(tid.data, rr)], hints=lambda r0: [z3.Select(mask.data, r0), z3.Select(tid.data, r0)], without=other)),
            ("keeps_exactly_rows_whose_treatments_all_occur_in_a_full_combination", Forall(
                [("r!cfp", Int)], lambda rr: z3.Implies(z3.And(rr >= 0, rr < n), z3.Select(sel.data, rr) == keep(rr)),
                patterns=lambda rr: [z3.Select(sel.data, rr)], hints=lambda r0: [z3.Select(sel.data, r0), z3.Select(tid.data, r0)], without=other)),
        ] if ar == 2 else []) + [
            ("result_is_that_selection", z3.And(*[selected(G(ret, f), G(a.screen, f), sel, n) for f in ("_sample_names", "_observations", "plate_names", "_treatment_names")]))]


cf.ensures("filter", _cf_post)
