"""Shared model of batchie.data.Screen / ScreenSubset / Plate for all properties.

A Screen is used through accessor G(s, field) which works for a heap object (Obj) and for an abstract immutable
token (AObj "Screen" whose fields are uninterpreted functions of the token).  Observations are elements of the
sort chosen by pyvc.lib.arrays.FLOAT_AS ('val': opaque payloads compared bit-for-bit; 'float': reals).
"""
import z3
from pyvc.spec import (contract, abstract_class, TObj, TAObj, TTuple, TStr, TInt, TBool, TSeq, TRef, TNone, Type, NS,
                       CLASS_MODELS)
from pyvc.values import Int, Bool, Real, Str, Val, Ref, Obj, AObj, SymList, Seq
from pyvc.lib import arrays
from pyvc.lib.arrays import TArr, Arr, rank, idx

SCREEN = "batchie.data.Screen"
SUBSET = "batchie.data.ScreenSubset"
PLATE = "batchie.data.Plate"


def FS():
    return arrays.SORT_OF[arrays.FLOAT_AS[0]]


def screen_fields(arity=None):
    d2 = (None, arity) if arity is not None else None
    return {
        "control_treatment_name": TStr,
        "_treatment_ids": TArr(Int, 2, dims=d2), "_sample_ids": TArr(Int), "_plate_ids": TArr(Int),
        "_observations": TArr(FS()), "_observation_mask": TArr(Bool),
        "_sample_names": TArr(Str), "plate_names": TArr(Str),
        "_treatment_names": TArr(Str, 2, dims=d2), "_treatment_doses": TArr(Real, 2, dims=d2),
        "_treatment_mapping": TTuple(TArr(Str), TArr(Real), TArr(Int)),
        "_sample_mapping": TTuple(TArr(Str), TArr(Int)),
        "_plate_mapping": TTuple(TArr(Str), TArr(Int)),
    }


abstract_class("Screen", SCREEN, screen_fields())
abstract_class("ScreenSubset", SUBSET, {"screen": TAObj("Screen"), "selection_vector": TArr(Bool)})
abstract_class("Plate", PLATE, {"screen": TAObj("Screen"), "selection_vector": TArr(Bool)})


def T_screen(arity=None):
    return TObj(SCREEN, fields=screen_fields(arity))


ROW_FIELDS_1D = ["_sample_ids", "_plate_ids", "_observations", "_observation_mask", "_sample_names", "plate_names"]
ROW_FIELDS_2D = ["_treatment_ids", "_treatment_names", "_treatment_doses"]
PUBLIC = {"plate_ids": "_plate_ids", "sample_ids": "_sample_ids", "treatment_ids": "_treatment_ids",
          "sample_names": "_sample_names", "treatment_names": "_treatment_names", "treatment_doses": "_treatment_doses",
          "observations": "_observations", "observation_mask": "_observation_mask", "plate_names": "plate_names"}

_interp_for_G = [None]


def G(s, field, interp=None):
    """field of a screen-like object (Obj, entry snapshot NS, or abstract token)"""
    if isinstance(s, AObj):
        from pyvc.spec import abstract_field_value, ABSTRACT_FIELDS
        return abstract_field_value(s.clsname, field, ABSTRACT_FIELDS[s.clsname][field], s.term, interp or _NoAssume)
    if isinstance(s, Obj):
        return s.fields[field]
    return getattr(s, field)


class _NoAssumeCtx:
    def assume(self, f):
        pass


class _NoAssumeI:
    ctx = _NoAssumeCtx()


_NoAssume = _NoAssumeI()


def nrows(s):
    return G(s, "_sample_ids").shape[0]


def arity(s):
    return G(s, "_treatment_ids").shape[1]


def screen_shape_wf(s):
    """all per-experiment columns have the same number of rows; treatment columns share the arity (>= 1)"""
    n = nrows(s)
    a = arity(s)
    out = [n >= 0, to_int(a) >= 1]
    for f in ROW_FIELDS_1D:
        out.append(G(s, f).shape[0] == n)
    for f in ROW_FIELDS_2D:
        out.append(z3.And(G(s, f).shape[0] == n, to_int(G(s, f).shape[1]) == to_int(a)))
    return out


def to_int(x):
    return x if z3.is_expr(x) else z3.IntVal(x)


def plate_consistency(s):
    """equal plate id <=> equal plate name; each plate wholly observed or wholly unobserved"""
    r, r2 = z3.Int("r!pc"), z3.Int("r2!pc")
    n = nrows(s)
    pid = lambda t: z3.Select(G(s, "_plate_ids").data, t)  # noqa
    pn = lambda t: z3.Select(G(s, "plate_names").data, t)  # noqa
    mk = lambda t: z3.Select(G(s, "_observation_mask").data, t)  # noqa
    return [z3.ForAll([r, r2], z3.Implies(z3.And(r >= 0, r < n, r2 >= 0, r2 < n), (pid(r) == pid(r2)) == (pn(r) == pn(r2))),
                      patterns=[z3.MultiPattern(pid(r), pid(r2))]),
            z3.ForAll([r, r2], z3.Implies(z3.And(r >= 0, r < n, r2 >= 0, r2 < n, pid(r) == pid(r2)), mk(r) == mk(r2)),
                      patterns=[z3.MultiPattern(pid(r), mk(r2))])]


def selected(res, src, m, n):
    """res == src[m]  (1-D or 2-D rows): length rank(m,n), k-th entry is src at the k-th True position"""
    k = z3.Int("k!sel")
    cnt = rank(m.data, to_int(n))
    body = z3.Select(res.data, k) == z3.Select(src.data, idx(m.data, to_int(n), k))
    if res.ndim == 2:
        cols = to_int(src.shape[1])
        c = z3.Int("c!sel")
        body = z3.ForAll([c], z3.Implies(z3.And(c >= 0, c < cols),
                                         z3.Select(z3.Select(res.data, k), c) == z3.Select(z3.Select(src.data, idx(m.data, to_int(n), k)), c)))
        return z3.And(res.shape[0] == cnt, to_int(res.shape[1]) == cols,
                      z3.ForAll([k], z3.Implies(z3.And(k >= 0, k < cnt), body), patterns=[z3.Select(res.data, k)]))
    return z3.And(res.shape[0] == cnt,
                  z3.ForAll([k], z3.Implies(z3.And(k >= 0, k < cnt), body), patterns=[z3.Select(res.data, k)]))


def same_array(a, b):
    """same contents and shape (1-D/2-D), by value"""
    k = z3.Int("k!sa")
    if a.ndim == 1:
        return z3.And(a.shape[0] == b.shape[0],
                      z3.ForAll([k], z3.Implies(z3.And(k >= 0, k < to_int(a.shape[0])), z3.Select(a.data, k) == z3.Select(b.data, k)),
                                patterns=[z3.Select(a.data, k)]))
    c = z3.Int("c!sa")
    return z3.And(a.shape[0] == b.shape[0], to_int(a.shape[1]) == to_int(b.shape[1]),
                  z3.ForAll([k, c], z3.Implies(z3.And(k >= 0, k < to_int(a.shape[0]), c >= 0, c < to_int(a.shape[1])),
                                               z3.Select(z3.Select(a.data, k), c) == z3.Select(z3.Select(b.data, k), c)),
                            patterns=[z3.Select(z3.Select(a.data, k), c)]))


# ----------------------------------------------------------------------------------------------------
# Screen.__init__ : ASSUMED contract here (its body -- the pandas encoding -- is the subject of C01).
# Pass-through columns alias the arguments (the constructor stores the arrays it is given).
# ----------------------------------------------------------------------------------------------------
si = contract(SCREEN + ".__init__")
si.trusted = True
si.note = "assumed: Screen.__init__ stores the given columns unchanged, derives ids/mappings from names (C01), raises ValueError on shape/dtype/mixed-plate errors"


def _screen_init_apply(i, a, node, fr):
    from pyvc.engine import PyRaise, ExcVal
    ctx = i.ctx
    o = a.self
    tn, td, sn, pn = a.treatment_names, a.treatment_doses, a.sample_names, a.plate_names
    obs, msk = a.observations, a.observation_mask
    for x in (tn, td, sn, pn):
        if not isinstance(x, Arr):
            raise i_unsupported("Screen(...) with non-array argument", node)
    n = sn.shape[0]
    bad = [tn.shape[0] != n, td.shape[0] != n, pn.shape[0] != n]
    if tn.ndim != 2 or td.ndim != 2:
        raise PyRaise(ExcVal("ValueError"), node)
    bad.append(to_int(tn.shape[1]) != to_int(td.shape[1]))
    if obs is None and msk is not None:
        raise PyRaise(ExcVal("ValueError"), node)
    if obs is not None:
        bad.append(obs.shape[0] != n)
        if msk is not None:
            bad.append(msk.shape[0] != n)
    # mixed plates
    r, r2 = z3.Int("r!si"), z3.Int("r2!si")
    if msk is not None:
        mixed = z3.Exists([r, r2], z3.And(r >= 0, r < n, r2 >= 0, r2 < n, z3.Select(pn.data, r) == z3.Select(pn.data, r2),
                                          z3.Select(msk.data, r) != z3.Select(msk.data, r2)))
        bad.append(mixed)
    badf = z3.Or(*[b if z3.is_expr(b) else z3.BoolVal(bool(b)) for b in bad])
    invalid_mapping = ctx.fresh("invalid_or_uncovering_mapping", Bool) if (a.treatment_mapping is not None or a.sample_mapping is not None) else z3.BoolVal(False)
    if ctx.decide(z3.Or(badf, invalid_mapping)):
        raise PyRaise(ExcVal("ValueError"), node)
    if obs is None:
        from pyvc.lib.arrays import define1, const_of
        obs = define1(i, n, FS(), lambda k: const_of(FS(), 0), "obs0")
        msk = define1(i, n, Bool, lambda k: z3.BoolVal(False), "mask0")
    elif msk is None:
        from pyvc.lib.arrays import define1
        msk = define1(i, n, Bool, lambda k: z3.BoolVal(True), "mask1")
    f = o.fields
    f["control_treatment_name"] = a.control_treatment_name if not isinstance(a.control_treatment_name, str) else _strc(a.control_treatment_name)
    f["_observations"], f["_observation_mask"] = obs, msk
    f["_sample_names"], f["plate_names"], f["_treatment_names"], f["_treatment_doses"] = sn, pn, tn, td
    fresh = screen_fields()
    for nm in ("_treatment_ids", "_sample_ids", "_plate_ids", "_sample_mapping", "_plate_mapping", "_treatment_mapping"):
        f[nm] = fresh[nm].fresh(ctx, "new." + nm)
    if a.treatment_mapping is not None:
        f["_treatment_mapping"] = a.treatment_mapping
    if a.sample_mapping is not None:
        f["_sample_mapping"] = a.sample_mapping
    for g in screen_shape_wf(o) + plate_consistency(o):
        ctx.assume(g)
    return None


def _strc(s):
    from pyvc.lib.strings import str_const
    return str_const(s)


def i_unsupported(msg, node):
    from pyvc.values import Unsupported
    return Unsupported(msg, node)


si.apply = _screen_init_apply
