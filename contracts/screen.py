"""Shared model of batchie.data.Screen / ScreenSubset / Plate for all properties.

A Screen is used through accessor G(s, field) which works for a heap object (Obj) and for an abstract immutable
token (AObj "Screen" whose fields are uninterpreted functions of the token).  Observations are elements of the
sort chosen by pyvc.lib.arrays.FLOAT_AS ('val': opaque payloads compared bit-for-bit; 'float': reals).
"""
import z3
from pyvc.spec import (contract, abstract_class, TObj, TAObj, TTuple, TStr, TInt, TBool, TSeq, TRef, TNone, Type, NS,
                       CLASS_MODELS)
from pyvc.values import Int, Bool, Real, Str, Val, Ref, Obj, AObj, SymList, Seq
from pyvc.lib import arrays
from pyvc.lib.arrays import TArr, Arr, rank, idx

SCREEN = "batchie.data.Screen"
SUBSET = "batchie.data.ScreenSubset"
PLATE = "batchie.data.Plate"


def FS():
    return arrays.SORT_OF[arrays.FLOAT_AS[0]]


def screen_fields(arity=None):
    d2 = (None, arity) if arity is not None else None
    return {
        "control_treatment_name": TStr,
        "_treatment_ids": TArr(Int, 2, dims=d2), "_sample_ids": TArr(Int), "_plate_ids": TArr(Int),
        "_observations": TArr(FS()), "_observation_mask": TArr(Bool),
        "_sample_names": TArr(Str), "plate_names": TArr(Str),
        "_treatment_names": TArr(Str, 2, dims=d2), "_treatment_doses": TArr(Real, 2, dims=d2),
        "_treatment_mapping": TTuple(TArr(Str), TArr(Real), TArr(Int)),
        "_sample_mapping": TTuple(TArr(Str), TArr(Int)),
        "_plate_mapping": TTuple(TArr(Str), TArr(Int)),
    }


abstract_class("Screen", SCREEN, screen_fields())
abstract_class("ScreenSubset", SUBSET, {"screen": TAObj("Screen"), "selection_vector": TArr(Bool)})
abstract_class("Plate", PLATE, {"screen": TAObj("Screen"), "selection_vector": TArr(Bool)})


def T_screen(arity=None):
    return TObj(SCREEN, fields=screen_fields(arity))


ROW_FIELDS_1D = ["_sample_ids", "_plate_ids", "_observations", "_observation_mask", "_sample_names", "plate_names"]
ROW_FIELDS_2D = ["_treatment_ids", "_treatment_names", "_treatment_doses"]
PUBLIC = {"plate_ids": "_plate_ids", "sample_ids": "_sample_ids", "treatment_ids": "_treatment_ids",
          "sample_names": "_sample_names", "treatment_names": "_treatment_names", "treatment_doses": "_treatment_doses",
          "observations": "_observations", "observation_mask": "_observation_mask", "plate_names": "plate_names"}

_interp_for_G = [None]


def G(s, field, interp=None):
    """field of a screen-like object (Obj, entry snapshot NS, or abstract token)"""
    if isinstance(s, AObj):
        from pyvc.spec import abstract_field_value, ABSTRACT_FIELDS
        return abstract_field_value(s.clsname, field, ABSTRACT_FIELDS[s.clsname][field], s.term, interp or _NoAssume)
    if isinstance(s, Obj):
        return s.fields[field]
    return getattr(s, field)


class _NoAssumeCtx:
    def assume(self, f):
        pass


class _NoAssumeI:
    ctx = _NoAssumeCtx()


_NoAssume = _NoAssumeI()


def nrows(s):
    return G(s, "_sample_ids").shape[0]


def arity(s):
    return G(s, "_treatment_ids").shape[1]


def screen_shape_wf(s):
    """all per-experiment columns have the same number of rows; treatment columns share the arity (>= 1)"""
    n = nrows(s)
    a = arity(s)
    out = [n >= 0, to_int(a) >= 1]
    for f in ROW_FIELDS_1D:
        out.append(G(s, f).shape[0] == n)
    for f in ROW_FIELDS_2D:
        out.append(z3.And(G(s, f).shape[0] == n, to_int(G(s, f).shape[1]) == to_int(a)))
    return out


def to_int(x):
    return x if z3.is_expr(x) else z3.IntVal(x)


def plate_consistency(s):
    """equal plate id <=> equal plate name; each plate wholly observed or wholly unobserved"""
    r, r2 = z3.Int("r!pc"), z3.Int("r2!pc")
    n = nrows(s)
    pid = lambda t: z3.Select(G(s, "_plate_ids").data, t)  # noqa
    pn = lambda t: z3.Select(G(s, "plate_names").data, t)  # noqa
    mk = lambda t: z3.Select(G(s, "_observation_mask").data, t)  # noqa
    return [z3.ForAll([r, r2], z3.Implies(z3.And(r >= 0, r < n, r2 >= 0, r2 < n), (pid(r) == pid(r2)) == (pn(r) == pn(r2))),
                      patterns=[z3.MultiPattern(pid(r), pid(r2))]),
            z3.ForAll([r, r2], z3.Implies(z3.And(r >= 0, r < n, r2 >= 0, r2 < n, pid(r) == pid(r2)), mk(r) == mk(r2)),
                      patterns=[z3.MultiPattern(pid(r), mk(r2))])]


def selected(res, src, m, n):
    """res == src[m]  (1-D or 2-D rows): length rank(m,n), k-th entry is src at the k-th True position"""
    k = z3.Int("k!sel")
    cnt = rank(m.data, to_int(n))
    body = z3.Select(res.data, k) == z3.Select(src.data, idx(m.data, to_int(n), k))
    if res.ndim == 2:
        cols = to_int(src.shape[1])
        c = z3.Int("c!sel")
        body = z3.ForAll([c], z3.Implies(z3.And(c >= 0, c < cols),
                                         z3.Select(z3.Select(res.data, k), c) == z3.Select(z3.Select(src.data, idx(m.data, to_int(n), k)), c)))
        return z3.And(res.shape[0] == cnt, to_int(res.shape[1]) == cols,
                      z3.ForAll([k], z3.Implies(z3.And(k >= 0, k < cnt), body), patterns=[z3.Select(res.data, k)]))
    return z3.And(res.shape[0] == cnt,
                  z3.ForAll([k], z3.Implies(z3.And(k >= 0, k < cnt), body), patterns=[z3.Select(res.data, k)]))


def same_array(a, b):
    """same contents and shape (1-D/2-D), by value"""
    k = z3.Int("k!sa")
    if a.ndim == 1:
        return z3.And(a.shape[0] == b.shape[0],
                      z3.ForAll([k], z3.Implies(z3.And(k >= 0, k < to_int(a.shape[0])), z3.Select(a.data, k) == z3.Select(b.data, k)),
                                patterns=[z3.Select(a.data, k)]))
    c = z3.Int("c!sa")
    return z3.And(a.shape[0] == b.shape[0], to_int(a.shape[1]) == to_int(b.shape[1]),
                  z3.ForAll([k, c], z3.Implies(z3.And(k >= 0, k < to_int(a.shape[0]), c >= 0, c < to_int(a.shape[1])),
                                               z3.Select(z3.Select(a.data, k), c) == z3.Select(z3.Select(b.data, k), c)),
                            patterns=[z3.Select(z3.Select(a.data, k), c)]))


# ----------------------------------------------------------------------------------------------------
# Screen.__init__ : ASSUMED contract here (its body -- the pandas encoding -- is the subject of C01).
# Pass-through columns alias the arguments (the constructor stores the arrays it is given).
# ----------------------------------------------------------------------------------------------------
si = contract(SCREEN + ".__init__")
si.trusted = True
si.note = "assumed: Screen.__init__ stores the given columns unchanged, derives ids/mappings from names (C01), raises ValueError on shape/dtype/mixed-plate errors"


def _screen_init_apply(i, a, node, fr):
    from pyvc.engine import PyRaise, ExcVal
    ctx = i.ctx
    o = a.self
    tn, td, sn, pn = a.treatment_names, a.treatment_doses, a.sample_names, a.plate_names
    obs, msk = a.observations, a.observation_mask
    for x in (tn, td, sn, pn):
        if not isinstance(x, Arr):
            raise i_unsupported("Screen(...) with non-array argument", node)
    n = sn.shape[0]
    bad = [tn.shape[0] != n, td.shape[0] != n, pn.shape[0] != n]
    if tn.ndim != 2 or td.ndim != 2:
        raise PyRaise(ExcVal("ValueError"), node)
    bad.append(to_int(tn.shape[1]) != to_int(td.shape[1]))
    if obs is None and msk is not None:
        raise PyRaise(ExcVal("ValueError"), node)
    if obs is not None:
        bad.append(obs.shape[0] != n)
        if msk is not None:
            bad.append(msk.shape[0] != n)
    # mixed plates
    r, r2 = z3.Int("r!si"), z3.Int("r2!si")
    if msk is not None:
        mixed = z3.Exists([r, r2], z3.And(r >= 0, r < n, r2 >= 0, r2 < n, z3.Select(pn.data, r) == z3.Select(pn.data, r2),
                                          z3.Select(msk.data, r) != z3.Select(msk.data, r2)))
        bad.append(mixed)
    badf = z3.Or(*[b if z3.is_expr(b) else z3.BoolVal(bool(b)) for b in bad])
    invalid_mapping = ctx.fresh("invalid_or_uncovering_mapping", Bool) if (a.treatment_mapping is not None or a.sample_mapping is not None) else z3.BoolVal(False)
    if ctx.decide(z3.Or(badf, invalid_mapping)):
        raise PyRaise(ExcVal("ValueError"), node)
    if obs is None:
        from pyvc.lib.arrays import define1, const_of
        obs = define1(i, n, FS(), lambda k: const_of(FS(), 0), "obs0")
        msk = define1(i, n, Bool, lambda k: z3.BoolVal(False), "mask0")
    elif msk is None:
        from pyvc.lib.arrays import define1
        msk = define1(i, n, Bool, lambda k: z3.BoolVal(True), "mask1")
    f = o.fields
    f["control_treatment_name"] = a.control_treatment_name if not isinstance(a.control_treatment_name, str) else _strc(a.control_treatment_name)
    f["_observations"], f["_observation_mask"] = obs, msk
    f["_sample_names"], f["plate_names"], f["_treatment_names"], f["_treatment_doses"] = sn, pn, tn, td
    fresh = screen_fields()
    for nm in ("_treatment_ids", "_sample_ids", "_plate_ids", "_sample_mapping", "_plate_mapping", "_treatment_mapping"):
        f[nm] = fresh[nm].fresh(ctx, "new." + nm)
    if a.treatment_mapping is not None:
        f["_treatment_mapping"] = a.treatment_mapping
    if a.sample_mapping is not None:
        f["_sample_mapping"] = a.sample_mapping
    for g in screen_shape_wf(o) + plate_consistency(o):
        ctx.assume(g)
    return None


def _strc(s):
    from pyvc.lib.strings import str_const
    return str_const(s)


def i_unsupported(msg, node):
    from pyvc.values import Unsupported
    return Unsupported(msg, node)


si.apply = _screen_init_apply


# ====================================================================================================
# id encoders (pandas): ASSUMED contracts (C01 tries to discharge them; until then they are trusted and
# conformance-tested natively).  Stated from the property (faithful, dense encoding), not from the code.
# ====================================================================================================
from pyvc.lib.np_setops import str_lt, str_order_axioms  # noqa
from pyvc.spec import Forall  # noqa
from pyvc.values import to_z3  # noqa

E1 = "batchie.data.encode_1d_array_to_0_indexed_ids"
ET = "batchie.data.encode_treatment_arrays_to_0_indexed_ids"
IS0 = "batchie.data.numpy_array_is_0_indexed_integers"


def keys_distinct1(names, n):
    k, k2 = z3.Int("k!kd"), z3.Int("k2!kd")
    return z3.ForAll([k, k2], z3.Implies(z3.And(k >= 0, k < k2, k2 < n), z3.Select(names.data, k) != z3.Select(names.data, k2)),
                     patterns=[z3.MultiPattern(z3.Select(names.data, k), z3.Select(names.data, k2))])


def decodes1(enc, arr, mn, mi):
    """every row's id decodes through the mapping (mn, mi) to that row's name"""
    i_, k = z3.Int("i!dc"), z3.Int("k!dc")
    n, m = arr.shape[0], mn.shape[0]
    return z3.And(enc.shape[0] == n,
                  z3.ForAll([i_], z3.Implies(z3.And(i_ >= 0, i_ < n),
                                             z3.Exists([k], z3.And(k >= 0, k < m, z3.Select(mn.data, k) == z3.Select(arr.data, i_),
                                                                   z3.Select(mi.data, k) == z3.Select(enc.data, i_)))),
                            patterns=[z3.Select(enc.data, i_), z3.Select(arr.data, i_)]))


def covers1(arr, mn):
    i_, k = z3.Int("i!cv"), z3.Int("k!cv")
    return z3.ForAll([i_], z3.Implies(z3.And(i_ >= 0, i_ < arr.shape[0]),
                                      z3.Exists([k], z3.And(k >= 0, k < mn.shape[0], z3.Select(mn.data, k) == z3.Select(arr.data, i_)))),
                     patterns=[z3.Select(arr.data, i_)])


_SA = z3.ArraySort(Int, Str)
E1_m = z3.Function("encode1d_count", _SA, Int, Int)
E1_uv = z3.Function("encode1d_names", _SA, Int, _SA)
E1_ui = z3.Function("encode1d_ids", _SA, Int, z3.ArraySort(Int, Int))
E1_enc = z3.Function("encode1d_encoded", _SA, Int, z3.ArraySort(Int, Int))


def canonical_plate_ids(s):
    """plate ids are the encoder's output for the plate names (they are never taken from a supplied mapping)"""
    r = z3.Int("r!cp")
    n = nrows(s)
    pn = G(s, "plate_names")
    return z3.ForAll([r], z3.Implies(z3.And(r >= 0, r < n), z3.Select(G(s, "_plate_ids").data, r) == z3.Select(E1_enc(pn.data, pn.shape[0]), r)),
                     patterns=[z3.Select(G(s, "_plate_ids").data, r)])


e1 = contract(E1)
e1.trusted = True
e1.note = "assumed (pandas drop_duplicates/sort_values/merge): dense faithful encoding of a 1-D name array; existing mapping followed verbatim"


def _e1_apply(i, a, node, fr):
    from pyvc.engine import PyRaise, ExcVal
    ctx = i.ctx
    arr = a.arr
    n = arr.shape[0]
    if a.existing_mapping is None:
        # the encoder is a deterministic FUNCTION of its input array: results are applications of uninterpreted functions
        m = E1_m(arr.data, n)
        uv = Arr((m,), E1_uv(arr.data, n), arr.dtype)
        ui = Arr((m,), E1_ui(arr.data, n), "int")
        k, k2, j = z3.Int("k!e1"), z3.Int("k2!e1"), z3.Int("j!e1")
        ctx.assume(z3.And(m >= 0, m <= n, z3.Implies(n > 0, m >= 1)))
        for f in str_order_axioms():
            ctx.assume(f)
        ctx.assume(z3.ForAll([k, k2], z3.Implies(z3.And(k >= 0, k < k2, k2 < m), str_lt(z3.Select(uv.data, k), z3.Select(uv.data, k2))),
                             patterns=[z3.MultiPattern(z3.Select(uv.data, k), z3.Select(uv.data, k2))]))
        ctx.assume(z3.ForAll([k], z3.Implies(z3.And(k >= 0, k < m), z3.Select(ui.data, k) == k), patterns=[z3.Select(ui.data, k)]))
        ctx.assume(keys_distinct1(uv, m))  # strictly sorted => pairwise distinct
        ctx.assume(dense_ids(ui))  # ids are exactly 0..m-1
        # every listed name occurs in the data
        occ = z3.Function("occ!%d" % uv.ident, Int, Int)
        ctx.assume(z3.ForAll([k], z3.Implies(z3.And(k >= 0, k < m), z3.And(occ(k) >= 0, occ(k) < n, z3.Select(arr.data, occ(k)) == z3.Select(uv.data, k))),
                             patterns=[z3.Select(uv.data, k)]))
    else:
        uv, ui = a.existing_mapping
        m = uv.shape[0]
        i.ctx.prove("%s/call:encode_1d:mapping_keys_distinct@%s" % (i._cur_label, getattr(node, "lineno", "?")),
                    z3.And(keys_distinct1(uv, m), ui.shape[0] == m), node, "call")
        if ctx.decide(z3.Not(covers1(arr, uv))):
            raise PyRaise(ExcVal("ValueError"), node)
    enc = Arr((n,), E1_enc(arr.data, n) if a.existing_mapping is None else ctx.fresh("enc_ids", z3.ArraySort(Int, Int)), "int")
    pos = z3.Function("encpos!%d" % enc.ident, Int, Int)
    j = z3.Int("j!e1b")
    ctx.assume(z3.ForAll([j], z3.Implies(z3.And(j >= 0, j < n),
                                         z3.And(pos(j) >= 0, pos(j) < m, z3.Select(uv.data, pos(j)) == z3.Select(arr.data, j),
                                                z3.Select(enc.data, j) == z3.Select(ui.data, pos(j)))),
                         patterns=[z3.Select(enc.data, j)]))
    return (enc, uv, ui)


e1.apply = _e1_apply

z0 = contract(IS0)
z0.trusted = True
z0.note = "assumed: True iff the integer array's value set (ignoring -1) is exactly 0..m-1"


def _z0_apply(i, a, node, fr):
    arr = a.arr
    if arr.elem_sort != Int:
        return False
    return dense_ids(arr)


def dense_ids(arr):
    """value set of arr without -1 is {0..m-1} for some m"""
    k, v = z3.Int("k!di"), z3.Int("v!di")
    n = arr.shape[0]
    hi = z3.Int("hi!di")
    occurs = lambda x: z3.Exists([k], z3.And(k >= 0, k < n, z3.Select(arr.data, k) == x))  # noqa
    return z3.And(z3.ForAll([k], z3.Implies(z3.And(k >= 0, k < n), z3.Select(arr.data, k) >= -1)),
                  z3.ForAll([k, v], z3.Implies(z3.And(k >= 0, k < n, v >= 0, v < z3.Select(arr.data, k)), occurs(v))))


z0.apply = _z0_apply

et = contract(ET)
et.trusted = True
et.note = "assumed (pandas): faithful dense encoding of (name, dose) pairs; control (-1) iff name == control or dose <= 0; mapping followed verbatim"


def pair_decodes(enc, names, doses, mn, md, mi, upto=None):
    i_, k = z3.Int("i!pd"), z3.Int("k!pd")
    n, m = names.shape[0], mn.shape[0]
    return z3.ForAll([i_], z3.Implies(z3.And(i_ >= 0, i_ < n),
                                      z3.Exists([k], z3.And(k >= 0, k < m, z3.Select(mn.data, k) == z3.Select(names.data, i_),
                                                            z3.Select(md.data, k) == z3.Select(doses.data, i_),
                                                            z3.Select(mi.data, k) == z3.Select(enc.data, i_)))),
                     patterns=[z3.Select(enc.data, i_)])


def _et_apply(i, a, node, fr):
    from pyvc.engine import PyRaise, ExcVal
    ctx = i.ctx
    names, doses = a.treatment_name_arr, a.treatment_dose_arr
    ctl = a.control_treatment_name
    ctl = _strc(ctl) if isinstance(ctl, str) else ctl
    n = names.shape[0]
    k, k2, j = z3.Int("k!et"), z3.Int("k2!et"), z3.Int("j!et")
    if a.existing_mapping is None:
        m = ctx.fresh("n_treatments", Int)
        mn = Arr((m,), ctx.fresh("uniq_tnames", z3.ArraySort(Int, Str)), "str")
        md = Arr((m,), ctx.fresh("uniq_tdoses", z3.ArraySort(Int, Real)), "float")
        mi = Arr((m,), ctx.fresh("uniq_tids", z3.ArraySort(Int, Int)), "int")
        nc = z3.Function("nc!%d" % mi.ident, Int, Int)  # number of non-control keys before position k
        isc = lambda t: z3.Or(z3.Select(mn.data, t) == ctl, z3.Select(md.data, t) <= 0)  # noqa
        ctx.assume(z3.And(m >= 0, m <= n, z3.Implies(n > 0, m >= 1)))
        for f in str_order_axioms():
            ctx.assume(f)
        lt2 = lambda x, y: z3.Or(str_lt(z3.Select(mn.data, x), z3.Select(mn.data, y)),  # noqa
                                 z3.And(z3.Select(mn.data, x) == z3.Select(mn.data, y), z3.Select(md.data, x) < z3.Select(md.data, y)))
        ctx.assume(z3.ForAll([k, k2], z3.Implies(z3.And(k >= 0, k < k2, k2 < m), lt2(k, k2)),
                             patterns=[z3.MultiPattern(z3.Select(mn.data, k), z3.Select(mn.data, k2))]))
        ctx.assume(nc(0) == 0)
        ctx.assume(z3.ForAll([k], z3.Implies(z3.And(k >= 0, k < m), z3.And(
            nc(k + 1) == nc(k) + z3.If(isc(k), 0, 1),
            z3.Select(mi.data, k) == z3.If(isc(k), -1, nc(k)))), patterns=[z3.Select(mi.data, k)]))
        ctx.assume(pair_keys_distinct(mn, md))  # strictly sorted (name, dose) keys => pairwise distinct
        ctx.assume(dense_ids(mi))  # non-control ids are exactly 0..nc(m)-1 (part of the assumed encoder contract)
        occ = z3.Function("tocc!%d" % mi.ident, Int, Int)
        ctx.assume(z3.ForAll([k], z3.Implies(z3.And(k >= 0, k < m), z3.And(occ(k) >= 0, occ(k) < n,
                                                                          z3.Select(names.data, occ(k)) == z3.Select(mn.data, k),
                                                                          z3.Select(doses.data, occ(k)) == z3.Select(md.data, k))),
                             patterns=[z3.Select(mn.data, k)]))
    else:
        mn, md, mi = a.existing_mapping
        m = mn.shape[0]
        distinct = z3.ForAll([k, k2], z3.Implies(z3.And(k >= 0, k < k2, k2 < m),
                                                 z3.Or(z3.Select(mn.data, k) != z3.Select(mn.data, k2), z3.Select(md.data, k) != z3.Select(md.data, k2))),
                             patterns=[z3.MultiPattern(z3.Select(mn.data, k), z3.Select(mn.data, k2))])
        i.ctx.prove("%s/call:encode_treatment:mapping_keys_distinct@%s" % (i._cur_label, getattr(node, "lineno", "?")),
                    z3.And(distinct, md.shape[0] == m, mi.shape[0] == m), node, "call")
        covered = z3.ForAll([j], z3.Implies(z3.And(j >= 0, j < n), z3.Exists([k], z3.And(
            k >= 0, k < m, z3.Select(mn.data, k) == z3.Select(names.data, j), z3.Select(md.data, k) == z3.Select(doses.data, j)))),
            patterns=[z3.Select(names.data, j)])
        if ctx.decide(z3.Not(covered)):
            raise PyRaise(ExcVal("ValueError"), node)
    enc = Arr((n,), ctx.fresh("enc_tids", z3.ArraySort(Int, Int)), "int")
    pos = z3.Function("tencpos!%d" % enc.ident, Int, Int)
    ctx.assume(z3.ForAll([j], z3.Implies(z3.And(j >= 0, j < n), z3.And(
        pos(j) >= 0, pos(j) < m, z3.Select(mn.data, pos(j)) == z3.Select(names.data, j),
        z3.Select(md.data, pos(j)) == z3.Select(doses.data, j), z3.Select(enc.data, j) == z3.Select(mi.data, pos(j)))),
        patterns=[z3.Select(enc.data, j)]))
    return (enc, mn, md, mi)


et.apply = _et_apply


# ====================================================================================================
# Screen.__init__ : verified against the contract below (uses the assumed encoder contracts above).
# ====================================================================================================
def T_init_params(arity, obs="both", mapping=False):
    ps = [("self", TObj(SCREEN)),
          ("treatment_names", TArr(Str, 2, dims=(None, arity))), ("treatment_doses", TArr(Real, 2, dims=(None, arity))),
          ("sample_names", TArr(Str)), ("plate_names", TArr(Str)),
          ("observations", TArr(FS()) if obs in ("both", "obs") else TNone),
          ("observation_mask", TArr(Bool) if obs == "both" else TNone),
          ("control_treatment_name", TStr),
          ("treatment_mapping", TTuple(TArr(Str), TArr(Real), TArr(Int)) if mapping else TNone),
          ("sample_mapping", TTuple(TArr(Str), TArr(Int)) if mapping else TNone)]
    return ps


si.trusted = False
si.note = ""
si.params = T_init_params(2)
si.variants = [("arity2_obs_mask", T_init_params(2)), ("arity2_obs_only", T_init_params(2, "obs")),
               ("arity2_no_obs", T_init_params(2, "none")), ("arity2_mappings", T_init_params(2, "both", True)),
               ("arity1_obs_mask", T_init_params(1)), ("arity3_obs_mask", T_init_params(3))]


def _mask_len_ok(a):
    return [("mask_length", a.observation_mask.shape[0] == a.sample_names.shape[0])] if a.observation_mask is not None else []


def _mapping_req(a):
    out = []
    if a.sample_mapping is not None:
        mn, mi = a.sample_mapping
        out += [("sample_mapping_keys_distinct", keys_distinct1(mn, mn.shape[0])), ("sample_mapping_lens", mi.shape[0] == mn.shape[0])]
    if a.treatment_mapping is not None:
        mn, md, mi = a.treatment_mapping
        m = mn.shape[0]
        out += [("treatment_mapping_lens", z3.And(md.shape[0] == m, mi.shape[0] == m)),
                ("treatment_mapping_keys_distinct", pair_keys_distinct(mn, md))]
    return out


si._requires = []
si.requires(lambda a: _mask_len_ok(a) + _mapping_req(a))


def _mixed_plate(a):
    if a.observation_mask is None:
        return z3.BoolVal(False)
    n = a.sample_names.shape[0]
    r, r2 = z3.Int("r!mx"), z3.Int("r2!mx")
    pn, mk = a.plate_names.data, a.observation_mask.data
    return z3.Exists([r, r2], z3.And(r >= 0, r < n, r2 >= 0, r2 < n, z3.Select(pn, r) == z3.Select(pn, r2), z3.Select(mk, r) != z3.Select(mk, r2)))


def _stack(a):
    """(names, doses) as the constructor concatenates them column after column"""
    return a


def _init_raises(a):
    n = a.sample_names.shape[0]
    conds = [a.treatment_names.shape[0] != n, a.treatment_doses.shape[0] != n, a.plate_names.shape[0] != n]
    if a.observations is not None:
        conds.append(a.observations.shape[0] != n)
    conds.append(_mixed_plate(a))
    if a.treatment_mapping is not None:
        conds.append(z3.Not(dense_ids(a.treatment_mapping[2])))
        mn, md, mi = a.treatment_mapping
        r, c, k = z3.Int("r!ir"), z3.Int("c!ir"), z3.Int("k!ir")
        ar = a.treatment_names.shape[1]
        conds.append(z3.Exists([r, c], z3.And(r >= 0, r < n, c >= 0, c < ar, z3.Not(z3.Exists([k], z3.And(
            k >= 0, k < mn.shape[0], z3.Select(mn.data, k) == a.treatment_names.at(r, c), z3.Select(md.data, k) == a.treatment_doses.at(r, c)))))))
    if a.sample_mapping is not None:
        conds.append(z3.Not(dense_ids(a.sample_mapping[1])))
        conds.append(z3.Not(covers1(a.sample_names, a.sample_mapping[0])))
    return z3.Or(*conds)


si._raises = []
si.raises("ValueError", _init_raises)


def treatment_decodes(o, tn, td):
    """every (row, column) id decodes through the screen's treatment mapping to that cell's (name, dose)"""
    r, k = z3.Int("r!td"), z3.Int("k!td")
    mn, md, mi = G(o, "_treatment_mapping")
    tid = G(o, "_treatment_ids")
    n = tn.shape[0]
    ar = tn.shape[1]
    out = []
    if not isinstance(ar, int):
        c = z3.Int("c!td")
        return z3.ForAll([r, c], z3.Implies(z3.And(r >= 0, r < n, c >= 0, c < ar), z3.Exists([k], z3.And(
            k >= 0, k < mn.shape[0], z3.Select(mn.data, k) == tn.at(r, c), z3.Select(md.data, k) == td.at(r, c),
            z3.Select(mi.data, k) == tid.at(r, c)))), patterns=[tid.at(r, c), tn.at(r, c)])
    for c in range(ar):
        out.append(z3.ForAll([r], z3.Implies(z3.And(r >= 0, r < n), z3.Exists([k], z3.And(
            k >= 0, k < mn.shape[0], z3.Select(mn.data, k) == tn.at(r, c), z3.Select(md.data, k) == td.at(r, c),
            z3.Select(mi.data, k) == tid.at(r, c)))), patterns=[tid.at(r, c), tn.at(r, c)]))
    return z3.And(*out)


def pair_keys_distinct(mn, md):
    k, k2 = z3.Int("k!pk"), z3.Int("k2!pk")
    m = mn.shape[0]
    return z3.ForAll([k, k2], z3.Implies(z3.And(k >= 0, k < k2, k2 < m),
                                         z3.Or(z3.Select(mn.data, k) != z3.Select(mn.data, k2), z3.Select(md.data, k) != z3.Select(md.data, k2))),
                     patterns=[z3.MultiPattern(z3.Select(mn.data, k), z3.Select(mn.data, k2))])


def mapping_wf(o):
    """both id mappings list pairwise distinct keys, have consistent lengths and dense ids"""
    smn, smi = G(o, "_sample_mapping")
    tmn, tmd, tmi = G(o, "_treatment_mapping")
    return [smi.shape[0] == smn.shape[0], keys_distinct1(smn, smn.shape[0]), dense_ids(smi),
            tmd.shape[0] == tmn.shape[0], tmi.shape[0] == tmn.shape[0], pair_keys_distinct(tmn, tmd), dense_ids(tmi)]


def screen_wf(s):
    """class invariant of Screen (established by the verified constructor contract)"""
    return (screen_shape_wf(s) + plate_consistency(s) + mapping_wf(s) + [canonical_plate_ids(s),
        decodes1(G(s, "_sample_ids"), G(s, "_sample_names"), *G(s, "_sample_mapping")),
        decodes1(G(s, "_plate_ids"), G(s, "plate_names"), *G(s, "_plate_mapping")),
        treatment_decodes(s, G(s, "_treatment_names"), G(s, "_treatment_doses"))])


def _init_post(a, ret, st):
    o = a.self
    n = a.sample_names.shape[0]
    k = z3.Int("k!ip")
    out = [("shape", z3.And(*screen_shape_wf(o))),
           ("stores", bool_all([o.fields.get("_sample_names") is a.sample_names, o.fields.get("plate_names") is a.plate_names,
                                o.fields.get("_treatment_names") is a.treatment_names, o.fields.get("_treatment_doses") is a.treatment_doses])),
           ("control_name", G(o, "control_treatment_name") == a.control_treatment_name)]
    obs, msk = G(o, "_observations"), G(o, "_observation_mask")
    if a.observations is not None:
        out.append(("stores_observations", bool_all([obs is a.observations])))
        if a.observation_mask is not None:
            out.append(("stores_mask", bool_all([msk is a.observation_mask])))
        else:
            out.append(("default_all_observed", z3.ForAll([k], z3.Implies(z3.And(k >= 0, k < n), z3.Select(msk.data, k)), patterns=[z3.Select(msk.data, k)])))
    else:
        from pyvc.lib.arrays import const_of
        out.append(("default_unobserved", z3.ForAll([k], z3.Implies(z3.And(k >= 0, k < n), z3.And(
            z3.Not(z3.Select(msk.data, k)), z3.Select(obs.data, k) == const_of(FS(), 0))), patterns=[z3.Select(msk.data, k)])))
    out.append(("plates", z3.And(*plate_consistency(o))))
    out.append(("plate_ids_canonical", canonical_plate_ids(o)))
    smn, smi = G(o, "_sample_mapping")
    out.append(("sample_ids_decode", decodes1(G(o, "_sample_ids"), a.sample_names, smn, smi)))
    pmn, pmi = G(o, "_plate_mapping")
    out.append(("plate_ids_decode", decodes1(G(o, "_plate_ids"), a.plate_names, pmn, pmi)))
    out.append(("treatment_ids_decode", treatment_decodes(o, a.treatment_names, a.treatment_doses)))
    out += [("mappings_wf", z3.And(*mapping_wf(o)))]
    if a.treatment_mapping is not None:
        out.append(("treatment_mapping_verbatim", bool_all([x is y for x, y in zip(G(o, "_treatment_mapping"), a.treatment_mapping)])))
    if a.sample_mapping is not None:
        out.append(("sample_mapping_verbatim", bool_all([x is y for x, y in zip(G(o, "_sample_mapping"), a.sample_mapping)])))
    return out


def bool_(b):
    return z3.BoolVal(bool(b))


def bool_all(xs):
    return z3.BoolVal(all(bool(x) for x in xs))


si._ensures = []
si.ensures("screen", _init_post)


def _plates_uniform_upto(s, upto):
    r, r2, k = z3.Int("r!pu"), z3.Int("r2!pu"), z3.Int("k!pu")
    n = s.sample_names.shape[0]
    pn, mk, u = s.plate_names.data, s.observation_mask.data, s.plate_names_unique.data
    return z3.ForAll([k, r, r2], z3.Implies(z3.And(k >= 0, k < upto, r >= 0, r < n, r2 >= 0, r2 < n,
                                                  z3.Select(pn, r) == z3.Select(u, k), z3.Select(pn, r2) == z3.Select(u, k)),
                                            z3.Select(mk, r) == z3.Select(mk, r2)))


si.loop("for#0", invariant=lambda s: [("uniform_so_far", _plates_uniform_upto(s, s.it))])


def _screen_init_apply2(i, a, node, fr):
    """Use of the (verified) constructor contract at a call site: preconditions become obligations, the raise condition
    and every ensures clause are exactly the ones proved for the body; pass-through columns keep their identity."""
    from pyvc.engine import PyRaise, ExcVal
    from pyvc.spec import named
    from pyvc.engine import _aslist
    ctx = i.ctx
    for x in (a.treatment_names, a.treatment_doses, a.sample_names, a.plate_names):
        if not isinstance(x, Arr):
            raise i_unsupported("Screen(...) with non-array argument", node)
    if a.treatment_names.ndim != 2 or a.treatment_doses.ndim != 2:
        raise PyRaise(ExcVal("ValueError"), node)
    if a.observations is None and a.observation_mask is not None:
        raise PyRaise(ExcVal("ValueError"), node)
    ln = getattr(node, "lineno", "?")
    for rq in si._requires:
        for nm, f in named(_aslist(rq(a)), "pre"):
            ctx.prove("%s/call:Screen.__init__:%s@%s" % (i._cur_label, nm, ln), f, node, "call")
    if ctx.decide(z3.Or(_init_raises(a), to_int(a.treatment_names.shape[1]) != to_int(a.treatment_doses.shape[1]))):
        raise PyRaise(ExcVal("ValueError"), node)
    o = a.self
    f = o.fields
    n = a.sample_names.shape[0]
    f["control_treatment_name"] = a.control_treatment_name if not isinstance(a.control_treatment_name, str) else _strc(a.control_treatment_name)
    f["_sample_names"], f["plate_names"] = a.sample_names, a.plate_names
    f["_treatment_names"], f["_treatment_doses"] = a.treatment_names, a.treatment_doses
    _ar = a.treatment_names.shape[1]
    if not isinstance(_ar, int) and z3.is_int_value(z3.simplify(to_int(_ar))):
        _ar = z3.simplify(to_int(_ar)).as_long()
    fresh = screen_fields(_ar if isinstance(_ar, int) else None)
    if a.observations is not None:
        f["_observations"] = a.observations
        f["_observation_mask"] = a.observation_mask if a.observation_mask is not None else fresh["_observation_mask"].fresh(ctx, "new.mask")
    else:
        f["_observations"] = fresh["_observations"].fresh(ctx, "new.obs")
        f["_observation_mask"] = fresh["_observation_mask"].fresh(ctx, "new.mask")
    for nm in ("_treatment_ids", "_sample_ids", "_plate_ids", "_sample_mapping", "_plate_mapping", "_treatment_mapping"):
        f[nm] = fresh[nm].fresh(ctx, "new." + nm)
    if a.treatment_mapping is not None:
        f["_treatment_mapping"] = a.treatment_mapping
    if a.sample_mapping is not None:
        f["_sample_mapping"] = a.sample_mapping
    for k_, v_ in f.items():
        for x in (v_ if isinstance(v_, tuple) else (v_,)):
            if hasattr(x, "origin") and x.origin == "unknown" and k_ in ("_treatment_ids", "_sample_ids", "_plate_ids", "_plate_mapping"):
                x.origin = "fresh"
    ns = NS(dict(object.__getattribute__(a, "_d"), **{"control_treatment_name": f["control_treatment_name"]}), "argument")
    for nm, g in _init_post(ns, None, i):
        ctx.assume(g)
    return None


si.apply = _screen_init_apply2
