"""C15 — combination unranking.  Carriers: generate_combination_at_sorted_index (generator, body proved with
loop invariants), get_combination_at_sorted_index."""
import z3
from pyvc.spec import contract, TInt, TNat, TSeq, NS
from pyvc.values import Int, to_z3
from pyvc.lib.misc import C
from .lemmas import *  # noqa

IntArr = z3.ArraySort(Int, Int)
# combinadic rank of the first m yielded entries: crank(ys,k0,m) = sum_{t<m} C(ys[t], k0-t)
crank = z3.Function("crank", IntArr, Int, Int, Int)


def crank_unfold(ys, k0, m):
    """definition (instantiated explicitly)"""
    return z3.And(crank(ys, k0, 0) == 0,
                  z3.Implies(m >= 0, crank(ys, k0, m + 1) == crank(ys, k0, m) + C(z3.Select(ys, m), k0 - m)))


def crank_frame(ys, ys2, k0, m):
    """crank depends only on the prefix ys[0..m) (lemma proved by SMT induction, see props/C15)."""
    t = z3.Int("t!cf")
    return z3.Implies(z3.And(m >= 0, z3.ForAll([t], z3.Implies(z3.And(t >= 0, t < m), z3.Select(ys, t) == z3.Select(ys2, t)))),
                      crank(ys, k0, m) == crank(ys2, k0, m))


Q = "batchie.scoring.gaussian_dbal.generate_combination_at_sorted_index"
g = contract(Q, params=[("index", TInt), ("n", TInt), ("k", TInt)], kind="generator", returns=TSeq(TInt))
g.yields = TInt
g.requires(lambda a: [a.k >= 0, a.n >= 0, a.index >= 0, a.index < C(a.n, a.k)])
g.use(lambda a: [C_zero(a.n, a.k)])


def _post(a, ret, st):
    t = z3.Int("t!post")
    ys = ret.cols
    return [
        ("length", ret.length == a.k),
        ("below_n", z3.Implies(a.k > 0, z3.Select(ys, 0) < a.n)),
        ("nonneg", z3.Implies(a.k > 0, z3.Select(ys, a.k - 1) >= 0)),
        ("descending", z3.ForAll([t], z3.Implies(z3.And(t >= 0, t < a.k - 1), z3.Select(ys, t) > z3.Select(ys, t + 1)))),
        ("rank", a.index == crank(ys, a.k, a.k)),
    ]


g.ensures("unrank", _post)

# for#0: n_ck accumulates C(n, it)
g.loop("for#0",
       invariant=lambda s: [("nck", s.n_ck == C(s.n, s.it))],
       use=lambda s: [C_n0(s.n), succ_right(s.n, s.it), div_exact(C(s.n, s.it + 1), s.it + 1), C_zero(s.n, s.old.k)])


def _outer_inv(s):
    k0, n0 = s.old.k, s.old.n
    kk = k0 - s.it
    ys = s.yielded.cols
    t = z3.Int("t!oi")
    return [
        ("len", s.yielded.length == s.it),
        ("nck", s.n_ck == C(s.n, kk)),
        ("off", s.current_index - s.n_ck == crank(ys, k0, s.it)),
        ("lo", crank(ys, k0, s.it) <= s.index),
        ("hi", s.index < s.current_index),
        ("n_ge_k", s.n >= kk),
        ("n_le_n0", s.n <= n0),
        ("last", z3.Implies(s.it > 0, z3.And(z3.Select(ys, s.it - 1) == s.n, z3.Select(ys, 0) < n0))),
        ("desc", z3.ForAll([t], z3.Implies(z3.And(t >= 0, t < s.it - 1), z3.Select(ys, t) > z3.Select(ys, t + 1)))),
    ]


def _outer_use(s):
    k0 = s.old.k
    kk = k0 - s.it
    ys = s.yielded.cols
    return [absorb(s.n, kk), div_exact(C(s.n - 1, kk - 1), s.n), C_n0(s.n), C_zero(s.n, kk), C_nonneg(s.n, kk),
            crank_unfold(ys, k0, s.it), crank_unfold(ys, k0, s.it - 1)]


g.loop("for#1", invariant=_outer_inv, use=_outer_use)


def _inner_inv(s):
    k0 = s.old.k
    # the loop variable k of for#1 is live here; ghost offset = rank of what has been yielded so far
    off = crank(s.yielded.cols, k0, s.yielded.length)
    return [
        ("nck", s.n_ck == C(s.n - 1, s.k - 1)),
        ("cur", s.current_index == off + C(s.n, s.k)),
        ("lo", off <= s.index),
        ("hi", s.index < s.current_index),
        ("n_ge_k", s.n >= s.k),
        ("n_le_pre", s.n <= s.pre.n),
    ]


def _inner_use(s):
    n, k = s.n, s.k
    ys = s.yielded.cols
    k0 = s.old.k
    L = s.yielded.length
    ys2 = z3.Store(ys, L, n - 1)
    return [pascal(n, k), pascal(n - 1, k), absorb(n - 1, k), mul_succ(n - 2, k - 1), C_zero(n - 1, k),
            C_nonneg(n - 1, k), C_nonneg(n - 1, k - 1), C_pos(n - 1, k),
            div_eq(s.n_ck * (n - k), k, C(n - 1, k)), div_eq(s.n_ck * (n - k), n - 1, C(n - 2, k - 1)),
            div_eq(k * C(n - 1, k), n - 1, C(n - 2, k - 1)),
            crank_unfold(ys2, k0, L), crank_frame(ys, ys2, k0, L)]


g.loop("while#0", invariant=_inner_inv, use=_inner_use, decreases=lambda s: s.n)

# ---- wrapper
Q2 = "batchie.scoring.gaussian_dbal.get_combination_at_sorted_index"
w = contract(Q2, params=[("index", TInt), ("n", TInt), ("k", TInt)], returns=None)
w.requires(lambda a: [a.k >= 0, a.n >= 0, a.index >= 0, a.index < C(a.n, a.k)])
w.ensures("unrank", lambda a, ret, st: _post(a, ret.seq, st))


# ---- the DBAL call site: a REGION of dbal_fast_gauss_scoring_vectorized (shape unpacking .. the draw of the combination indices)
import ast as _ast
from pyvc.lib.np_core import TShaped
from pyvc.lib.rng import TGenerator
from pyvc.lib.arrays import Arr

DB = "batchie.scoring.gaussian_dbal.dbal_fast_gauss_scoring_vectorized"


def _assigns(names):
    """top-level statement that assigns exactly these names (directly, or in every branch of an if/else)"""
    def direct(st):
        if not isinstance(st, _ast.Assign) or len(st.targets) != 1:
            return False
        t = st.targets[0]
        got = [t.id] if isinstance(t, _ast.Name) else [e.id for e in t.elts if isinstance(e, _ast.Name)] if isinstance(t, _ast.Tuple) else []
        return got == names

    def f(st):
        return direct(st) or (isinstance(st, (_ast.If, _ast.With, _ast.Try)) and any(direct(x) for x in _ast.walk(st)))
    return f


cs = contract(DB + "@draw", params=[("predictions", TShaped(3)), ("max_combos", TInt), ("rng", TGenerator())])
cs.region = (_assigns(["n_plates", "n_thetas", "max_experiments_per_plate"]), _assigns(["unpacked_indices"]))
cs.requires(lambda a: [a.max_combos >= 0])
cs.raises("ValueError", lambda a: C(a.predictions.shape[1], 3) == 0)
cs.use(lambda a: [C_nonneg(a.predictions.shape[1], 3)])


def _cs_post(a, ret, st):
    u = st._cur_frame.locals.get("unpacked_indices")
    n = a.predictions.shape[1]
    if not isinstance(u, Arr) or u.ndim != 1:
        return [("indices_are_a_vector", z3.BoolVal(False))]
    k, k2 = z3.Ints("k!cs k2!cs")
    N = C(n, 3)
    return [("one_index_per_budgeted_triple", u.shape[0] == z3.If(N < a.max_combos, N, a.max_combos)),
            ("indices_in_range", z3.ForAll([k], z3.Implies(z3.And(k >= 0, k < u.shape[0]), z3.And(z3.Select(u.data, k) >= 0, z3.Select(u.data, k) < N)), patterns=[z3.Select(u.data, k)])),
            ("indices_pairwise_distinct", z3.ForAll([k, k2], z3.Implies(z3.And(k >= 0, k < k2, k2 < u.shape[0]), z3.Select(u.data, k) != z3.Select(u.data, k2)),
                                                    patterns=[z3.MultiPattern(z3.Select(u.data, k), z3.Select(u.data, k2))]))]


cs.ensures("draw", _cs_post)
