"""C14 — subset / plate views are exact row selections with set-algebra semantics."""
import z3
from pyvc.spec import contract, TObj, TAObj, TTuple, TStr, TInt, TBool, TSeq, TRef, TNone, TClass, NS
from pyvc.values import Int, Bool, Real, Str, Val, Obj, AObj, SymList, Seq
from pyvc.lib.arrays import TArr, Arr, rank, idx
from .screen import *  # noqa

T_scr = TAObj("Screen")


def T_view(cls=SUBSET):
    """a view object over the abstract parent screen `screen` (extra ghost parameter)"""
    return TObj(cls, fields={"screen": TRef("screen"), "selection_vector": TArr(Bool)})


def view_req(a, who="self"):
    v = getattr(a, who)
    return screen_shape_wf(a.screen) + [v.selection_vector.shape[0] == nrows(a.screen)]


def untouched_view(v, old):
    return z3.And(same_array(v.selection_vector, old.selection_vector), bool_(v.screen is not None))


def bool_(b):
    return z3.BoolVal(bool(b))


# ---- ScreenSubset.__init__
c = contract(SUBSET + ".__init__", params=[("self", TObj(SUBSET)), ("screen", T_scr), ("selection_vector", TArr(Bool))])
c.variants = [("bool_vector", c.params), ("int_vector", [("self", TObj(SUBSET)), ("screen", T_scr), ("selection_vector", TArr(Int))])]
c.inline = True  # three-line body: callers execute it instead of using the contract
c.requires(lambda a: screen_shape_wf(a.screen))
c.raises("ValueError", lambda a: z3.Or(bool_(a.selection_vector.elem_sort != Bool), a.selection_vector.shape[0] != nrows(a.screen)))
c.ensures("stores", lambda a, ret, st: [("screen", bool_(a.self.fields.get("screen") is a.screen)),
                                        ("vector_by_reference", bool_(a.self.fields.get("selection_vector") is a.selection_vector))])

# ---- the ten per-experiment getters: parent's column at the selected rows, in parent order
for pub, priv in PUBLIC.items():
    if pub == "plate_names":
        continue
    g = contract(SUBSET + "." + pub, params=[("screen", T_scr), ("self", T_view())], returns=None)
    g.requires(view_req)
    g.ensures("selection", (lambda a, ret, st, _p=priv: [
        ("rows", selected(ret, G(a.screen, _p), a.self.selection_vector, nrows(a.screen))),
        ("view_untouched", same_array(a.self.selection_vector, a.old.self.selection_vector))]))

# ---- invert / combine
iv = contract(SUBSET + ".invert", params=[("screen", T_scr), ("self", T_view())])
iv.requires(view_req)


def _pointwise(res_vec, n, f):
    k = z3.Int("k!pw")
    return z3.And(res_vec.shape[0] == n, z3.ForAll([k], z3.Implies(z3.And(k >= 0, k < n), z3.Select(res_vec.data, k) == f(k)),
                                                    patterns=[z3.Select(res_vec.data, k)]))


iv.ensures("complement", lambda a, ret, st: [
    ("is_plate", bool_(isinstance(ret, Obj) and ret.cls.qualname == PLATE)),
    ("same_parent", bool_(ret.fields["screen"] is a.screen)),
    ("vector", _pointwise(ret.fields["selection_vector"], nrows(a.screen), lambda k: z3.Not(z3.Select(a.self.selection_vector.data, k)))),
    ("operand_untouched", same_array(a.self.selection_vector, a.old.self.selection_vector))])

cb = contract(SUBSET + ".combine", params=[("screen", T_scr), ("self", T_view()),
                                           ("other", TObj(SUBSET, fields={"screen": TAObj("Screen"), "selection_vector": TArr(Bool)}))])
cb.requires(lambda a: view_req(a) + [a.other.selection_vector.shape[0] == nrows(a.other.fields["screen"])] + screen_shape_wf(a.other.fields["screen"]))
cb.raises("ValueError", lambda a: a.other.fields["screen"].term != a.screen.term)
cb.ensures("union", lambda a, ret, st: [
    ("same_parent", bool_(ret.fields["screen"] is a.screen)),
    ("vector", _pointwise(ret.fields["selection_vector"], nrows(a.screen),
                          lambda k: z3.Or(z3.Select(a.self.selection_vector.data, k), z3.Select(a.other.selection_vector.data, k)))),
    ("operands_untouched", z3.And(same_array(a.self.selection_vector, a.old.self.selection_vector),
                                  same_array(a.other.selection_vector, a.old.other.selection_vector)))])

# ---- subset of a subset: composes, never touches the outer view
sb = contract(SUBSET + ".subset", params=[("screen", T_scr), ("self", T_view()), ("selection_vector", TArr(Bool))])
sb.variants = [("bool_vector", sb.params), ("int_vector", sb.params[:2] + [("selection_vector", TArr(Int))])]
sb.requires(view_req)
sb.raises("ValueError", lambda a: z3.Or(bool_(a.selection_vector.elem_sort != Bool),
                                        a.selection_vector.shape[0] != rank(a.self.selection_vector.data, nrows(a.screen))))
sb.ensures("compose", lambda a, ret, st: [
    ("same_parent", bool_(ret.fields["screen"] is a.screen)),
    ("new_vector_object", bool_(ret.fields["selection_vector"] is not a.self.selection_vector)),
    ("vector", _pointwise(ret.fields["selection_vector"], nrows(a.screen),
                          lambda k: z3.And(z3.Select(a.self.selection_vector.data, k),
                                           z3.Select(a.selection_vector.data, rank(a.self.selection_vector.data, k))))),
    ("outer_view_untouched", same_array(a.self.selection_vector, a.old.self.selection_vector))])

# ---- Screen.subset / subset_observed / subset_unobserved / get_plate
ss = contract(SCREEN + ".subset", params=[("self", T_scr), ("selection_vector", TArr(Bool))])
ss.requires(lambda a: screen_shape_wf(a.self))
ss.raises("ValueError", lambda a: a.selection_vector.shape[0] != nrows(a.self))
ss.ensures("view", lambda a, ret, st: [("parent", bool_(ret.fields["screen"] is a.self)),
                                       ("vector", bool_(ret.fields["selection_vector"] is a.selection_vector))])

for nm, neg in (("subset_observed", False), ("subset_unobserved", True)):
    so = contract(SCREEN + "." + nm, params=[("self", T_scr)])
    so.requires(lambda a: screen_shape_wf(a.self))

    def _so_post(a, ret, st, _neg=neg):
        m = G(a.self, "_observation_mask")
        n = nrows(a.self)
        k = z3.Int("k!so")
        want = (lambda t: z3.Not(z3.Select(m.data, t))) if _neg else (lambda t: z3.Select(m.data, t))
        some = z3.Exists([k], z3.And(k >= 0, k < n, want(k)))
        if ret is None:
            return [("none_iff_empty", z3.Not(some))]
        return [("none_iff_empty", some), ("parent", bool_(ret.fields["screen"] is a.self)),
                ("vector", _pointwise(ret.fields["selection_vector"], n, want))]
    so.ensures("split_by_mask", _so_post)

gp = contract(SCREEN + ".get_plate", params=[("self", T_scr), ("plate_id", TInt)])
gp.requires(lambda a: screen_shape_wf(a.self))
def same_obj(x, y):
    if isinstance(x, AObj) and isinstance(y, AObj):
        return x.term == y.term
    return bool_(x is y)


def is_class(o, qual):
    if isinstance(o, AObj):
        from pyvc.spec import CLASS_QUAL
        return bool_(CLASS_QUAL.get(o.clsname) == qual)
    return bool_(o.cls.qualname == qual)


gp.ensures("plate", lambda a, ret, st: [
    ("is_plate", is_class(ret, PLATE)), ("parent", same_obj(G(ret, "screen"), a.self)),
    ("vector", _pointwise(G(ret, "selection_vector"), nrows(a.self), lambda k: z3.Select(G(a.self, "_plate_ids").data, k) == a.plate_id))])
gp.elem_returns = TAObj("Plate")

# ---- Screen.plates: one Plate per distinct plate id, ascending, together covering every row
pl = contract(SCREEN + ".plates", params=[("self", T_scr)])
pl.requires(lambda a: screen_shape_wf(a.self))


is_plate_view = z3.Function("is_single_plate_view", Ref_ := __import__("pyvc.values", fromlist=["Ref"]).Ref, z3.BoolSort())


def plate_view_definition():
    """hidden definition of the opaque predicate (revealed only where it is established or consumed)"""
    t = z3.Const("t!ipv", Ref_)
    p = AObj("Plate", t)
    return z3.ForAll([t], is_plate_view(t) == single_plate_view(G(p, "screen"), p), patterns=[is_plate_view(t)])


def single_plate_view(scr, p):
    """exactly the shape of the precondition of the Plate.plate_id summary (contracts/c06.one_plate)"""
    n = nrows(scr)
    sel, pids = G(p, "selection_vector"), G(G(p, "screen"), "_plate_ids")
    r, r2 = z3.Int("r!op"), z3.Int("r2!op")
    return z3.And(sel.shape[0] == nrows(G(p, "screen")), z3.Exists([r], z3.And(r >= 0, r < nrows(G(p, "screen")), z3.Select(sel.data, r))),
                  z3.ForAll([r, r2], z3.Implies(z3.And(r >= 0, r < nrows(G(p, "screen")), r2 >= 0, r2 < nrows(G(p, "screen")), z3.Select(sel.data, r), z3.Select(sel.data, r2)),
                                                z3.Select(pids.data, r) == z3.Select(pids.data, r2))))


def plates_post(scr, plates_seq):
    k, k2, r, r2 = z3.Int("k!pl"), z3.Int("k2!pl"), z3.Int("r!pl"), z3.Int("r2!pl")
    L, n = plates_seq.length, nrows(scr)
    pid = lambda t: z3.Select(G(scr, "_plate_ids").data, t)  # noqa
    sv = lambda kk, t: z3.Select(G(AObj("Plate", z3.Select(plates_seq.cols, kk)), "selection_vector").data, t)  # noqa
    inr = lambda t: z3.And(t >= 0, t < n)  # noqa
    ink = lambda t: z3.And(t >= 0, t < L)  # noqa
    return [
        ("parent", z3.ForAll([k], z3.Implies(ink(k), z3.And(
            same_obj(G(AObj("Plate", z3.Select(plates_seq.cols, k)), "screen"), scr),
            G(AObj("Plate", z3.Select(plates_seq.cols, k)), "selection_vector").shape[0] == n)), patterns=[z3.Select(plates_seq.cols, k)])),
        ("non_empty", z3.ForAll([k], z3.Implies(ink(k), z3.Exists([r], z3.And(inr(r), sv(k, r)))), patterns=[z3.Select(plates_seq.cols, k)])),
        ("single_plate_views", z3.ForAll([k], z3.Implies(ink(k), is_plate_view(z3.Select(plates_seq.cols, k))),
                                         patterns=[z3.Select(plates_seq.cols, k)])),
        ("one_plate_each", z3.ForAll([k, r, r2], z3.Implies(z3.And(ink(k), inr(r), inr(r2), sv(k, r)), sv(k, r2) == (pid(r) == pid(r2))))),
        ("covers_rows", z3.ForAll([r], z3.Implies(inr(r), z3.Exists([k], z3.And(ink(k), sv(k, r)))), patterns=[pid(r)])),
        ("ascending_ids", z3.ForAll([k, k2, r, r2], z3.Implies(z3.And(ink(k), ink(k2), k < k2, inr(r), inr(r2), sv(k, r), sv(k2, r2)), pid(r) < pid(r2)))),
    ]


pl.use(lambda a: [plate_view_definition()])
pl.ensures("plates", lambda a, ret, st: plates_post(a.self, ret.seq))

# ---- Plate.plate_id / plate_name
pi = contract(PLATE + ".plate_id", params=[("screen", T_scr), ("self", T_view(PLATE))], returns=TInt)
pi.requires(view_req)


def _sel_ids(a):
    return a.self.selection_vector.data, G(a.screen, "_plate_ids").data, nrows(a.screen)


def _one_plate(a):
    m, p, n = _sel_ids(a)
    k, k2 = z3.Int("k!op"), z3.Int("k2!op")
    return z3.And(z3.Exists([k], z3.And(k >= 0, k < n, z3.Select(m, k))),
                  z3.ForAll([k, k2], z3.Implies(z3.And(k >= 0, k < n, k2 >= 0, k2 < n, z3.Select(m, k), z3.Select(m, k2)),
                                                z3.Select(p, k) == z3.Select(p, k2))))


pi.raises("ValueError", lambda a: z3.Not(_one_plate(a)))
pi.ensures("the_id", lambda a, ret, st: [("id", z3.ForAll([z3.Int("k!pid")], z3.Implies(
    z3.And(z3.Int("k!pid") >= 0, z3.Int("k!pid") < nrows(a.screen), z3.Select(a.self.selection_vector.data, z3.Int("k!pid"))),
    z3.Select(G(a.screen, "_plate_ids").data, z3.Int("k!pid")) == ret)))])

pn = contract(PLATE + ".plate_name", params=[("screen", T_scr), ("self", T_view(PLATE))], returns=TStr)
pn.requires(lambda a: view_req(a) + [rank(a.self.selection_vector.data, nrows(a.screen)) >= 1])
pn.ensures("first_selected", lambda a, ret, st: [
    ("name", ret == z3.Select(G(a.screen, "plate_names").data, idx(a.self.selection_vector.data, nrows(a.screen), 0)))])


# All view operations are a few lines each: at call sites they are executed (inlined) rather than replaced by their
# contract; each is still verified on its own against the contract above.
from pyvc.spec import REGISTRY as _R  # noqa
for _q, _c in list(_R.items()):
    if _q.startswith("batchie.data.") and _c.apply is None and not _c.trusted:
        _c.inline = True

# ---- concat over a symbolic-length list of views
T_views = TSeq(TAObj("ScreenSubset"))
ct_ = contract(SUBSET + ".concat", params=[("cls", TClass(SUBSET)), ("screen_subsets", T_views)])


def _v(a, k):
    return AObj("ScreenSubset", z3.Select(a.screen_subsets.seq.cols, k))


def _views_wf(a):
    m = z3.Int("m!vw")
    L = a.screen_subsets.seq.length
    out = []
    for f in screen_shape_wf(G(_v(a, m), "screen")) + [G(_v(a, m), "selection_vector").shape[0] == nrows(G(_v(a, m), "screen"))]:
        out.append(z3.ForAll([m], z3.Implies(z3.And(m >= 0, m < L), f), patterns=[z3.Select(a.screen_subsets.seq.cols, m)]))
    return out


ct_.requires(_views_wf)


def _other_parent(a):
    m = z3.Int("m!op")
    L = a.screen_subsets.seq.length
    return z3.Exists([m], z3.And(m >= 0, m < L, G(_v(a, m), "screen").term != G(_v(a, 0), "screen").term))


ct_.raises("ValueError", lambda a: z3.Or(a.screen_subsets.seq.length == 0, z3.And(a.screen_subsets.seq.length >= 2, _other_parent(a))))


def _union_upto(a, vec, upto):
    k, m = z3.Int("k!un"), z3.Int("m!un")
    n = nrows(G(_v(a, 0), "screen"))
    return z3.And(vec.shape[0] == n, z3.ForAll([k], z3.Implies(z3.And(k >= 0, k < n), z3.Select(vec.data, k) == z3.Exists(
        [m], z3.And(m >= 0, m < upto, z3.Select(G(_v(a, m), "selection_vector").data, k)))), patterns=[z3.Select(vec.data, k)]))


def _ct_post(a, ret, st):
    L = a.screen_subsets.seq.length
    if isinstance(ret, AObj):
        return [("single", z3.And(L == 1, ret.term == _v(a, 0).term))]
    return [("many", L >= 2), ("is_plate", bool_(ret.cls.qualname == PLATE)),
            ("parent", G(ret, "screen").term == G(_v(a, 0), "screen").term),
            ("union", _union_upto(a, ret.fields["selection_vector"], L))]


ct_.ensures("union", _ct_post)
from pyvc.spec import TOpt  # noqa


def _ct_inv(s):
    a = s
    sv = s.selection_vector
    m = z3.Int("m!ci")
    none = sv.isnone if hasattr(sv, "isnone") else bool_(sv is None)
    val = sv.val if hasattr(sv, "val") else sv
    out = [("none_iff_first", none == (s.it == 0)),
           ("same_parent_so_far", z3.ForAll([m], z3.Implies(z3.And(m >= 0, m < s.it), G(_v(a, m), "screen").term == G(_v(a, 0), "screen").term),
                                            patterns=[z3.Select(a.screen_subsets.seq.cols, m)]))]
    if val is not None:
        out.append(("union_so_far", z3.Implies(z3.Not(none), _union_upto(a, val, s.it))))
    return out


ct_.loop("for#0", invariant=_ct_inv, types={"selection_vector": TOpt(TArr(Bool))})
ct_.inline = True

# ---- to_screen: same rows, same order, same control name
from pyvc.spec import TPyList  # noqa
ts = contract(SUBSET + ".to_screen", params=[("screen", T_scr), ("self", T_view())])
ts.requires(lambda a: view_req(a) + plate_consistency(a.screen))
ts.ensures("materialise", lambda a, ret, st: [
    (pub, selected(G(ret, priv), G(a.screen, priv), a.self.selection_vector, nrows(a.screen)))
    for pub, priv in PUBLIC.items() if pub not in ("plate_ids", "sample_ids", "treatment_ids")] + [
    ("control_name", G(ret, "control_treatment_name") == G(a.screen, "control_treatment_name")),
    ("view_untouched", same_array(a.self.selection_vector, a.old.self.selection_vector))])

# ---- select_unique_zipped_numpy_arrays: exactly one representative per distinct tuple
SU = "batchie.common.select_unique_zipped_numpy_arrays"
su = contract(SU, params=[("arrs", TPyList(TArr(Int), TArr(Int)))], returns=TArr(Bool))
su.variants = [("%d_arrays" % k, [("arrs", TPyList(*[TArr(Int)] * k))]) for k in (2, 3, 4)]
su.raises("ValueError", lambda a: z3.Or(*[x.shape[0] != a.arrs.items[0].shape[0] for x in a.arrs.items[1:]]))


from pyvc.spec import Forall  # noqa


def unique_rows_mask(u, cols, n, st=None):
    """u selects exactly one row per distinct tuple of (cols[0][r], cols[1][r], ...)"""
    r, r2 = z3.Int("r!ur"), z3.Int("r2!ur")

    def hints(r0):
        out = []
        if st is not None:
            for rec in st.ctx.ghost.get("unique_rows", []):
                out += [rec["rpos"](r0), z3.Select(rec["first"], rec["rpos"](r0)), z3.Select(rec["src"].data, r0)]
        return out
    same = lambda x, y: z3.And(*[z3.Select(c.data, x) == z3.Select(c.data, y) for c in cols])  # noqa
    inr = lambda t: z3.And(t >= 0, t < n)  # noqa
    return [("length", u.shape[0] == n),
            ("representatives_distinct", z3.ForAll([r, r2], z3.Implies(z3.And(inr(r), inr(r2), r < r2, z3.Select(u.data, r), z3.Select(u.data, r2)),
                                                                       z3.Not(same(r, r2))))),
            ("every_tuple_represented", Forall([("r!ur", Int)], lambda rr: z3.Implies(inr(rr), z3.Exists([r2], z3.And(inr(r2), z3.Select(u.data, r2), same(rr, r2)))),
                                               patterns=lambda rr: [z3.Select(cols[0].data, rr)], hints=hints))]


su.ensures("unique", lambda a, ret, st: unique_rows_mask(ret, a.arrs.items, a.arrs.items[0].shape[0], st))

# ---- filter_dataset_to_unique_treatments on a whole screen (arity 1..3) and on a view
FU = "batchie.data.filter_dataset_to_unique_treatments"
fu = contract(FU, params=[("screen", T_screen(2))])
fu.variants = [("screen_arity%d" % k, [("screen", T_screen(k))]) for k in (1, 2, 3)]
fu.requires(lambda a: screen_shape_wf(a.screen))


def _cond_cols(scr):
    tid = G(scr, "_treatment_ids")
    ar = tid.shape[1]
    cols = [G(scr, "_sample_ids")]
    for c in range(ar):
        cols.append(_Col(tid, c))
    return cols


class _Col:
    """column c of a 2-D array, as a 1-D accessor with .data[k] semantics"""

    def __init__(self, arr2, c):
        k = z3.Int("k!col")
        self.data = z3.Lambda([k], z3.Select(z3.Select(arr2.data, k), c))


fu.ensures("one_per_condition", lambda a, ret, st: [("parent", same_obj(G(ret, "screen"), a.screen))] +
           unique_rows_mask(G(ret, "selection_vector"), _cond_cols(a.screen), nrows(a.screen)))

# ---- the same filter applied to a VIEW (score_chunk conditions each candidate on the batch this way): the result selects, among the rows of the
# view, exactly one row per distinct (sample id, treatment ids) tuple; it is a new view of the same parent and the operand is untouched
fv = contract(FU + "@view", params=[("parent", T_scr), ("screen", TObj(SUBSET, fields={"screen": TRef("parent"), "selection_vector": TArr(Bool)}))])
fv.variants = [("view_arity%d" % k, [("parent", T_screen(k)), ("screen", TObj(SUBSET, fields={"screen": TRef("parent"), "selection_vector": TArr(Bool)}))]) for k in (1, 2, 3)]
fv.requires(lambda a: screen_shape_wf(a.parent) + [a.screen.selection_vector.shape[0] == nrows(a.parent)])


def _fv_post(a, ret, st):
    n = nrows(a.parent)
    s, res = a.old.screen.selection_vector, ret.fields["selection_vector"]
    cols = _cond_cols(a.parent)
    r, r2 = z3.Int("r!fv"), z3.Int("r2!fv")
    same = lambda x, y: z3.And(*[z3.Select(c.data, x) == z3.Select(c.data, y) for c in cols])  # noqa
    inr = lambda t: z3.And(t >= 0, t < n)  # noqa
    return [("same_parent", bool_(ret.fields["screen"] is a.parent)),
            ("length", res.shape[0] == n),
            ("inside_the_view", z3.ForAll([r], z3.Implies(z3.And(inr(r), z3.Select(res.data, r)), z3.Select(s.data, r)), patterns=[z3.Select(res.data, r)])),
            ("representatives_distinct", z3.ForAll([r, r2], z3.Implies(z3.And(inr(r), inr(r2), r < r2, z3.Select(res.data, r), z3.Select(res.data, r2)), z3.Not(same(r, r2))))),
            ("every_condition_of_the_view_represented", Forall([("r!fw", Int)], lambda rr: z3.Implies(z3.And(inr(rr), z3.Select(s.data, rr)), z3.Exists([r2], z3.And(
                inr(r2), z3.Select(res.data, r2), same(rr, r2)))), patterns=lambda rr: [z3.Select(s.data, rr)])),
            ("operand_untouched", same_array(a.screen.selection_vector, a.old.screen.selection_vector))]


fv.ensures("one_per_condition_of_the_view", _fv_post)

# (contracts defined after the first loop above: same policy)
for _q, _c in list(_R.items()):
    if _q.startswith("batchie.data.") and _c.apply is None and not _c.trusted:
        _c.inline = True
