"""C17 — sampling.sample follows the burn-in / thinning schedule; generator depends only on
(seed, n_chains, chain_index).  The model is an arbitrary MCMCModel/VIModel: its methods are abstract
contracts over ghost state (steps counter, rng token, reset/rng flags)."""
import z3
from pyvc.spec import (contract, synthetic_class, TInt, TNat, TBool, TSeq, TObj, TAObj, TNone, TConst, Type, NS)
from pyvc.values import Int, Ref, Obj, SymList, Seq, AObj
from pyvc.lib.rng import GenTok, G_of_ss, SS_spawn, SS_of_seed, G_of_seed, Gen
from .lemmas import div_exact, Lemma

stamp = z3.Function("theta_stamp", Ref, Int)  # the step count at which a Theta token was exported

MCMC = synthetic_class("spec.AnyMCMCModel", ["batchie.core.MCMCModel", "batchie.core.BayesianModel"])
VI = synthetic_class("spec.AnyVIModel", ["batchie.core.VIModel", "batchie.core.BayesianModel"])
OTHER = synthetic_class("spec.NotAModel", [])


class TGen(Type):
    def fresh(self, ctx, name):
        return GenTok(ctx.fresh(name, Gen))


MODEL_FIELDS = dict(steps=TInt, was_reset=TBool, rng_set=TBool, rng=TGen(), sample_calls=TInt, asked=TInt,
                    resets=TInt)


def T_model(cls):
    return TObj(cls, ghost=MODEL_FIELDS)


# ---- abstract model contracts (ghost-state transitions). modifies_fields drives loop havoc.
c = contract("batchie.core.BayesianModel.reset_model", abstract=True)
c.modifies_fields = ["steps", "was_reset", "rng_set", "resets"]
def _reset(i, a, node, fr):
    m = a.self
    m.fields["steps"] = 0
    m.fields["was_reset"] = True
    m.fields["rng_set"] = False
    m.fields["resets"] = m.fields["resets"] + 1
    return None
c.apply = _reset

c = contract("batchie.core.BayesianModel.set_rng", abstract=True)
c.modifies_fields = ["rng", "rng_set"]
def _set_rng(i, a, node, fr):
    m = a.self
    m.fields["rng"] = a.rng
    m.fields["rng_set"] = True
    return None
c.apply = _set_rng

c = contract("batchie.core.MCMCModel.step", abstract=True)
c.modifies_fields = ["steps"]
def _step(i, a, node, fr):
    m = a.self
    i.ctx.prove("%s/call:step:reset_and_rng_before_step@%s" % (i._cur_label, getattr(node, "lineno", "?")),
                z3.And(_b(m.fields["was_reset"]), _b(m.fields["rng_set"])), node, "call")
    m.fields["steps"] = m.fields["steps"] + 1
    return None
c.apply = _step

c = contract("batchie.core.MCMCModel.get_model_state", abstract=True)
c.modifies_fields = []
def _state(i, a, node, fr):
    r = i.ctx.fresh("theta", Ref)
    i.ctx.assume(stamp(r) == a.self.fields["steps"])
    return AObj("Theta", r)
c.apply = _state

c = contract("batchie.core.VIModel.sample", abstract=True)
c.modifies_fields = ["sample_calls", "asked"]
def _vi_sample(i, a, node, fr):
    m = a.self
    n = a.num_samples
    m.fields["sample_calls"] = m.fields["sample_calls"] + 1
    m.fields["asked"] = n
    out = TSeq(TAObj("Theta")).fresh(i.ctx, "vi_samples")
    i.ctx.assume(out.seq.length == n)
    i.ctx.ghost["vi_samples"] = out.seq
    return out
c.apply = _vi_sample


def _b(x):
    return x if z3.is_expr(x) else z3.BoolVal(bool(x))


# ---- the carrier
T_results = TObj("batchie.core.ThetaHolder", fields={"_n_thetas": TNat, "thetas": TSeq(TAObj("Theta"))})

s = contract("batchie.sampling.sample")
base = [("model", T_model(MCMC)), ("results", T_results), ("seed", TInt), ("n_chains", TInt),
        ("chain_index", TInt), ("n_burnin", TInt), ("thin", TInt), ("progress_bar", TBool)]


def _with(**over):
    return [(n, over.get(n, t)) for n, t in base]


s.variants = [("mcmc", base)] + [("mcmc_%s_none" % p, _with(**{p: TNone})) for p in
                                 ("n_chains", "chain_index", "n_burnin", "thin")] + [
    ("vi", _with(model=T_model(VI), n_chains=TNone, chain_index=TNone, n_burnin=TNone, thin=TNone)),
    ("other", _with(model=TObj(OTHER)))]


def _is(a, cls):
    return a.model.cls.qualname == cls


def _req(a):
    r = [a.results.thetas.seq.length == 0, a.model.fields.get("steps", 0) >= 0 if _is(a, MCMC) or _is(a, VI) else True]
    if _is(a, MCMC) or _is(a, VI):
        r += [a.model.fields["sample_calls"] == 0, a.model.fields["resets"] == 0]
    if _is(a, MCMC):
        for p, c0 in (("n_chains", lambda v: v >= 1), ("n_burnin", lambda v: v >= 0), ("thin", lambda v: v >= 1)):
            v = getattr(a, p)
            if v is not None:
                r.append(c0(v))
        if a.chain_index is not None and a.n_chains is not None:
            r += [a.chain_index >= 0, a.chain_index < a.n_chains]
    return r


s.requires(_req)
s.raises("ValueError", lambda a: (_is(a, MCMC) and any(getattr(a, p) is None for p in
                                                       ("n_chains", "chain_index", "n_burnin", "thin")))
         or _is(a, OTHER))


def _post(a, ret, st):
    n = a.results.fields["_n_thetas"]
    th = a.results.fields["thetas"].seq
    out = [("returns_results", ret is a.results), ("n_unchanged", n == a.old.results._n_thetas),
           ("complete", th.length == n), ("reset_once", a.model.fields["resets"] == 1)]
    j = z3.Int("j!post")
    if _is(a, MCMC):
        b, t = a.n_burnin, a.thin
        out += [
            ("total_steps", a.model.fields["steps"] == b + n * t),
            ("recorded_at", z3.ForAll([j], z3.Implies(z3.And(j >= 0, j < n), stamp(z3.Select(th.cols, j)) == b + (j + 1) * t))),
            ("generator", a.model.fields["rng"].term == G_of_ss(SS_spawn(SS_of_seed(a.seed), 0, a.n_chains, a.chain_index))),
            ("rng_set", a.model.fields["rng_set"]),
        ]
    else:
        vs = a.ghost["vi_samples"]
        out += [
            ("asked_once", a.model.fields["sample_calls"] == 1),
            ("asked_n", a.model.fields["asked"] == n),
            ("samples_in_order", z3.ForAll([j], z3.Implies(z3.And(j >= 0, j < n), z3.Select(th.cols, j) == z3.Select(vs.cols, j)))),
            ("generator", a.model.fields["rng"].term == G_of_seed(a.seed)),
        ]
    return out


s.ensures("schedule", _post)

# burn-in loop
s.loop("for#0", invariant=lambda v: [
    ("steps", v.model.fields["steps"] == v.it),
    ("flags", z3.And(_b(v.model.fields["was_reset"]), _b(v.model.fields["rng_set"]))),
])

div_succ = Lemma(
    "div_succ", lambda i, t: z3.Implies(z3.And(i >= 0, t >= 1), z3.And(
        i == t * (i / t) + i % t, i % t >= 0, i % t < t,
        z3.If((i + 1) % t == 0, z3.And((i + 1) / t == i / t + 1, i + 1 == t * (i / t + 1)), (i + 1) / t == i / t))),
    "lean:Batchie.div_succ", "i>=0 & t>=1 -> Euclid for i; (i+1)%t=0 -> (i+1)/t = i/t+1 & i+1 = t*(i/t+1); else (i+1)/t = i/t")


def _main_inv(v):
    b, t = v.n_burnin, v.thin
    th = v.results.fields["thetas"].seq
    j = z3.Int("j!inv")
    return [
        ("steps", v.model.fields["steps"] == b + v.it),
        ("flags", z3.And(_b(v.model.fields["was_reset"]), _b(v.model.fields["rng_set"]))),
        ("count", th.length == v.it / t),
        ("recorded_at", z3.ForAll([j], z3.Implies(z3.And(j >= 0, j < th.length), stamp(z3.Select(th.cols, j)) == b + (j + 1) * t))),
    ]


s.loop("for#1", invariant=_main_inv,
       use=lambda v: [div_succ(v.it, v.thin), div_succ(v.it - 1, v.thin), div_exact(v.results.fields["_n_thetas"], v.thin)])

# VI loop
s.loop("for#2", invariant=lambda v: [
    ("count", v.results.fields["thetas"].seq.length == v.it),
    ("in_order", z3.ForAll([z3.Int("j!vi")], z3.Implies(z3.And(z3.Int("j!vi") >= 0, z3.Int("j!vi") < v.it),
                                                       z3.Select(v.results.fields["thetas"].seq.cols, z3.Int("j!vi")) ==
                                                       z3.Select(v.samples.seq.cols, z3.Int("j!vi"))))),
])


# ================================================================ cli/train_model.main: the CALL of sampling.sample (REGION): the schedule and seed arguments
# of the command line reach sampling.sample unchanged, together with the model that was given the observations and the holder sized --n-samples
import ast as _ast5
import z3 as _z3
from pyvc.spec import abstract_class as _abstract_class, TAObj as _TAObj, TInt as _TInt, TBool as _TBool, contract as _contract
from pyvc.values import AObj as _AObj
_abstract_class("TrainCliArgs", None, {"seed": _TInt, "n_chains": _TInt, "chain_index": _TInt, "n_burnin": _TInt, "thin": _TInt, "progress": _TBool})


def _sample_apply(i, a, node, fr):
    if not i._cur_label.split("[")[0].endswith("@sample_call"):
        return NotImplemented
    i.ctx.ghost["sample_call"] = a
    from pyvc.values import Ref as _Ref
    return _AObj("ThetaHolderTok", i.ctx.fresh("sampled", _Ref))


s.apply = _sample_apply

tc = _contract("batchie.cli.train_model.main@sample_call", params=[("model", _TAObj("ModelTok17")), ("samples_holder", _TAObj("ThetaHolderTok")), ("args", _TAObj("TrainCliArgs"))])
def _is_sample_call(st):
    v = getattr(st, "value", None)
    return isinstance(st, (_ast5.Assign, _ast5.AnnAssign)) and isinstance(v, _ast5.Call) and isinstance(v.func, _ast5.Attribute) and v.func.attr == "sample"


tc.region = (_is_sample_call, _is_sample_call)


def _tc_post(a, ret, st):
    c = st.ctx.ghost.get("sample_call")
    if c is None:
        return [("calls_sampling_sample", _z3.BoolVal(False))]
    from pyvc.spec import abstract_field_value, ABSTRACT_FIELDS
    fld = lambda f: abstract_field_value("TrainCliArgs", f, ABSTRACT_FIELDS["TrainCliArgs"][f], a.args.term, st)  # noqa
    same = lambda x, y: _z3.BoolVal(x is y or (hasattr(x, "term") and hasattr(y, "term") and x.term.eq(y.term)))  # noqa
    return [("hands_over_the_trained_model_and_the_sized_holder", _z3.And(same(c.model, a.model), same(c.results, a.samples_holder))),
            ("seed_and_chain_arguments_unchanged", _z3.And(c.seed == fld("seed"), c.n_chains == fld("n_chains"), c.chain_index == fld("chain_index"))),
            ("schedule_arguments_unchanged", _z3.And(c.n_burnin == fld("n_burnin"), c.thin == fld("thin")))]


tc.ensures("plumbing", _tc_post)
