"""C07 — pairwise-distance chunks: arithmetic of the chunk boundaries, the lower-triangular generator,
the ChunkedDistanceMatrix data structure and the end-to-end computation."""
import z3
from pyvc.spec import contract, TInt, TNat, TSeq, TTuple, Lemma, Type
from pyvc.values import Int, Seq, SymList

tri = z3.Function("tri", Int, Int)  # number of pairs i>j below n
row = z3.Function("row", Int, Int)  # inverse pairing: position p -> row index i with tri(i) <= p < tri(i+1)
IntArr = z3.ArraySort(Int, Int)
LT0 = z3.Function("LT_row", Int, IntArr)  # the canonical enumeration for dimension n (components)
LT1 = z3.Function("LT_col", Int, IntArr)


def tri_unfold(i):
    return z3.And(tri(0) == 0, z3.Implies(i >= 0, tri(i + 1) == tri(i) + i))


tri_closed = Lemma("tri_closed", lambda n: z3.Implies(n >= 0, z3.And(2 * tri(n) == n * (n - 1), tri(n) == (n * (n - 1)) / 2)),
                   "smt", "n>=0 -> tri(n) = n(n-1)/2   (SMT induction, props/C07)")
tri_mono = Lemma("tri_mono", lambda a, b: z3.Implies(z3.And(a >= 0, a < b), z3.And(tri(a + 1) <= tri(b), tri(a) <= tri(b))),
                 "smt", "0<=a<b -> tri(a+1) <= tri(b)   (SMT induction on b, props/C07)")


def row_def(p):
    """definition of the inverse pairing at position p (exists and is unique by tri_mono; see props/C07 lemma row_unique)"""
    return z3.Implies(p >= 0, z3.And(row(p) >= 1, tri(row(p)) <= p, p < tri(row(p) + 1)))


def row_is(p, i):
    """uniqueness instance: tri(i) <= p < tri(i+1) -> row(p) = i"""
    return z3.And(row_def(p), tri_mono(row(p), i), tri_mono(i, row(p)), tri_unfold(i), tri_unfold(row(p)))


# ---------------------------------------------------------------- lower_triangular_indices (generator)
Q1 = "batchie.distance_calculation.lower_triangular_indices"
g = contract(Q1, params=[("n", TInt)], kind="generator", returns=TSeq(TTuple(TInt, TInt)))
g.yields = TTuple(TInt, TInt)


def _lt_post(a, ret, st):
    p = z3.Int("p!lt")
    nn = z3.If(a.n > 0, a.n, 0)
    return [("length", ret.length == tri(nn)),
            ("by_position", z3.ForAll([p], z3.Implies(z3.And(p >= 0, p < ret.length),
                                                      z3.And(z3.Select(ret.cols[0], p) == row(p),
                                                             z3.Select(ret.cols[1], p) == p - tri(row(p)))),
                                      patterns=[z3.Select(ret.cols[0], p)]))]


g.ensures("enumeration", _lt_post)
g.use(lambda a: [tri_unfold(0)])


def _pos_inv(ys, upto):
    p = z3.Int("p!inv")
    return z3.ForAll([p], z3.Implies(z3.And(p >= 0, p < upto),
                                     z3.And(z3.Select(ys.cols[0], p) == row(p), z3.Select(ys.cols[1], p) == p - tri(row(p)))),
                     patterns=[z3.Select(ys.cols[0], p)])


g.loop("for#0", invariant=lambda s: [("len", s.yielded.length == tri(s.it)), ("pos", _pos_inv(s.yielded, s.yielded.length))],
       use=lambda s: [tri_unfold(s.it), tri_unfold(s.it - 1)])
g.loop("for#1", invariant=lambda s: [("len", s.yielded.length == tri(s.i) + s.it), ("pos", _pos_inv(s.yielded, s.yielded.length))],
       use=lambda s: [tri_unfold(s.i), row_is(tri(s.i) + s.it, s.i)])

# ---------------------------------------------------------------- get_number_of_lower_triangular_indices
Q2 = "batchie.distance_calculation.get_number_of_lower_triangular_indices"
c2 = contract(Q2, params=[("n", TInt)], returns=TInt)
c2.requires(lambda a: [a.n >= 0])
c2.use(lambda a: [tri_closed(a.n)])
c2.ensures("count", lambda a, ret, st: [("tri", ret == tri(a.n))])

# ---------------------------------------------------------------- get_lower_triangular_indices_chunk
Q3 = "batchie.distance_calculation.get_lower_triangular_indices_chunk"
c3 = contract(Q3, params=[("n", TInt), ("chunk_index", TInt), ("n_chunks", TInt)], returns=TSeq(TTuple(TInt, TInt)))
c3.requires(lambda a: [a.n >= 0, a.n_chunks >= 1, a.chunk_index >= 0])
c3.raises("AssertionError", lambda a: a.chunk_index >= a.n_chunks)
# chunk boundaries as spec functions (the numpy array_split convention: the first T % N sections are one longer)
cstart = z3.Function("cstart", Int, Int, Int, Int)  # (T, N, c)
cend = z3.Function("cend", Int, Int, Int, Int)


def chunk_def(T, N, c):
    q, r = T / N, T % N
    return z3.And(cstart(T, N, c) == c * q + z3.If(c < r, c, r),
                  cend(T, N, c) == (c + 1) * q + z3.If(c < r, c + 1, r))


def _chunk_post(a, ret, st):
    T = tri(a.n)
    s, e = cstart(T, a.n_chunks, a.chunk_index), cend(T, a.n_chunks, a.chunk_index)
    k = z3.Int("k!ch")
    R = ret.seq
    return [("bounds", z3.And(0 <= s, s <= e, e <= T)),
            ("length", R.length == e - s),
            ("elements", z3.ForAll([k], z3.Implies(z3.And(k >= 0, k < R.length),
                                                   z3.And(z3.Select(R.cols[0], k) == row(k + s),
                                                          z3.Select(R.cols[1], k) == (k + s) - tri(row(k + s)))),
                                   patterns=[z3.Select(R.cols[0], k)]))]


c3.ensures("chunk", _chunk_post)
c3.use(lambda a: [chunk_def(tri(a.n), a.n_chunks, a.chunk_index), tri_closed(a.n)])


# ================================================================ ChunkedDistanceMatrix
from pyvc.spec import TObj, TReal, TBool, NS  # noqa
from pyvc.values import Real, Obj  # noqa
from pyvc.lib.arrays import TArr, Arr  # noqa

CDM = "batchie.distance_calculation.ChunkedDistanceMatrix"
T_cdm = TObj(CDM, fields={"size": TInt, "chunk_size": TInt, "current_index": TInt,
                          "row_indices": TArr(Int), "col_indices": TArr(Int), "values": TArr(Real)})


def F(o, name):
    """field of a live object or of an entry snapshot"""
    return o.fields[name] if isinstance(o, Obj) else getattr(o, name)


def wf(o):
    """representation invariant"""
    k, k2 = z3.Int("k!wf"), z3.Int("k2!wf")
    ci, size = F(o, "current_index"), F(o, "size")
    R, Cc, Vv = F(o, "row_indices"), F(o, "col_indices"), F(o, "values")
    cap = R.shape[0]
    r = lambda t: z3.Select(R.data, t)  # noqa
    c = lambda t: z3.Select(Cc.data, t)  # noqa
    return [
        ("lens", z3.And(Cc.shape[0] == cap, Vv.shape[0] == cap, ci >= 0, ci <= cap, F(o, "chunk_size") >= 0, size >= 0)),
        ("tail_zero", z3.ForAll([k], z3.Implies(z3.And(k >= ci, k < cap),
                                                z3.And(r(k) == 0, c(k) == 0, z3.Select(Vv.data, k) == 0)),
                                patterns=[r(k)])),
        ("entries", z3.ForAll([k], z3.Implies(z3.And(k >= 0, k < ci), z3.And(c(k) >= 0, c(k) < r(k), r(k) < size)),
                              patterns=[r(k)])),
        ("distinct", z3.ForAll([k, k2], z3.Implies(z3.And(k >= 0, k < k2, k2 < ci), z3.Or(r(k) != r(k2), c(k) != c(k2))),
                               patterns=[z3.MultiPattern(r(k), r(k2))])),
    ]


def wfc(o):
    return [f for _, f in wf(o)]


def has_key(o, i, j, upto=None):
    k = z3.Int("k!hk")
    ci = F(o, "current_index") if upto is None else upto
    return z3.Exists([k], z3.And(k >= 0, k < ci, z3.Select(F(o, "row_indices").data, k) == i,
                                 z3.Select(F(o, "col_indices").data, k) == j))


def same_prefix(new, old, upto):
    """entries [0, upto) of new equal those of old (all three arrays)"""
    k = z3.Int("k!sp")
    return z3.ForAll([k], z3.Implies(z3.And(k >= 0, k < upto), z3.And(
        z3.Select(F(new, "row_indices").data, k) == z3.Select(F(old, "row_indices").data, k),
        z3.Select(F(new, "col_indices").data, k) == z3.Select(F(old, "col_indices").data, k),
        z3.Select(F(new, "values").data, k) == z3.Select(F(old, "values").data, k))),
        patterns=[z3.Select(F(new, "row_indices").data, k), z3.Select(F(old, "row_indices").data, k)])


# ---- _expand_storage
e = contract(CDM + "._expand_storage", params=[("self", T_cdm)])
e.modifies_fields = ["row_indices", "col_indices", "values"]
e.requires(lambda a: wfc(a.self))
e.ensures("grow", lambda a, ret, st: wf(a.self) + [
    ("cap", a.self.row_indices.shape[0] == a.old.self.row_indices.shape[0] + a.old.self.chunk_size),
    ("kept", same_prefix(a.self, a.old.self, a.old.self.row_indices.shape[0])),
    ("frame", z3.And(a.self.current_index == a.old.self.current_index, a.self.size == a.old.self.size,
                     a.self.chunk_size == a.old.self.chunk_size))])

# ---- add_value
av = contract(CDM + ".add_value", params=[("self", T_cdm), ("i", TInt), ("j", TInt), ("value", TReal)])
av.modifies_fields = ["row_indices", "col_indices", "values", "current_index"]
av.requires(lambda a: wfc(a.self) + [
    ("lower", z3.And(a.j >= 0, a.i != a.j)),
    ("fresh_key", z3.Not(has_key(a.self, a.i, a.j))),
    ("room", z3.Or(a.self.chunk_size >= 1, a.self.current_index < a.self.row_indices.shape[0]))])
av.raises("ValueError", lambda a: z3.Or(a.i >= a.self.size, a.j >= a.self.size, a.i < a.j))


def _av_post(a, ret, st):
    o, old = a.self, a.old.self
    ci0 = old.current_index
    return wf(o) + [
        ("count", o.current_index == ci0 + 1),
        ("kept", same_prefix(o, old, ci0)),
        ("new", z3.And(z3.Select(o.row_indices.data, ci0) == a.i, z3.Select(o.col_indices.data, ci0) == a.j,
                       z3.Select(o.values.data, ci0) == a.value)),
        ("frame", z3.And(o.size == old.size, o.chunk_size == old.chunk_size)),
        ("cap_grows", o.row_indices.shape[0] >= old.row_indices.shape[0])]


av.ensures("append", _av_post)

# ---- is_complete
ic = contract(CDM + ".is_complete", params=[("self", T_cdm)], returns=TBool)
ic.requires(lambda a: wfc(a.self))
ic.use(lambda a: [tri_closed(a.self.size)])
ic.ensures("complete", lambda a, ret, st: [("iff", ret == (a.self.current_index == tri(a.self.size)))])

# ---- abstract (immutable) view of a ChunkedDistanceMatrix: elements of a symbolic list of matrices
from pyvc.spec import CLASS_MODELS, TAObj, TNone, TOpt  # noqa
from pyvc.values import AObj, Ref  # noqa

RealArr = z3.ArraySort(Int, Real)
cdm_size = z3.Function("cdm_size", Ref, Int)
cdm_ci = z3.Function("cdm_current_index", Ref, Int)
cdm_cs = z3.Function("cdm_chunk_size", Ref, Int)
cdm_cap = z3.Function("cdm_cap", Ref, Int)
cdm_rows = z3.Function("cdm_rows", Ref, IntArr)
cdm_cols = z3.Function("cdm_cols", Ref, IntArr)
cdm_vals = z3.Function("cdm_vals", Ref, RealArr)


def _aobj_fields(p):
    t = p.term
    return {"size": cdm_size(t), "current_index": cdm_ci(t), "chunk_size": cdm_cs(t),
            "row_indices": Arr((cdm_cap(t),), cdm_rows(t), "int", fresh=False),
            "col_indices": Arr((cdm_cap(t),), cdm_cols(t), "int", fresh=False),
            "values": Arr((cdm_cap(t),), cdm_vals(t), "float", fresh=False)}


CLASS_MODELS["ChunkedDistanceMatrix"] = {
    n: (lambda i, p, _n=n: _aobj_fields(p)[_n]) for n in ("size", "current_index", "chunk_size", "row_indices", "col_indices", "values")}

_F_obj = F


def F(o, name):  # noqa  (extends F to abstract matrices)
    if isinstance(o, AObj):
        return _aobj_fields(o)[name]
    return _F_obj(o, name)


# ---- __init__
T_new = TObj(CDM)
fields_T = {"size": TInt, "chunk_size": TInt, "current_index": TInt, "row_indices": TArr(Int), "col_indices": TArr(Int), "values": TArr(Real)}
ini = contract(CDM + ".__init__", params=[("self", T_new), ("size", TInt), ("n_chunks", TInt), ("chunk_index", TInt), ("chunk_size", TInt)])
ini.variants = [("explicit_chunk_size", ini.params),
                ("computed_chunk_size", [(n, (TNone if n == "chunk_size" else t)) for n, t in ini.params])]
ini.creates = fields_T
ini.requires(lambda a: [a.size >= 0, a.n_chunks >= 1, a.chunk_index >= 0, a.chunk_index < a.n_chunks] +
             ([a.chunk_size >= 0] if a.chunk_size is not None else []))
ini.use(lambda a: [chunk_def(tri(a.size), a.n_chunks, a.chunk_index)])


def _ini_post(a, ret, st):
    o = a.self
    T = tri(a.size)
    auto = cend(T, a.n_chunks, a.chunk_index) - cstart(T, a.n_chunks, a.chunk_index)
    cs = auto if a.chunk_size is None else z3.If(a.chunk_size != 0, a.chunk_size, auto)
    return wf(o) + [("empty", o.current_index == 0), ("size", o.size == a.size), ("chunk_size", o.chunk_size == cs),
                    ("cap", o.row_indices.shape[0] == cs)]


ini.ensures("init", _ini_post)

# ---- to_dense
td = contract(CDM + ".to_dense", params=[("self", T_cdm)], returns=TArr(Real, 2))
td.requires(lambda a: wfc(a.self))
td.use(lambda a: [tri_closed(a.self.size)])
td.raises("ValueError", lambda a: a.self.current_index != tri(a.self.size))


def _dense_facts(o, M, upto):
    k, x, y = z3.Int("k!d"), z3.Int("x!d"), z3.Int("y!d")
    r = lambda t: z3.Select(o.row_indices.data, t)  # noqa
    c = lambda t: z3.Select(o.col_indices.data, t)  # noqa
    v = lambda t: z3.Select(o.values.data, t)  # noqa
    at = lambda p, q: z3.Select(z3.Select(M.data, p), q)  # noqa
    return [
        ("entries", z3.ForAll([k], z3.Implies(z3.And(k >= 0, k < upto), z3.And(at(r(k), c(k)) == v(k), at(c(k), r(k)) == v(k))),
                              patterns=[r(k)])),
        ("others_zero", z3.ForAll([x, y], z3.Implies(z3.And(x >= 0, x < o.size, y >= 0, y < o.size, at(x, y) != 0),
                                                     z3.Exists([k], z3.And(k >= 0, k < upto, z3.Or(z3.And(r(k) == x, c(k) == y), z3.And(r(k) == y, c(k) == x))))),
                                  patterns=[at(x, y)])),
    ]


def _td_post(a, ret, st):
    o = a.self
    x, y = z3.Int("x!s"), z3.Int("y!s")
    at = lambda p, q: z3.Select(z3.Select(ret.data, p), q)  # noqa
    inr = lambda t: z3.And(t >= 0, t < o.size)  # noqa
    return _dense_facts(o, ret, o.current_index) + [
        ("shape", z3.And(ret.shape[0] == o.size, ret.shape[1] == o.size)),
        ("symmetric", z3.ForAll([x, y], z3.Implies(z3.And(inr(x), inr(y)), at(x, y) == at(y, x)), patterns=[at(x, y)])),
        ("zero_diagonal", z3.ForAll([x], z3.Implies(inr(x), at(x, x) == 0), patterns=[at(x, x)])),
    ]


td.ensures("dense", _td_post)
td.loop("for#0", invariant=lambda s: _dense_facts(s.self, s.dense, s.it) +
        [("shape", z3.And(s.dense.shape[0] == s.self.size, s.dense.shape[1] == s.self.size))])

# ---- combine (pure: returns a new matrix; self/other untouched)
tri_pos = Lemma("tri_pos", lambda n: z3.And(z3.Implies(n >= 2, tri(n) >= 1), z3.Implies(z3.And(n >= 0, n <= 1), tri(n) == 0)),
                "smt", "n>=2 -> tri(n) >= 1 ; 0<=n<=1 -> tri(n) = 0  (from tri_unfold/tri_mono, props/C07)")


def in_view(o, x, y, v, upto=None):
    k = z3.Int("k!iv")
    ci = F(o, "current_index") if upto is None else upto
    return z3.Exists([k], z3.And(k >= 0, k < ci, z3.Select(F(o, "row_indices").data, k) == x,
                                 z3.Select(F(o, "col_indices").data, k) == y, z3.Select(F(o, "values").data, k) == v))


def entry_eq(o1, k1, o2, k2):
    return z3.And(z3.Select(F(o1, "row_indices").data, k1) == z3.Select(F(o2, "row_indices").data, k2),
                  z3.Select(F(o1, "col_indices").data, k1) == z3.Select(F(o2, "col_indices").data, k2),
                  z3.Select(F(o1, "values").data, k1) == z3.Select(F(o2, "values").data, k2))


def combined(res, me, other, upto_other):
    """res = me followed by the entries of other[0..upto_other) whose key is not yet present"""
    k, m = z3.Int("k!cb"), z3.Int("m!cb")
    rk = lambda o, t: z3.Select(F(o, "row_indices").data, t)  # noqa
    ck = lambda o, t: z3.Select(F(o, "col_indices").data, t)  # noqa
    return [
        ("self_kept", z3.And(F(res, "current_index") >= F(me, "current_index"), same_prefix(res, me, F(me, "current_index")))),
        ("other_present", z3.ForAll([k], z3.Implies(z3.And(k >= 0, k < upto_other), has_key(res, rk(other, k), ck(other, k))),
                                    patterns=[rk(other, k)])),
        ("other_value", z3.ForAll([k], z3.Implies(z3.And(k >= 0, k < upto_other, z3.Not(has_key(me, rk(other, k), ck(other, k)))),
                                                  in_view(res, rk(other, k), ck(other, k), z3.Select(F(other, "values").data, k))),
                                  patterns=[rk(other, k)])),
        ("extra_from_other", z3.ForAll([m], z3.Implies(z3.And(m >= F(me, "current_index"), m < F(res, "current_index")),
                                                       z3.Exists([k], z3.And(k >= 0, k < upto_other, entry_eq(res, m, other, k)))),
                                       patterns=[rk(res, m)])),
    ]


def untouched(o, old):
    if isinstance(o, AObj):
        return z3.BoolVal(True)
    return z3.And(same_prefix(o, old, F(old, "current_index")), F(o, "current_index") == F(old, "current_index"),
                  F(o, "size") == F(old, "size"))


cb = contract(CDM + ".combine", params=[("self", T_cdm), ("other", T_cdm)], returns=T_cdm)
cb.requires(lambda a: wfc(a.self) + wfc(a.other))
cb.raises("ValueError", lambda a: F(a.self, "size") != F(a.other, "size"))
cb.use(lambda a: [tri_pos(F(a.self, "size")), tri_closed(F(a.self, "size")), chunk_def(tri(F(a.self, "size")), 1, 0)])
cb.ensures("union", lambda a, ret, st: wf(ret) + [("size", F(ret, "size") == F(a.self, "size"))] +
           combined(ret, a.self, a.other, F(a.other, "current_index")) +
           [("inputs_untouched", z3.And(untouched(a.self, a.old.self), untouched(a.other, a.old.other)))])
cb.loop("for#0", invariant=lambda s: wf(s.composed) + [
    ("size", z3.And(s.composed.size == s.self.size, s.composed.chunk_size == s.pre.composed.chunk_size)),
    ("room", z3.Or(s.composed.chunk_size >= 1, s.other.current_index == 0))] +
    combined(s.composed, s.self, s.other, s.it))

# ---- concat over a symbolic-length list of (immutable) matrices that are all consistent with one distance
#      function d(i,j): the result is consistent with d and has exactly the union of the keys.
dfun = z3.Function("d_pair", Int, Int, Real)  # ghost: "the" distance of pair (i,j); a function of the key alone


def consistent(o, upto=None):
    k = z3.Int("k!cs")
    ci = F(o, "current_index") if upto is None else upto
    return z3.ForAll([k], z3.Implies(z3.And(k >= 0, k < ci),
                                     z3.Select(F(o, "values").data, k) == dfun(z3.Select(F(o, "row_indices").data, k),
                                                                              z3.Select(F(o, "col_indices").data, k))),
                     patterns=[z3.Select(F(o, "values").data, k)])


T_mats = TSeq(TAObj("ChunkedDistanceMatrix"))


def _mat(a, idx):
    return AObj("ChunkedDistanceMatrix", z3.Select(a.matrices.seq.cols, idx))


def _all_mats(a, pred):
    m = z3.Int("m!am")
    return z3.ForAll([m], z3.Implies(z3.And(m >= 0, m < a.matrices.seq.length), pred(AObj("ChunkedDistanceMatrix", z3.Select(a.matrices.seq.cols, m)))),
                     patterns=[z3.Select(a.matrices.seq.cols, m)])


def keys_union(res, mats_seq, upto):
    """keys(res) = union of keys of mats[0..upto)"""
    x, y, m = z3.Int("x!ku"), z3.Int("y!ku"), z3.Int("m!ku")
    M = lambda t: AObj("ChunkedDistanceMatrix", z3.Select(mats_seq.cols, t))  # noqa
    k = z3.Int("k!ku")
    rk = lambda o, t: z3.Select(F(o, "row_indices").data, t)  # noqa
    ck = lambda o, t: z3.Select(F(o, "col_indices").data, t)  # noqa
    return [
        ("covers", z3.ForAll([m, k], z3.Implies(z3.And(m >= 0, m < upto, k >= 0, k < F(M(m), "current_index")),
                                                has_key(res, rk(M(m), k), ck(M(m), k))),
                             patterns=[rk(M(m), k)])),
        ("only", z3.ForAll([k], z3.Implies(z3.And(k >= 0, k < F(res, "current_index")),
                                           z3.Exists([m], z3.And(m >= 0, m < upto, has_key(M(m), rk(res, k), ck(res, k))))),
                           patterns=[rk(res, k)])),
    ]


from pyvc.spec import TClass as _TClass  # noqa
cc = contract(CDM + ".concat", params=[("cls", _TClass(CDM)), ("matrices", T_mats)], returns=T_cdm)
cc.requires(lambda a: [_all_mats(a, lambda o: z3.And(*wfc(o))), _all_mats(a, consistent)])
cc.raises("ValueError", lambda a: z3.Or(a.matrices.seq.length == 0,
                                        z3.Not(_all_mats(a, lambda o: F(o, "size") == F(_mat(a, 0), "size")))))
cc.ensures("union", lambda a, ret, st: wf(ret) + [("consistent", consistent(ret)), ("size", F(ret, "size") == F(_mat(a, 0), "size"))] +
           keys_union(ret, a.matrices.seq, a.matrices.seq.length))
cc.loop("for#0", invariant=lambda s: wf(s.accumulator) + [
    ("consistent", consistent(s.accumulator)),
    ("size", F(s.accumulator, "size") == F(_mat(s, 0), "size")),
    ("sizes_so_far", z3.ForAll([z3.Int("m!sz")], z3.Implies(z3.And(z3.Int("m!sz") >= 0, z3.Int("m!sz") < s.it + 1),
                                                            F(AObj("ChunkedDistanceMatrix", z3.Select(s.matrices.seq.cols, z3.Int("m!sz"))), "size") == F(_mat(s, 0), "size")),
                               patterns=[z3.Select(s.matrices.seq.cols, z3.Int("m!sz"))]))] +
    keys_union(s.accumulator, s.matrices.seq, s.it + 1),
    types={"accumulator": T_cdm})

# ---- calculate_pairwise_distance_matrix_on_predictions
pv = z3.Function("predict_viability", Ref, Ref, RealArr)  # (theta, data) -> predictions (a function of theta and data only)
nrows = z3.Function("screen_size", Ref, Int)
dist = z3.Function("metric_distance", Ref, RealArr, RealArr, Int, Real)  # (metric, a, b, len)


def _theta_predict(i, th):
    def call(interp, args, kw, node, fr):
        data = args[0]
        interp.ctx.assume(nrows(data.term) >= 0)
        return Arr((nrows(data.term),), pv(th.term, data.term), "float", fresh=True)
    return call


CLASS_MODELS["Theta"] = {"predict_viability": _theta_predict}


def _metric_distance(i, me):
    def call(interp, args, kw, node, fr):
        a, b = args
        return dist(me.term, a.data, b.data, a.shape[0])
    return call


CLASS_MODELS["DistanceMetric"] = {"distance": _metric_distance}

T_holder = TObj("batchie.core.ThetaHolder", fields={"_n_thetas": TNat, "thetas": TSeq(TAObj("Theta"))})
Q5 = "batchie.distance_calculation.calculate_pairwise_distance_matrix_on_predictions"
cp = contract(Q5, params=[("thetas", T_holder), ("distance_metric", TAObj("DistanceMetric")), ("data", TAObj("Screen")),
                          ("chunk_index", TInt), ("n_chunks", TInt), ("progress", TBool)], returns=T_cdm)
cp.requires(lambda a: [a.thetas.thetas.seq.length == a.thetas._n_thetas, a.n_chunks >= 1, a.chunk_index >= 0])
cp.raises("AssertionError", lambda a: a.chunk_index >= a.n_chunks)


def DIST(a, x, y):
    th = a.thetas.thetas.seq.cols
    return dist(a.distance_metric.term, pv(z3.Select(th, x), a.data.term), pv(z3.Select(th, y), a.data.term), nrows(a.data.term))


def _cp_entries(a, res, upto):
    n = a.thetas._n_thetas
    s = cstart(tri(n), a.n_chunks, a.chunk_index)
    k = z3.Int("k!cp")
    r = lambda t: z3.Select(F(res, "row_indices").data, t)  # noqa
    c = lambda t: z3.Select(F(res, "col_indices").data, t)  # noqa
    return z3.ForAll([k], z3.Implies(z3.And(k >= 0, k < upto),
                                     z3.And(r(k) == row(k + s), c(k) == (k + s) - tri(row(k + s)),
                                            z3.Select(F(res, "values").data, k) == DIST(a, r(k), c(k)))),
                     patterns=[r(k)])


def _cp_post(a, ret, st):
    n = a.thetas._n_thetas
    T = tri(n)
    return wf(ret) + [("size", F(ret, "size") == n),
                      ("count", F(ret, "current_index") == cend(T, a.n_chunks, a.chunk_index) - cstart(T, a.n_chunks, a.chunk_index)),
                      ("entries", _cp_entries(a, ret, F(ret, "current_index"))),
                      ("holder_untouched", z3.And(a.thetas._n_thetas == a.old.thetas._n_thetas,
                                                  a.thetas.thetas.seq.length == a.old.thetas.thetas.length))]


cp.ensures("chunk_of_d", _cp_post)
cp.use(lambda a: [chunk_def(tri(a.thetas._n_thetas), a.n_chunks, a.chunk_index)])


def _cp_inv(s):
    n = s.thetas._n_thetas
    T = tri(n)
    st_ = cstart(T, s.n_chunks, s.chunk_index)
    a = s  # same attribute names as the arguments
    return wf(s.result) + [
        ("size", z3.And(s.result.size == n, s.result.chunk_size == s.pre.result.chunk_size,
                        s.result.row_indices.shape[0] >= s.indices.seq.length)),
        ("count", s.result.current_index == s.it),
        ("entries", _cp_entries(a, s.result, s.it))]


cp.loop("for#0", invariant=_cp_inv,
        use=lambda s: [row_def(s.it + cstart(tri(s.thetas._n_thetas), s.n_chunks, s.chunk_index)),
                       tri_unfold(row(s.it + cstart(tri(s.thetas._n_thetas), s.n_chunks, s.chunk_index))),
                       tri_mono(s.thetas._n_thetas - 1, row(s.it + cstart(tri(s.thetas._n_thetas), s.n_chunks, s.chunk_index)))])

# ---- save / load (h5py model: assumed) and the round trip
from pyvc.spec import TStr  # noqa
from pyvc.lib import h5 as H5  # noqa


def file_of(a_or_i, filename, interp):
    return H5.store(interp).get(H5.fkey(filename))


sv = contract(CDM + ".save", params=[("self", T_cdm), ("filename", TStr)])
sv.modifies_fields = []
sv.requires(lambda a: wfc(a.self))


def _file_matches(f, o):
    """ghost file f holds exactly the filled part of o"""
    k = z3.Int("k!fm")
    ci = F(o, "current_index")
    R, Cc, Vv, S = f.datasets["row_indices"], f.datasets["col_indices"], f.datasets["values"], f.datasets["size"]
    return [("lens", z3.And(R.shape[0] == ci, Cc.shape[0] == ci, Vv.shape[0] == ci, S.shape[0] == 1)),
            ("size", z3.Select(S.data, 0) == F(o, "size")),
            ("entries", z3.ForAll([k], z3.Implies(z3.And(k >= 0, k < ci), z3.And(
                z3.Select(R.data, k) == z3.Select(F(o, "row_indices").data, k),
                z3.Select(Cc.data, k) == z3.Select(F(o, "col_indices").data, k),
                z3.Select(Vv.data, k) == z3.Select(F(o, "values").data, k))), patterns=[z3.Select(R.data, k)]))]


def _sv_post(a, ret, st):
    f = file_of(a, a.filename, st)
    if f is None or not all(n in f.datasets for n in ("row_indices", "col_indices", "values", "size")):
        return [("file_written", z3.BoolVal(False))]
    return _file_matches(f, a.self) + [("self_untouched", untouched(a.self, a.old.self))]


sv.ensures("file", _sv_post)


def _sv_apply(i, a, node, fr):
    """contract of save used at a call site: creates the ghost file"""
    for nm, f_ in named_(wf(a.self)):
        i.ctx.prove("%s/call:save:%s@%s" % (i._cur_label, nm, getattr(node, "lineno", "?")), f_, node, "call")
    f = H5.H5File("w")
    ci = F(a.self, "current_index")
    for nm, srt in (("row_indices", Int), ("col_indices", Int), ("values", Real)):
        f.datasets[nm] = TArr(srt).fresh(i.ctx, "file_" + nm)
    f.datasets["size"] = TArr(Int).fresh(i.ctx, "file_size")
    H5.store(i)[H5.fkey(a.filename)] = f
    for nm, g in _file_matches(f, a.self):
        i.ctx.assume(g)
    return None


def named_(items):
    return [(n, f) for n, f in items]


sv.apply = _sv_apply

from pyvc.spec import TClass  # noqa
ld = contract(CDM + ".load", params=[("cls", TClass(CDM)), ("filename", TStr)], returns=T_cdm)
ld.method_kind = "classmethod"


def _ld_setup(i, a):
    f = H5.H5File("w")
    for nm, srt in (("row_indices", Int), ("col_indices", Int), ("values", Real), ("size", Int)):
        f.datasets[nm] = TArr(srt).fresh(i.ctx, "file_" + nm)
    H5.store(i)[H5.fkey(a.filename)] = f


ld.setup = _ld_setup


def _file_wf(f):
    """what a file written by save() from a well-formed matrix satisfies"""
    k, k2 = z3.Int("k!fw"), z3.Int("k2!fw")
    R, Cc, Vv, S = f.datasets["row_indices"], f.datasets["col_indices"], f.datasets["values"], f.datasets["size"]
    L = Vv.shape[0]
    size = z3.Select(S.data, 0)
    r = lambda t: z3.Select(R.data, t)  # noqa
    c = lambda t: z3.Select(Cc.data, t)  # noqa
    return [z3.And(R.shape[0] == L, Cc.shape[0] == L, S.shape[0] == 1, size >= 0),
            z3.ForAll([k], z3.Implies(z3.And(k >= 0, k < L), z3.And(c(k) >= 0, c(k) < r(k), r(k) < size)), patterns=[r(k)]),
            z3.ForAll([k, k2], z3.Implies(z3.And(k >= 0, k < k2, k2 < L), z3.Or(r(k) != r(k2), c(k) != c(k2))),
                      patterns=[z3.MultiPattern(r(k), r(k2))])]


def _ld_req(a):
    return _file_wf(a.ghost["h5"][H5.fkey(a.filename)])


ld._requires = [_ld_req]
ld.use(lambda a: [chunk_def(tri(z3.Select(a.ghost["h5"][H5.fkey(a.filename)].datasets["size"].data, 0)), 1, 0)])


def _ld_post(a, ret, st):
    f = a.ghost["h5"][H5.fkey(a.filename)]
    k = z3.Int("k!lp")
    L = f.datasets["values"].shape[0]
    return wf(ret) + [
        ("count", F(ret, "current_index") == L),
        ("size", F(ret, "size") == z3.Select(f.datasets["size"].data, 0)),
        ("entries", z3.ForAll([k], z3.Implies(z3.And(k >= 0, k < L), z3.And(
            z3.Select(F(ret, "row_indices").data, k) == z3.Select(f.datasets["row_indices"].data, k),
            z3.Select(F(ret, "col_indices").data, k) == z3.Select(f.datasets["col_indices"].data, k),
            z3.Select(F(ret, "values").data, k) == z3.Select(f.datasets["values"].data, k))),
            patterns=[z3.Select(F(ret, "row_indices").data, k)]))]


ld.ensures("loaded", _ld_post)

# ---- scenario: save then load preserves the view (uses the two contracts above)
rt = contract("scenarios.c07.save_then_load", params=[("m", T_cdm), ("filename", TStr)], returns=T_cdm)
rt.requires(lambda a: wfc(a.m))
rt.ensures("roundtrip", lambda a, ret, st: wf(ret) + [
    ("count", F(ret, "current_index") == a.old.m.current_index), ("size", F(ret, "size") == a.old.m.size),
    ("entries", same_prefix(ret, a.old.m, a.old.m.current_index))])
