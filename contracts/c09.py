"""C09 — predictions are pure, row-wise, treatment-order-symmetric and control-neutral (over the reals)."""
import z3
from pyvc.spec import contract, TObj, TAObj, TTuple, TStr, TInt, TReal, TBool, TSeq, TRef, TNone, NS, Forall, Using
from pyvc.values import Int, Bool, Real, Obj, AObj
from pyvc.lib.arrays import TArr, Arr
from pyvc.lib.np_real import sumr, RealArr, expit, sumr_axioms
from .screen import *  # noqa

SAMPLE = "batchie.models.sparse_combo.SparseDrugComboMCMCSample"
T_theta = TObj(SAMPLE, fields={"W": TArr(Real, 2), "W0": TArr(Real), "V2": TArr(Real, 2), "V1": TArr(Real, 2), "V0": TArr(Real),
                               "alpha": TReal, "precision": TReal})


def theta_wf(t):
    D = t.W.shape[1]
    return [D >= 0, t.V2.shape[1] == D, t.V1.shape[1] == D, t.W0.shape[0] == t.W.shape[0],
            t.V1.shape[0] == t.V2.shape[0], t.V0.shape[0] == t.V2.shape[0],
            t.V2.shape[0] >= 1]  # with zero treatment rows numpy's arr[[-1]] raises IndexError for a control entry


def ids_in_range(t, data, ar):
    r = z3.Int("r!ir")
    n = nrows(data)
    sid, tid = G(data, "_sample_ids").data, G(data, "_treatment_ids").data
    nS, nT = t.W.shape[0], t.V2.shape[0]
    cs = [z3.And(z3.Select(sid, r) >= 0, z3.Select(sid, r) < nS)]
    for c in range(ar):
        cs.append(z3.And(z3.Select(z3.Select(tid, r), c) >= -1, z3.Select(z3.Select(tid, r), c) < nT))
    return z3.ForAll([r], z3.Implies(z3.And(r >= 0, r < n), z3.And(*cs)), patterns=[z3.Select(sid, r), z3.Select(tid, r)])


# spec rows: P2(theta..., s, a, b)[d], P1(...)[d] as uninterpreted row functions with pointwise definitions
P2 = z3.Function("P2_row", z3.ArraySort(Int, RealArr), z3.ArraySort(Int, RealArr), Int, Int, Int, Int, RealArr)  # (W, V2, nT, s, a, b)
P1 = z3.Function("P1_row", z3.ArraySort(Int, RealArr), z3.ArraySort(Int, RealArr), Int, Int, Int, Int, RealArr)  # (W, V1, nT, s, a, b)


def Xz2(X, nT, t, d):
    """embedding entry with the control row zeroed; numpy's negative index would wrap, the copy is zeroed instead"""
    return z3.If(t == -1, z3.RealVal(0), z3.Select(z3.Select(X, t), d))


def Xz1(X, t):
    return z3.If(t == -1, z3.RealVal(0), z3.Select(X, t))


def spec_rows(t):
    s, a, b, d = z3.Ints("s!sp a!sp b!sp d!sp")
    W, V2, V1, nT = t.W.data, t.V2.data, t.V1.data, t.V2.shape[0]
    return [z3.ForAll([s, a, b, d], z3.Select(P2(W, V2, nT, s, a, b), d) == z3.Select(z3.Select(W, s), d) * Xz2(V2, nT, a, d) * Xz2(V2, nT, b, d),
                      patterns=[z3.Select(P2(W, V2, nT, s, a, b), d)]),
            z3.ForAll([s, a, b, d], z3.Select(P1(W, V1, nT, s, a, b), d) == z3.Select(z3.Select(W, s), d) * (Xz2(V1, nT, a, d) + Xz2(V1, nT, b, d)),
                      patterns=[z3.Select(P1(W, V1, nT, s, a, b), d)])]


def fit(t, s, a, b):
    """modelled mean of one experiment: a function of the sample id and the two treatment ids only"""
    D = t.W.shape[1]
    nT = t.V2.shape[0]
    return (t.alpha + z3.Select(t.W0.data, s) + Xz1(t.V0.data, a) + Xz1(t.V0.data, b) +
            sumr(P1(t.W.data, t.V1.data, nT, s, a, b), D) + sumr(P2(t.W.data, t.V2.data, nT, s, a, b), D))


def clipv(x):
    lo, hi = z3.RealVal("0.01"), z3.RealVal("0.99")
    x = z3.If(x < lo, lo, x)
    return z3.If(x > hi, hi, x)


# ---- copy_array_with_control_treatments_set_to_zero
CP = "batchie.common.copy_array_with_control_treatments_set_to_zero"
cp = contract(CP, params=[("arr", TArr(Real, 2)), ("treatment_array", TArr(Int))], returns=TArr(Real, 2))
cp.variants = [("2d", cp.params), ("1d", [("arr", TArr(Real)), ("treatment_array", TArr(Int))])]


def _cp_req(a):
    k = z3.Int("k!cpr")
    return [z3.ForAll([k], z3.Implies(z3.And(k >= 0, k < a.treatment_array.shape[0]),
                                      z3.And(z3.Select(a.treatment_array.data, k) >= -1, z3.Select(a.treatment_array.data, k) < a.arr.shape[0])),
                      patterns=[z3.Select(a.treatment_array.data, k)]),
            z3.Implies(a.treatment_array.shape[0] > 0, a.arr.shape[0] >= 1)]


cp.requires(_cp_req)


def _cp_post(a, ret, st):
    k, d = z3.Int("k!cp"), z3.Int("d!cp")
    t = lambda kk: z3.Select(a.treatment_array.data, kk)  # noqa
    n = a.treatment_array.shape[0]
    out = [("fresh_copy", bool_(ret is not a.arr and getattr(ret, "origin", "") == "fresh")),
           ("source_untouched", same_array(a.arr, a.old.arr))]
    if a.arr.ndim == 2:
        D = a.arr.shape[1]
        out.append(("rows", z3.And(ret.shape[0] == n, ret.shape[1] == D, z3.ForAll([k, d], z3.Implies(
            z3.And(k >= 0, k < n, d >= 0, d < D), z3.Select(z3.Select(ret.data, k), d) == z3.If(t(k) == -1, z3.RealVal(0), z3.Select(z3.Select(a.arr.data, t(k)), d))),
            patterns=[z3.Select(z3.Select(ret.data, k), d)]))))
    else:
        out.append(("entries", z3.And(ret.shape[0] == n, z3.ForAll([k], z3.Implies(
            z3.And(k >= 0, k < n), z3.Select(ret.data, k) == z3.If(t(k) == -1, z3.RealVal(0), z3.Select(a.arr.data, t(k)))),
            patterns=[z3.Select(ret.data, k)]))))
    return out


cp.ensures("zeroed_copy", _cp_post)
cp.inline = True

# ---- predict (arity 2) and predict_single_drug (arity 1)
PR = "batchie.models.sparse_combo.predict"
pr = contract(PR, params=[("mcmc_sample", T_theta), ("data", T_screen(2)), ("viability", TBool)], returns=TArr(Real))
pr.variants = [("mean", [("mcmc_sample", T_theta), ("data", T_screen(2)), ("viability", __import__("pyvc.spec", fromlist=["TConst"]).TConst(False))]),
               ("viability", [("mcmc_sample", T_theta), ("data", T_screen(2)), ("viability", __import__("pyvc.spec", fromlist=["TConst"]).TConst(True))])]
pr.requires(lambda a: screen_shape_wf(a.data) + theta_wf(a.mcmc_sample) + [ids_in_range(a.mcmc_sample, a.data, 2)])
pr.use(lambda a: spec_rows(a.mcmc_sample) + sumr_axioms())


def _pr_post(a, ret, st):
    r = z3.Int("r!pp")
    n = nrows(a.data)
    t = a.mcmc_sample
    sid, tid = G(a.data, "_sample_ids").data, G(a.data, "_treatment_ids").data
    val = lambda rr: fit(t, z3.Select(sid, rr), z3.Select(z3.Select(tid, rr), 0), z3.Select(z3.Select(tid, rr), 1))  # noqa
    want = (lambda rr: clipv(expit(val(rr)))) if a.viability is True else val
    def hints(r0):
        out = [z3.Select(ret.data, r0), z3.Select(sid, r0)]
        fr = getattr(st, "_cur_frame", None)
        for nm in ("Mu", "intercept", "interaction1", "interaction2"):
            v = fr.locals.get(nm) if fr is not None else None
            if isinstance(v, Arr):
                out.append(z3.Select(v.data, r0))
        return out
    return [("length", ret.shape[0] == n),
            ("row_wise", Forall([("r!pp", Int)], lambda rr: z3.Implies(z3.And(rr >= 0, rr < n), z3.Select(ret.data, rr) == want(rr)),
                                patterns=lambda rr: [z3.Select(ret.data, rr)], hints=hints)),
            ("sample_untouched", z3.And(*[same_array(getattr(t, f), getattr(a.old.mcmc_sample, f)) for f in ("W", "W0", "V2", "V1", "V0")])),
            ("screen_untouched", z3.And(same_array(G(a.data, "_sample_ids"), a.old.data._sample_ids), same_array(G(a.data, "_treatment_ids"), a.old.data._treatment_ids)))]


pr.ensures("prediction", _pr_post)

# ---- predict_single_drug (arity 1)
def fit1(t, s, a):
    D = t.W.shape[1]
    nT = t.V2.shape[0]
    return t.alpha + z3.Select(t.W0.data, s) + Xz1(t.V0.data, a) + sumr(P1s(t.W.data, t.V1.data, nT, s, a), D)


P1s = z3.Function("P1single_row", z3.ArraySort(Int, RealArr), z3.ArraySort(Int, RealArr), Int, Int, Int, RealArr)


def spec_rows1(t):
    s, a, d = z3.Ints("s!sp1 a!sp1 d!sp1")
    W, V1, nT = t.W.data, t.V1.data, t.V2.shape[0]
    return [z3.ForAll([s, a, d], z3.Select(P1s(W, V1, nT, s, a), d) == z3.Select(z3.Select(W, s), d) * Xz2(V1, nT, a, d),
                      patterns=[z3.Select(P1s(W, V1, nT, s, a), d)])]


from pyvc.spec import TConst  # noqa
PS = "batchie.models.sparse_combo.predict_single_drug"
ps = contract(PS, params=[("mcmc_sample", T_theta), ("data", T_screen(1)), ("viability", TBool)], returns=TArr(Real))
ps.variants = [("mean", [("mcmc_sample", T_theta), ("data", T_screen(1)), ("viability", TConst(False))]),
               ("viability", [("mcmc_sample", T_theta), ("data", T_screen(1)), ("viability", TConst(True))])]
ps.requires(lambda a: screen_shape_wf(a.data) + theta_wf(a.mcmc_sample) + [ids_in_range(a.mcmc_sample, a.data, 1)])
ps.use(lambda a: spec_rows1(a.mcmc_sample) + sumr_axioms())


def _ps_post(a, ret, st):
    n = nrows(a.data)
    t = a.mcmc_sample
    sid, tid = G(a.data, "_sample_ids").data, G(a.data, "_treatment_ids").data
    val = lambda rr: fit1(t, z3.Select(sid, rr), z3.Select(z3.Select(tid, rr), 0))  # noqa
    want = (lambda rr: clipv(expit(val(rr)))) if a.viability is True else val

    def hints(r0):
        out = [z3.Select(ret.data, r0), z3.Select(sid, r0)]
        fr = getattr(st, "_cur_frame", None)
        for nm in ("Mu", "intercept", "interaction1"):
            v = fr.locals.get(nm) if fr is not None else None
            if isinstance(v, Arr):
                out.append(z3.Select(v.data, r0))
        return out
    return [("length", ret.shape[0] == n),
            ("row_wise", Forall([("r!ps", Int)], lambda rr: z3.Implies(z3.And(rr >= 0, rr < n), z3.Select(ret.data, rr) == want(rr)),
                                patterns=lambda rr: [z3.Select(ret.data, rr)], hints=hints)),
            ("sample_untouched", z3.And(*[same_array(getattr(t, f), getattr(a.old.mcmc_sample, f)) for f in ("W", "W0", "V1", "V0")]))]


ps.ensures("prediction", _ps_post)

# ---- the sample's methods: arity dispatch, variance
for mname, viab in (("predict_viability", True), ("predict_conditional_mean", False)):
    for ar in (1, 2):
        pass
pv = contract(SAMPLE + ".predict_conditional_variance", params=[("self", T_theta), ("data", T_screen(2))], returns=TArr(Real))
pv.requires(lambda a: screen_shape_wf(a.data) + [a.self.precision > 0])
pv.ensures("reciprocal_precision", lambda a, ret, st: [
    ("length", ret.shape[0] == nrows(a.data)),
    ("values", z3.ForAll([z3.Int("r!pv")], z3.Implies(z3.And(z3.Int("r!pv") >= 0, z3.Int("r!pv") < nrows(a.data)),
                                                    z3.And(z3.Select(ret.data, z3.Int("r!pv")) == 1 / a.self.precision, z3.Select(ret.data, z3.Int("r!pv")) > 0)),
                         patterns=[z3.Select(ret.data, z3.Int("r!pv"))]))])

for mname, viab in (("predict_viability", True), ("predict_conditional_mean", False)):
    cm = contract(SAMPLE + "." + mname, params=[("self", T_theta), ("data", T_screen(2))], returns=TArr(Real))
    cm.variants = [("arity2", [("self", T_theta), ("data", T_screen(2))]), ("arity1", [("self", T_theta), ("data", T_screen(1))]),
                   ("arity3", [("self", T_theta), ("data", T_screen(3))])]
    cm.requires(lambda a: screen_shape_wf(a.data) + theta_wf(a.self) + [ids_in_range(a.self, a.data, min(arity(a.data), 2))])
    cm.raises("NotImplementedError", lambda a: bool_(arity(a.data) not in (1, 2)))
    cm.use(lambda a: spec_rows(a.self) + spec_rows1(a.self) + sumr_axioms())

    def _cm_post(a, ret, st, _v=viab):
        n = nrows(a.data)
        t = a.self
        sid, tid = G(a.data, "_sample_ids").data, G(a.data, "_treatment_ids").data
        if arity(a.data) == 2:
            val = lambda rr: fit(t, z3.Select(sid, rr), z3.Select(z3.Select(tid, rr), 0), z3.Select(z3.Select(tid, rr), 1))  # noqa
        else:
            val = lambda rr: fit1(t, z3.Select(sid, rr), z3.Select(z3.Select(tid, rr), 0))  # noqa
        want = (lambda rr: clipv(expit(val(rr)))) if _v else val
        return [("length", ret.shape[0] == n),
                ("row_wise", Forall([("r!cm", Int)], lambda rr: z3.Implies(z3.And(rr >= 0, rr < n), z3.Select(ret.data, rr) == want(rr)),
                                    patterns=lambda rr: [z3.Select(ret.data, rr)], hints=lambda r0: [z3.Select(ret.data, r0), z3.Select(sid, r0)]))]
    cm.ensures("prediction", _cm_post)

# ---- abstract thetas for the stacked / averaged helpers
from pyvc.spec import CLASS_MODELS, TNat  # noqa
from pyvc.values import Ref  # noqa
pm_fn = z3.Function("theta_predict_mean", Ref, Ref, RealArr)  # (theta, screen token) -> per-row predictions (function of both only)
pvb_fn = z3.Function("theta_predict_viability", Ref, Ref, RealArr)
pvar_fn = z3.Function("theta_predict_variance", Ref, Ref, RealArr)


def _theta_method(fn):
    def attr(i, th):
        def call(interp, args, kw, node, fr):
            data = args[0]
            return Arr((nrows(data),), fn(th.term, data.term), "float", fresh=True)
        return call
    return attr


CLASS_MODELS["ThetaTok"] = {"predict_conditional_mean": _theta_method(pm_fn), "predict_viability": _theta_method(pvb_fn),
                            "predict_conditional_variance": _theta_method(pvar_fn)}
T_holder = TObj("batchie.core.ThetaHolder", fields={"_n_thetas": TNat, "thetas": TSeq(TAObj("ThetaTok"))})
M = "batchie.models.main."


def th(a, t):
    return z3.Select(a.thetas.thetas.seq.cols, t)


for fname, fn in (("predict_mean_all", pm_fn), ("predict_viability_all", pvb_fn)):
    pa = contract(M + fname, params=[("screen", TAObj("Screen")), ("thetas", T_holder)], returns=TArr(Real, 2))
    pa.requires(lambda a: screen_shape_wf(a.screen) + [a.thetas.thetas.seq.length == a.thetas._n_thetas])

    def _pa_post(a, ret, st, _fn=fn):
        t, r = z3.Int("t!pa"), z3.Int("r!pa")
        n, m = nrows(a.screen), a.thetas._n_thetas
        return [("shape", z3.And(ret.shape[0] == m, ret.shape[1] == n)),
                ("one_row_per_sample_in_holder_order", z3.ForAll([t, r], z3.Implies(z3.And(t >= 0, t < m, r >= 0, r < n),
                                                                                    z3.Select(z3.Select(ret.data, t), r) == z3.Select(_fn(th(a, t), a.screen.term), r)),
                                                                 patterns=[z3.Select(z3.Select(ret.data, t), r)]))]
    pa.ensures("stacked", _pa_post)

    def _pa_inv(s, _fn=fn):
        t, r = z3.Int("t!pi"), z3.Int("r!pi")
        n = nrows(s.screen)
        return [("shape", z3.And(s.result.shape[0] == s.thetas._n_thetas, s.result.shape[1] == n)),
                ("rows_so_far", z3.ForAll([t, r], z3.Implies(z3.And(t >= 0, t < s.it, r >= 0, r < n),
                                                            z3.Select(z3.Select(s.result.data, t), r) == z3.Select(_fn(th(s, t), s.screen.term), r)),
                                         patterns=[z3.Select(z3.Select(s.result.data, t), r)]))]
    pa.loop("for#0", invariant=_pa_inv)

tsum = z3.Function("theta_sum", z3.ArraySort(Int, Ref), Ref, Int, Int, Int, Real)  # (thetas, screen, which(0 mean/1 viab), row, upto)


def tsum_unfold(a, which, fn, upto):
    r = z3.Int("r!ts")
    T_, S_ = a.thetas.thetas.seq.cols, a.screen.term
    return [z3.ForAll([r], tsum(T_, S_, which, r, 0) == 0, patterns=[tsum(T_, S_, which, r, 0)]),
            z3.ForAll([r], tsum(T_, S_, which, r, upto + 1) == tsum(T_, S_, which, r, upto) + z3.Select(fn(z3.Select(T_, upto), S_), r),
                      patterns=[tsum(T_, S_, which, r, upto + 1)])]


for fname, fn, which in (("predict_mean_avg", pm_fn, 0), ("predict_viability_avg", pvb_fn, 1)):
    pg = contract(M + fname, params=[("screen", TAObj("Screen")), ("thetas", T_holder)], returns=TArr(Real))
    pg.requires(lambda a: screen_shape_wf(a.screen) + [a.thetas.thetas.seq.length == a.thetas._n_thetas, a.thetas._n_thetas >= 1])

    def _pg_post(a, ret, st, _w=which):
        r = z3.Int("r!pg")
        n, m = nrows(a.screen), a.thetas._n_thetas
        return [("length", ret.shape[0] == n),
                ("exact_mean", z3.ForAll([r], z3.Implies(z3.And(r >= 0, r < n),
                                                         z3.Select(ret.data, r) == tsum(a.thetas.thetas.seq.cols, a.screen.term, _w, r, m) / z3.ToReal(m)),
                                         patterns=[z3.Select(ret.data, r)]))]
    pg.ensures("average", _pg_post)

    def _pg_inv(s, _w=which):
        r = z3.Int("r!pgi")
        n = nrows(s.screen)
        return [("length", s.result.shape[0] == n),
                ("partial_sum", z3.ForAll([r], z3.Implies(z3.And(r >= 0, r < n), z3.Select(s.result.data, r) == tsum(s.thetas.thetas.seq.cols, s.screen.term, _w, r, s.it)),
                                          patterns=[z3.Select(s.result.data, r)]))]
    pg.loop("for#0", invariant=_pg_inv, use=(lambda s, _w=which, _fn=fn: tsum_unfold(s, _w, _fn, s.it) + tsum_unfold(s, _w, _fn, s.it - 1)),
            types={"result": TArr(Real)})

# ---- interaction sample: conditional mean (second-order term only) and variance
ISAMPLE = "batchie.models.sparse_combo_interaction.SparseDrugComboInteractionMCMCSample"
T_itheta = TObj(ISAMPLE, fields={"W": TArr(Real, 2), "V2": TArr(Real, 2), "precision": TReal, "single_effect_lookup": TNone})
im = contract(ISAMPLE + ".predict_conditional_mean", params=[("self", T_itheta), ("data", T_screen(2))], returns=TArr(Real))
im.variants = [("arity2", im.params), ("arity1", [("self", T_itheta), ("data", T_screen(1))])]
im.requires(lambda a: screen_shape_wf(a.data) + [a.self.V2.shape[1] == a.self.W.shape[1], a.self.V2.shape[0] >= 1] + (
    [_ids_i(a)] if arity(a.data) == 2 else []))
im.raises("ValueError", lambda a: bool_(arity(a.data) != 2))


def _ids_i(a):
    r = z3.Int("r!ii")
    n = nrows(a.data)
    sid, tid = G(a.data, "_sample_ids").data, G(a.data, "_treatment_ids").data
    nS, nT = a.self.W.shape[0], a.self.V2.shape[0]
    return z3.ForAll([r], z3.Implies(z3.And(r >= 0, r < n), z3.And(z3.Select(sid, r) >= 0, z3.Select(sid, r) < nS,
                                                                  z3.Select(z3.Select(tid, r), 0) >= -1, z3.Select(z3.Select(tid, r), 0) < nT,
                                                                  z3.Select(z3.Select(tid, r), 1) >= -1, z3.Select(z3.Select(tid, r), 1) < nT)),
                     patterns=[z3.Select(sid, r), z3.Select(tid, r)])


def _ispec(a):
    s, x, y, d = z3.Ints("s!is x!is y!is d!is")
    W, V2, nT = a.self.W.data, a.self.V2.data, a.self.V2.shape[0]
    return [z3.ForAll([s, x, y, d], z3.Select(P2(W, V2, nT, s, x, y), d) == z3.Select(z3.Select(W, s), d) * Xz2(V2, nT, x, d) * Xz2(V2, nT, y, d),
                      patterns=[z3.Select(P2(W, V2, nT, s, x, y), d)])] + sumr_axioms()


im.use(_ispec)
im.ensures("interaction_only", lambda a, ret, st: [
    ("length", ret.shape[0] == nrows(a.data)),
    ("row_wise", Forall([("r!im", Int)], lambda rr: z3.Implies(z3.And(rr >= 0, rr < nrows(a.data)), z3.Select(ret.data, rr) == sumr(
        P2(a.self.W.data, a.self.V2.data, a.self.V2.shape[0], z3.Select(G(a.data, "_sample_ids").data, rr),
           z3.Select(z3.Select(G(a.data, "_treatment_ids").data, rr), 0), z3.Select(z3.Select(G(a.data, "_treatment_ids").data, rr), 1)), a.self.W.shape[1])),
        patterns=lambda rr: [z3.Select(ret.data, rr)], hints=lambda r0: [z3.Select(ret.data, r0), z3.Select(G(a.data, "_sample_ids").data, r0)]))])

iv_ = contract(ISAMPLE + ".predict_conditional_variance", params=[("self", T_itheta), ("data", T_screen(2))], returns=TArr(Real))
iv_.requires(lambda a: screen_shape_wf(a.data) + [a.self.precision > 0])
iv_.ensures("reciprocal_precision", lambda a, ret, st: [
    ("length", ret.shape[0] == nrows(a.data)),
    ("values", z3.ForAll([z3.Int("r!iv")], z3.Implies(z3.And(z3.Int("r!iv") >= 0, z3.Int("r!iv") < nrows(a.data)),
                                                    z3.And(z3.Select(ret.data, z3.Int("r!iv")) == 1 / a.self.precision, z3.Select(ret.data, z3.Int("r!iv")) > 0)),
                         patterns=[z3.Select(ret.data, z3.Int("r!iv"))]))])
