"""C09 — predictions are pure, row-wise, treatment-order-symmetric and control-neutral (over the reals)."""
import z3
from pyvc.spec import contract, TObj, TAObj, TTuple, TStr, TInt, TReal, TBool, TSeq, TRef, TNone, NS, Forall, Using
from pyvc.values import Int, Bool, Real, Obj, AObj
from pyvc.lib.arrays import TArr, Arr
from pyvc.lib.np_real import sumr, RealArr, expit, sumr_axioms
from .screen import *  # noqa

SAMPLE = "batchie.models.sparse_combo.SparseDrugComboMCMCSample"
T_theta = TObj(SAMPLE, fields={"W": TArr(Real, 2), "W0": TArr(Real), "V2": TArr(Real, 2), "V1": TArr(Real, 2), "V0": TArr(Real),
                               "alpha": TReal, "precision": TReal})


def theta_wf(t):
    D = t.W.shape[1]
    return [D >= 0, t.V2.shape[1] == D, t.V1.shape[1] == D, t.W0.shape[0] == t.W.shape[0],
            t.V1.shape[0] == t.V2.shape[0], t.V0.shape[0] == t.V2.shape[0],
            t.V2.shape[0] >= 1]  # with zero treatment rows numpy's arr[[-1]] raises IndexError for a control entry


def ids_in_range(t, data, ar):
    r = z3.Int("r!ir")
    n = nrows(data)
    sid, tid = G(data, "_sample_ids").data, G(data, "_treatment_ids").data
    nS, nT = t.W.shape[0], t.V2.shape[0]
    cs = [z3.And(z3.Select(sid, r) >= 0, z3.Select(sid, r) < nS)]
    for c in range(ar):
        cs.append(z3.And(z3.Select(z3.Select(tid, r), c) >= -1, z3.Select(z3.Select(tid, r), c) < nT))
    return z3.ForAll([r], z3.Implies(z3.And(r >= 0, r < n), z3.And(*cs)), patterns=[z3.Select(sid, r), z3.Select(tid, r)])


# spec rows: P2(theta..., s, a, b)[d], P1(...)[d] as uninterpreted row functions with pointwise definitions
P2 = z3.Function("P2_row", z3.ArraySort(Int, RealArr), z3.ArraySort(Int, RealArr), Int, Int, Int, Int, RealArr)  # (W, V2, nT, s, a, b)
P1 = z3.Function("P1_row", z3.ArraySort(Int, RealArr), z3.ArraySort(Int, RealArr), Int, Int, Int, Int, RealArr)  # (W, V1, nT, s, a, b)


def Xz2(X, nT, t, d):
    """embedding entry with the control row zeroed; numpy's negative index would wrap, the copy is zeroed instead"""
    return z3.If(t == -1, z3.RealVal(0), z3.Select(z3.Select(X, t), d))


def Xz1(X, t):
    return z3.If(t == -1, z3.RealVal(0), z3.Select(X, t))


def spec_rows(t):
    s, a, b, d = z3.Ints("s!sp a!sp b!sp d!sp")
    W, V2, V1, nT = t.W.data, t.V2.data, t.V1.data, t.V2.shape[0]
    return [z3.ForAll([s, a, b, d], z3.Select(P2(W, V2, nT, s, a, b), d) == z3.Select(z3.Select(W, s), d) * Xz2(V2, nT, a, d) * Xz2(V2, nT, b, d),
                      patterns=[z3.Select(P2(W, V2, nT, s, a, b), d)]),
            z3.ForAll([s, a, b, d], z3.Select(P1(W, V1, nT, s, a, b), d) == z3.Select(z3.Select(W, s), d) * (Xz2(V1, nT, a, d) + Xz2(V1, nT, b, d)),
                      patterns=[z3.Select(P1(W, V1, nT, s, a, b), d)])]


def fit(t, s, a, b):
    """modelled mean of one experiment: a function of the sample id and the two treatment ids only"""
    D = t.W.shape[1]
    nT = t.V2.shape[0]
    return (t.alpha + z3.Select(t.W0.data, s) + Xz1(t.V0.data, a) + Xz1(t.V0.data, b) +
            sumr(P1(t.W.data, t.V1.data, nT, s, a, b), D) + sumr(P2(t.W.data, t.V2.data, nT, s, a, b), D))


def clipv(x):
    lo, hi = z3.RealVal("0.01"), z3.RealVal("0.99")
    x = z3.If(x < lo, lo, x)
    return z3.If(x > hi, hi, x)


# ---- copy_array_with_control_treatments_set_to_zero
CP = "batchie.common.copy_array_with_control_treatments_set_to_zero"
cp = contract(CP, params=[("arr", TArr(Real, 2)), ("treatment_array", TArr(Int))], returns=TArr(Real, 2))
cp.variants = [("2d", cp.params), ("1d", [("arr", TArr(Real)), ("treatment_array", TArr(Int))])]


def _cp_req(a):
    k = z3.Int("k!cpr")
    return [z3.ForAll([k], z3.Implies(z3.And(k >= 0, k < a.treatment_array.shape[0]),
                                      z3.And(z3.Select(a.treatment_array.data, k) >= -1, z3.Select(a.treatment_array.data, k) < a.arr.shape[0])),
                      patterns=[z3.Select(a.treatment_array.data, k)]),
            z3.Implies(a.treatment_array.shape[0] > 0, a.arr.shape[0] >= 1)]


cp.requires(_cp_req)


def _cp_post(a, ret, st):
    k, d = z3.Int("k!cp"), z3.Int("d!cp")
    t = lambda kk: z3.Select(a.treatment_array.data, kk)  # noqa
    n = a.treatment_array.shape[0]
    out = [("fresh_copy", bool_(ret is not a.arr and getattr(ret, "origin", "") == "fresh")),
           ("source_untouched", same_array(a.arr, a.old.arr))]
    if a.arr.ndim == 2:
        D = a.arr.shape[1]
        out.append(("rows", z3.And(ret.shape[0] == n, ret.shape[1] == D, z3.ForAll([k, d], z3.Implies(
            z3.And(k >= 0, k < n, d >= 0, d < D), z3.Select(z3.Select(ret.data, k), d) == z3.If(t(k) == -1, z3.RealVal(0), z3.Select(z3.Select(a.arr.data, t(k)), d))),
            patterns=[z3.Select(z3.Select(ret.data, k), d)]))))
    else:
        out.append(("entries", z3.And(ret.shape[0] == n, z3.ForAll([k], z3.Implies(
            z3.And(k >= 0, k < n), z3.Select(ret.data, k) == z3.If(t(k) == -1, z3.RealVal(0), z3.Select(a.arr.data, t(k)))),
            patterns=[z3.Select(ret.data, k)]))))
    return out


cp.ensures("zeroed_copy", _cp_post)
cp.inline = True

# ---- predict (arity 2) and predict_single_drug (arity 1)
PR = "batchie.models.sparse_combo.predict"
pr = contract(PR, params=[("mcmc_sample", T_theta), ("data", T_screen(2)), ("viability", TBool)], returns=TArr(Real))
pr.variants = [("mean", [("mcmc_sample", T_theta), ("data", T_screen(2)), ("viability", __import__("pyvc.spec", fromlist=["TConst"]).TConst(False))]),
               ("viability", [("mcmc_sample", T_theta), ("data", T_screen(2)), ("viability", __import__("pyvc.spec", fromlist=["TConst"]).TConst(True))])]
pr.requires(lambda a: screen_shape_wf(a.data) + theta_wf(a.mcmc_sample) + [ids_in_range(a.mcmc_sample, a.data, 2)])
pr.use(lambda a: spec_rows(a.mcmc_sample) + sumr_axioms())


def _pr_post(a, ret, st):
    r = z3.Int("r!pp")
    n = nrows(a.data)
    t = a.mcmc_sample
    sid, tid = G(a.data, "_sample_ids").data, G(a.data, "_treatment_ids").data
    val = lambda rr: fit(t, z3.Select(sid, rr), z3.Select(z3.Select(tid, rr), 0), z3.Select(z3.Select(tid, rr), 1))  # noqa
    want = (lambda rr: clipv(expit(val(rr)))) if a.viability is True else val
    def hints(r0):
        out = [z3.Select(ret.data, r0), z3.Select(sid, r0)]
        fr = getattr(st, "_cur_frame", None)
        for nm in ("Mu", "intercept", "interaction1", "interaction2"):
            v = fr.locals.get(nm) if fr is not None else None
            if isinstance(v, Arr):
                out.append(z3.Select(v.data, r0))
        return out
    return [("length", ret.shape[0] == n),
            ("row_wise", Forall([("r!pp", Int)], lambda rr: z3.Implies(z3.And(rr >= 0, rr < n), z3.Select(ret.data, rr) == want(rr)),
                                patterns=lambda rr: [z3.Select(ret.data, rr)], hints=hints)),
            ("sample_untouched", z3.And(*[same_array(getattr(t, f), getattr(a.old.mcmc_sample, f)) for f in ("W", "W0", "V2", "V1", "V0")])),
            ("screen_untouched", z3.And(same_array(G(a.data, "_sample_ids"), a.old.data._sample_ids), same_array(G(a.data, "_treatment_ids"), a.old.data._treatment_ids)))]


pr.ensures("prediction", _pr_post)
