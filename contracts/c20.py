"""C20 — evaluation metrics equal their definitions (over the reals)."""
import z3
from pyvc.spec import contract, TObj, TAObj, TTuple, TStr, TInt, TReal, TBool, TSeq, TRef, TNone, TClass, NS, Forall, Using
from pyvc.values import Int, Bool, Real, Str, Obj, AObj
from pyvc.lib.arrays import TArr, Arr
from pyvc.lib.np_real import sumr, RealArr, A2, row_tot, dev2, mean1, var1, sumr_axioms, mean_axioms, scaled, sq
from .screen import same_array, bool_

ME = "batchie.models.main.ModelEvaluation"
T_me = TObj(ME, fields={"_predictions": TArr(Real, 2), "_observations": TArr(Real), "_chain_ids": TArr(Int), "_sample_names": TArr(Str)})
sq_err = z3.Function("sq_err", A2, RealArr, A2)  # sq_err(P, o)[e][t] = (P[e][t] - o[e])^2


def se_axioms():
    P, o = z3.Const("P!se", A2), z3.Const("o!se", RealArr)
    e, t = z3.Ints("e!se t!se")
    x = z3.Select(z3.Select(P, e), t) - z3.Select(o, e)
    return [z3.ForAll([P, o, e, t], z3.Select(z3.Select(sq_err(P, o), e), t) == sq(x), patterns=[z3.Select(z3.Select(sq_err(P, o), e), t)])]


def me_wf(s):
    n, m = s._predictions.shape[0], s._predictions.shape[1]
    return [s._observations.shape[0] == n, s._sample_names.shape[0] == n, s._chain_ids.shape[0] == m, n >= 1, m >= 1]


AX = lambda a: sumr_axioms() + mean_axioms() + se_axioms() + pem_axiom()  # noqa

ms = contract(ME + ".mse", params=[("self", T_me)], returns=TReal)
ms.requires(lambda a: me_wf(a.self))
ms.use(AX)
ms.ensures("definition", lambda a, ret, st: [("mean_over_all_pairs", ret == sumr(row_tot(sq_err(a.self._predictions.data, a.self._observations.data), a.self._predictions.shape[1]),
                                                                                a.self._predictions.shape[0]) / z3.ToReal(a.self._predictions.shape[0] * a.self._predictions.shape[1]))])

mv = contract(ME + ".mse_variance", params=[("self", T_me)], returns=TReal)
mv.requires(lambda a: me_wf(a.self))
mv.use(AX)


pem = z3.Function("per_experiment_mse", A2, RealArr, Int, RealArr)  # pem(P, o, m)[e] = sum_t (P[e][t]-o[e])^2 / m


def pem_axiom():
    P, o = z3.Const("P!pm", A2), z3.Const("o!pm", RealArr)
    m, e = z3.Ints("m!pm e!pm")
    return [z3.ForAll([P, o, m, e], z3.Select(pem(P, o, m), e) == sumr(z3.Select(sq_err(P, o), e), m) / z3.ToReal(m),
                      patterns=[z3.Select(pem(P, o, m), e)])]


def per_exp_mse(s):
    """per-experiment mean squared error as a spec array"""
    return pem(s._predictions.data, s._observations.data, s._predictions.shape[1])


def _mv_post(a, ret, st):
    from pyvc.lib.np_real import var_cong
    n = a.self._predictions.shape[0]
    args = st.ctx.ghost.get("var_args", [])
    lem = [var_cong(x.data, per_exp_mse(a.self), n) for x in args]
    return [("variance_across_experiments", Using(lem, ret == var1(per_exp_mse(a.self), n)))]


mv.ensures("definition", _mv_post)

mp = contract(ME + ".mean_predictions", params=[("self", T_me)], returns=TArr(Real))
mp.requires(lambda a: me_wf(a.self))
mp.use(AX)
mp.ensures("definition", lambda a, ret, st: [
    ("length", ret.shape[0] == a.self._predictions.shape[0]),
    ("mean_over_samples", z3.ForAll([z3.Int("e!mp")], z3.Implies(z3.And(z3.Int("e!mp") >= 0, z3.Int("e!mp") < a.self._predictions.shape[0]),
                                                                 z3.Select(ret.data, z3.Int("e!mp")) == sumr(z3.Select(a.self._predictions.data, z3.Int("e!mp")), a.self._predictions.shape[1]) /
                                                                 z3.ToReal(a.self._predictions.shape[1])), patterns=[z3.Select(ret.data, z3.Int("e!mp"))]))])

# ---- ModelEvaluation.__init__ (validation) and the h5 round trip
from pyvc.lib import h5 as H5  # noqa
mi = contract(ME + ".__init__", params=[("self", TObj(ME)), ("predictions", TArr(Real, 2)), ("observations", TArr(Real)), ("chain_ids", TArr(Int)), ("sample_names", TArr(Str))])
mi.inline = True
mi.raises("ValueError", lambda a: z3.Or(a.predictions.shape[0] != a.observations.shape[0], a.sample_names.shape[0] != a.observations.shape[0],
                                        a.chain_ids.shape[0] != a.predictions.shape[1]))
mi.ensures("stores", lambda a, ret, st: [("fields", bool_(a.self.fields.get("_predictions") is a.predictions and a.self.fields.get("_observations") is a.observations
                                                         and a.self.fields.get("_chain_ids") is a.chain_ids and a.self.fields.get("_sample_names") is a.sample_names))])

rt = contract("scenarios.c20.evaluation_roundtrip", params=[("m", T_me), ("fn", TStr)])
rt.requires(lambda a: me_wf(a.m))
rt.ensures("reloads_unchanged", lambda a, ret, st: [(f, same_array(ret.fields[f], getattr(a.m, f))) for f in ("_predictions", "_observations", "_chain_ids", "_sample_names")])

# ---- retrospective.calculate_mse = mean over rows of (average viability - observation)^2
from .c09 import T_holder, tsum, pvb_fn  # noqa
from .screen import T_screen, screen_shape_wf, nrows, G  # noqa
cm = contract("batchie.retrospective.calculate_mse", params=[("observed_screen", TAObj("Screen")), ("thetas", T_holder)], returns=TReal)
cm.requires(lambda a: screen_shape_wf(a.observed_screen) + [a.thetas.thetas.seq.length == a.thetas._n_thetas, a.thetas._n_thetas >= 1, nrows(a.observed_screen) >= 1])
avg_err2 = z3.Function("avg_sq_err", z3.ArraySort(Int, Ref_ := __import__("pyvc.values", fromlist=["Ref"]).Ref), Ref_, Int, RealArr, RealArr)


def _cm_ax(a):
    r = z3.Int("r!cm")
    T_, S_, m = a.thetas.thetas.seq.cols, a.observed_screen.term, a.thetas._n_thetas
    ob = G(a.observed_screen, "_observations").data
    return sumr_axioms() + [z3.ForAll([r], z3.Select(avg_err2(T_, S_, m, ob), r) == sq(tsum(T_, S_, 1, r, m) / z3.ToReal(m) - z3.Select(ob, r)),
                                      patterns=[z3.Select(avg_err2(T_, S_, m, ob), r)])]


cm.use(_cm_ax)
cm.ensures("definition", lambda a, ret, st: [("mean_squared_error_of_average_viability", ret == mean1(
    avg_err2(a.thetas.thetas.seq.cols, a.observed_screen.term, a.thetas._n_thetas, G(a.observed_screen, "_observations").data), nrows(a.observed_screen)))])
