"""C19 — resuming the orchestration script: contracts on the real functions of nextflow/scripts/batchie.py over the abstract
file system of pyvc/lib/fs.py."""
import z3
from pyvc.spec import contract, TInt, TAObj, TOpt, TStr, TSeq, NS, Forall, TPyList
from pyvc.values import Int, Bool, Str, Ref, OptV, AObj
from pyvc.lib import fs as F
from pyvc.lib.fs import Path, KINDS

S = "nextflow_script."
TPath = TAObj(F.PATH, Path)
TMeta = TAObj(F.META)
META, ADV, TRAIN, SEL = KINDS["screen_metadata.json"], KINDS["advanced_screen.h5"], KINDS["training.screen.h5"], KINDS["selected_plate"]


def _setup(interp, a):
    a.ghost["fs0"] = F.state(interp)
    interp.ctx.assume(Path.is_Root(a.output_dir.term))


# ----------------------------------------------------------------------------------------- spec predicates over a state
def job_dir(fs, i, j): return fs.job_dir(i, j)


def nonempty(fs, i):
    j = z3.Int("j!ne")
    return z3.And(fs.iter_dir(i), z3.Exists([j], fs.job_dir(i, j)))


def defect(fs, i, j):
    """plate dir (i,j) is what examine refuses: it has no metadata, or plate_<j-1> is missing (a directory with no ancestor)"""
    return z3.And(fs.iter_dir(i), fs.job_dir(i, j), z3.Or(fs.nfiles(META, i, j) == 0, z3.And(j > 0, z3.Not(fs.job_dir(i, j - 1)))))


def any_defect(fs):
    i, j = z3.Ints("i!ad j!ad")
    return z3.Exists([i, j], defect(fs, i, j), patterns=[z3.Select(z3.Select(fs.dir_job, i), j)])


def last_step(fs, I, J):
    """(I,J) is the plate dir with the highest plate number inside the non-empty iteration dir with the highest number"""
    i, j = z3.Ints("i!ls j!ls")
    return z3.And(fs.iter_dir(I), fs.job_dir(I, J),
                  z3.ForAll([j], z3.Implies(j > J, z3.Not(fs.job_dir(I, j))), patterns=[fs.job_dir(I, j)] if False else []),
                  z3.ForAll([i], z3.Implies(i > I, z3.Not(nonempty(fs, i)))))


def screen_of(fs, I, J):
    """what get_screen_from_job_output finds: (is None, path)"""
    return (z3.And(fs.nfiles(ADV, I, J) == 0, fs.nfiles(TRAIN, I, J) == 0),
            z3.If(fs.nfiles(ADV, I, J) > 0, Path.File(ADV, I, J, 0), Path.File(TRAIN, I, J, 0)))


def succ(I, J, B):
    return (z3.If(J >= B - 1, I + 1, I), z3.If(J >= B - 1, z3.IntVal(0), J + 1))


def _isnone(x):
    if x is None:
        return z3.BoolVal(True)
    if isinstance(x, OptV):
        return x.isnone
    return z3.BoolVal(False)


def _val(x, default=None):
    if isinstance(x, OptV):
        x = x.val
    if isinstance(x, AObj):
        return x.term
    if x is None:
        return default
    return x


_D = z3.IntVal(-7)  # placeholder for the value of a variable that is None (only ever used under the guard "is not None")
_DM = z3.Const("no_meta", F.meta_of.range())


# ----------------------------------------------------------------------------------------- examine_output_dir_...
ex = contract(S + "examine_output_dir_to_determine_current_iteration", params=[("output_dir", TPath), ("batch_size", TInt)])
ex.setup = _setup
def _named_dir_is_the_defective_one(a):
    """the RuntimeError's message interpolates a path: it must be a plate directory that is itself defective (the one the operator is
    told to delete) - never a completed step"""
    exc = a.ghost.get("raised")
    fs = a.ghost["fs0"]
    msg = exc.args[0] if exc is not None and getattr(exc, "args", None) else None
    paths = [p for p in getattr(msg, "parts", []) if isinstance(p, AObj) and p.clsname == F.PATH]
    if len(paths) != 1:
        return z3.BoolVal(False)
    t = paths[0].term
    return z3.And(Path.is_Job(t), defect(fs, Path.ji(t), Path.jj(t)))


ex.raises("RuntimeError", lambda a: z3.And(any_defect(a.ghost["fs0"]), _named_dir_is_the_defective_one(a)) if a.ghost.get("raised") is not None else any_defect(a.ghost["fs0"]))


def ex_post_formulas(fs, B, ni, nj, meta_none, meta, scr_none, scr, I, J):
    """postcondition of examine for a normal return, over explicit values ((I,J) = the witness for 'the last step')"""
    i = z3.Int("i!ep")
    sn, sp = screen_of(fs, I, J)
    return [("fresh_start_iff_no_plate_dir", meta_none == z3.Not(z3.Exists([i], nonempty(fs, i)))),
            ("fresh_start_result", z3.Implies(meta_none, z3.And(ni == 0, nj == 0, scr_none))),
            ("last_step_found", z3.Implies(z3.Not(meta_none), last_step(fs, I, J))),
            ("next_step_is_successor", z3.Implies(z3.Not(meta_none), z3.And(ni == succ(I, J, B)[0], nj == succ(I, J, B)[1]))),
            ("meta_of_last_step", z3.Implies(z3.Not(meta_none), meta == F.meta_of(Path.File(META, I, J, 0)))),
            ("screen_of_last_step", z3.Implies(z3.Not(meta_none), z3.And(scr_none == sn, z3.Implies(z3.Not(sn), scr == sp))))]


_DP = z3.Const("no_path", Path)


def _ex_post(a, ret, st):
    fs = a.ghost["fs0"]
    ni, nj, meta, scr = ret
    loc = st._cur_frame.locals
    I, J = _val(loc.get("current_iter_index"), _D), _val(loc.get("current_plate_idx"), _D)
    out = [("step_indices_are_integers", z3.Not(z3.Or(_isnone(ni), _isnone(nj))))]
    return out + ex_post_formulas(fs, a.batch_size, _val(ni, _D), _val(nj, _D), _isnone(meta), _val(meta, _DM), _isnone(scr), _val(scr, _DP), I, J)


ex.ensures("result", _ex_post)


def _ex_apply(i, a, node, fr):
    """call-site use of the contract proved above: on the CURRENT file-system state"""
    from pyvc.engine import PyRaise, ExcVal
    fs = F.state(i)
    ctx = i.ctx
    if ctx.decide(any_defect(fs)):
        raise PyRaise(ExcVal("RuntimeError"), node)
    ni, nj, I, J = ctx.fresh("next_iter", Int), ctx.fresh("next_plate", Int), ctx.fresh("last_iter", Int), ctx.fresh("last_plate", Int)
    meta = OptV(ctx.fresh("meta_none", Bool), AObj(F.META, ctx.fresh("meta", F.meta_of.range())))
    scr = OptV(ctx.fresh("scr_none", Bool), F.P(ctx.fresh("scr", Path)))
    for nm, f in ex_post_formulas(fs, a.batch_size, ni, nj, meta.isnone, meta.val.term, scr.isnone, scr.val.term, I, J):
        ctx.assume(f)
    ctx.ghost["examine_result"] = dict(fs=fs, ni=ni, nj=nj, I=I, J=J, meta=meta, scr=scr)
    return (ni, nj, meta, scr)


ex.apply = _ex_apply


def _sorted_dirs(v, name):
    sl = getattr(v, name)
    return sl.seq


def _outer_inv(v):
    fs = v.ghost["fs0"]
    SI = v.iter_dirs.seq
    k, i, j = z3.Ints("k!oi i!oi j!oi")
    meta, ci, cp = v.last_successful_run_meta, v.current_iter_index, v.current_plate_idx
    numk = Path.it(z3.Select(SI.cols, k))
    I, J = _val(ci, _D), _val(cp, _D)
    none = _isnone(meta)
    out = [("scanned_have_no_defect", z3.ForAll([k, j], z3.Implies(z3.And(k >= 0, k < v.it), z3.Not(defect(fs, numk, j))))),
           ("none_only_if_all_scanned_empty", z3.Implies(none, z3.ForAll([k, j], z3.Implies(z3.And(k >= 0, k < v.it), z3.Not(fs.job_dir(numk, j))),
                                                                        patterns=[z3.Select(z3.Select(fs.dir_job, numk), j)]))),
           ("found", z3.Implies(z3.Not(none), z3.And(
               z3.Not(_isnone(ci)), z3.Not(_isnone(cp)), fs.iter_dir(I), fs.job_dir(I, J),
               z3.ForAll([j], z3.Implies(j > J, z3.Not(fs.job_dir(I, j)))),
               z3.ForAll([k], z3.Implies(z3.And(k >= 0, k < v.it, nonempty(fs, numk)), numk <= I)),
               _val(meta, _DM) == F.meta_of(Path.File(META, I, J, 0)))))]
    try:
        pdv = v.plate_dir
    except Exception:
        pdv = None
    if pdv is not None:
        out.append(("leaked_loop_variable", z3.Implies(z3.Not(none), _val(pdv) == Path.Job(I, J))))
    # the listing of the iteration directory scanned LAST also survives the loop (Python keeps `plate_dirs` bound): it describes that directory -
    # possibly an empty one that carries no information -, not the iteration of the last completed step
    try:
        pds = v.plate_dirs
    except Exception:
        pds = None
    if pds is not None and hasattr(pds, "seq"):
        last = Path.it(z3.Select(SI.cols, v.it - 1))
        out.append(("leaked_listing_is_that_of_the_directory_scanned_last", z3.Implies(v.it > 0, z3.And(pds.seq.length >= 0, z3.ForAll([j], fs.job_dir(last, j) == z3.And(j >= 0, j < pds.seq.length),
                                                                                                   patterns=[z3.Select(z3.Select(fs.dir_job, last), j)])))))
    return out


def _inner_inv(v):
    fs = v.ghost["fs0"]
    SP = v.plate_dirs.seq
    T = Path.it(v.iter_dir.term)
    k = z3.Int("k!ii")
    meta, ci, cp = v.last_successful_run_meta, v.current_iter_index, v.current_plate_idx
    pm, pci = v.pre.last_successful_run_meta, v.pre.current_iter_index
    out = [("prefix_contiguous_with_metadata", z3.ForAll([k], z3.Implies(z3.And(k >= 0, k < v.it), z3.And(
        z3.Select(SP.cols, k) == Path.Job(T, k), fs.nfiles(META, T, k) > 0, fs.job_dir(T, k))),
        patterns=[z3.Select(SP.cols, k), z3.Select(z3.Select(fs.dir_job, T), k)])),
        ("plate_idx", z3.And(z3.Not(_isnone(cp)), _val(cp, _D) == z3.If(v.it == 0, 0, v.it - 1))),
        ("unchanged_before_first", z3.Implies(v.it == 0, z3.And(_isnone(meta) == _isnone(pm), _isnone(ci) == _isnone(pci),
                                                                  z3.Implies(z3.Not(_isnone(pm)), _val(meta, _DM) == _val(pm, _DM)),
                                                                  z3.Implies(z3.Not(_isnone(pci)), _val(ci, _D) == _val(pci, _D))))),
        ("after_some", z3.Implies(v.it > 0, z3.And(z3.Not(_isnone(meta)), z3.Not(_isnone(ci)), _val(ci, _D) == T,
                                                    _val(meta, _DM) == F.meta_of(Path.File(META, T, v.it - 1, 0)))))]
    try:
        pdv, ppd = v.plate_dir, getattr(v.pre, "plate_dir", None)
    except Exception:
        pdv = None
    if pdv is not None:
        out.append(("leaked_loop_variable", z3.And(z3.Implies(v.it > 0, _val(pdv) == Path.Job(T, v.it - 1)),
                                                   z3.Implies(v.it == 0, _val(pdv) == _val(ppd)) if ppd is not None else True)))
    return out


_T = {"last_successful_run_meta": TOpt(TMeta), "current_iter_index": TOpt(TInt), "current_plate_idx": TOpt(TInt), "plate_dir": TPath}
ex.loop("for#0", invariant=_outer_inv, types=dict(_T, plate_dirs=TSeq(TPath)))
ex.loop("for#1", invariant=_inner_inv, types=dict(_T))


# ghost lemmas: what the sorted, filtered glob listings are (proved where they are built, used by the invariants)
def _listing_lemmas(name, is_kind, parent_ok, key, isdir):
    def f(v):
        sl = getattr(v, name).seq
        k, k2, n = z3.Ints("k!ll k2!ll n!ll")
        e, e2 = z3.Select(sl.cols, k), z3.Select(sl.cols, k2)
        return [("entries_are_directories_of_that_level", Forall([("k!ll", Int)], lambda kk: z3.Implies(z3.And(kk >= 0, kk < sl.length), z3.And(
                    is_kind(z3.Select(sl.cols, kk)), parent_ok(v, z3.Select(sl.cols, kk)), key(z3.Select(sl.cols, kk)) >= 0, isdir(v, key(z3.Select(sl.cols, kk))))),
                    patterns=lambda kk: [z3.Select(sl.cols, kk)], hints=lambda k0: [z3.Select(sl.cols, k0)])),
                ("strictly_increasing", Forall([("k!ll", Int), ("k2!ll", Int)], lambda a, b: z3.Implies(z3.And(a >= 0, a < b, b < sl.length),
                    key(z3.Select(sl.cols, a)) < key(z3.Select(sl.cols, b))),
                    patterns=lambda a, b: [z3.MultiPattern(z3.Select(sl.cols, a), z3.Select(sl.cols, b))], hints=lambda a, b: [z3.Select(sl.cols, a), z3.Select(sl.cols, b)])),
                ("every_directory_is_listed", Forall([("n!ll", Int)], lambda nn: z3.Implies(isdir(v, nn), z3.Exists([k], z3.And(k >= 0, k < sl.length, key(e) == nn))),
                    patterns=lambda nn: [_dir_trigger(v, name, nn)], hints=lambda n0: [_dir_trigger(v, name, n0)]))]
    return f


def _dir_trigger(v, name, n):
    fs = v.ghost["fs0"]
    if name == "iter_dirs":
        return z3.Select(fs.dir_iter, n)
    return z3.Select(z3.Select(fs.dir_job, Path.it(v.iter_dir.term)), n)


ex.after("iter_dirs", _listing_lemmas("iter_dirs", Path.is_Iter, lambda v, e: z3.BoolVal(True), Path.it, lambda v, n: v.ghost["fs0"].iter_dir(n)), ordinal=1)
ex.after("plate_dirs", _listing_lemmas("plate_dirs", Path.is_Job, lambda v, e: Path.ji(e) == Path.it(v.iter_dir.term), Path.jj,
                                       lambda v, n: v.ghost["fs0"].job_dir(Path.it(v.iter_dir.term), n)), ordinal=1)


# ----------------------------------------------------------------------------------------- small helpers of the script
for _fn, _lit in (("get_main_nf_file", "<main.nf>"), ("get_repository_root", "<repository root>")):
    _c = contract(S + _fn, params=[], returns=TStr)
    _c.trusted = True  # location of the installation: a constant outside the output directory (os.path on __file__ is not modelled)
    _c.apply = (lambda lit: (lambda i, a, node, fr: lit))(_lit)

gs = contract(S + "get_selected_plates", params=[("output_dir", TPath)])
gs.setup = lambda interp, a: (a.ghost.__setitem__("fs0", F.state(interp)), interp.ctx.assume(Path.is_Iter(a.output_dir.term)))


def _gs_post(a, ret, st):
    pl = st._cur_frame.locals["plates"].seq
    k = z3.Int("k!gs")
    if ret is None:
        return [("none_iff_no_selection_file", pl.length == 0)]
    out = ret.seq
    return [("none_iff_no_selection_file", pl.length > 0), ("one_entry_per_selection_file", out.length == pl.length),
            ("entries_are_file_contents", z3.ForAll([k], z3.Implies(z3.And(k >= 0, k < pl.length), z3.Select(out.cols, k) == F.content_of(z3.Select(pl.cols, k))),
                                                    patterns=[z3.Select(out.cols, k)]))]


gs.ensures("selected", _gs_post)
gs.loop("for#0", invariant=lambda v: [
    ("len", v.output.seq.length == v.it),
    ("contents", z3.ForAll([z3.Int("k!gsi")], z3.Implies(z3.And(z3.Int("k!gsi") >= 0, z3.Int("k!gsi") < v.it),
                                                        z3.Select(v.output.seq.cols, z3.Int("k!gsi")) == F.content_of(z3.Select(v.plates.seq.cols, z3.Int("k!gsi")))),
                          patterns=[z3.Select(v.output.seq.cols, z3.Int("k!gsi"))]))],
    types={"output": TSeq(TStr)})


def _gs_apply(i, a, node, fr):
    """call-site use: the listing of selection files of that iteration directory (fresh glob listing), mapped to contents"""
    from pyvc.values import SymList, Seq
    pat = F.PatV(a.output_dir, ("plate_*", "*", "selected_plate"))
    pl = F.FUNCS_glob(i, [pat], {}, node, fr)
    ctx = i.ctx
    if ctx.decide(pl.seq.length == 0):
        ctx.ghost["selected_listing"] = dict(fs=F.state(i), dir=a.output_dir.term, result=None)
        return None
    cols = ctx.fresh("selected", z3.ArraySort(Int, F.content_of.range()))
    k = z3.Int("k!gsa")
    ctx.assume(z3.ForAll([k], z3.Implies(z3.And(k >= 0, k < pl.seq.length), z3.Select(cols, k) == F.content_of(z3.Select(pl.seq.cols, k))), patterns=[z3.Select(cols, k)]))
    r = SymList(Seq(pl.seq.length, cols))
    r.selected_of = pl
    ctx.ghost["selected_listing"] = dict(fs=F.state(i), dir=a.output_dir.term, result=r)
    return r


gs.apply = _gs_apply


# ----------------------------------------------------------------------------------------- run_next_*_step
TExt = TAObj(F.PATH, Path)
TArgs = TPyList(TStr)


def _step_setup(interp, a):
    fs = F.state(interp)
    a.ghost["fs0"] = fs
    ctx = interp.ctx
    ctx.assume(Path.is_Root(a.output_dir.term))
    ctx.assume(Path.is_Ext(a.input_screen.term))
    ctx.assume(a.batch_size >= 1)
    for f in fs_wf(fs):
        ctx.assume(f)


def fs_wf(fs):
    """files live in plate directories, plate directories in iteration directories"""
    k, i, j = z3.Ints("k!wf i!wf j!wf")
    return [z3.ForAll([k, i, j], z3.Implies(z3.And(k >= 0, k < F.NKINDS, fs.nfiles(k, i, j) > 0), fs.job_dir(i, j)), patterns=[fs.nfiles(k, i, j)]),
            z3.ForAll([i, j], z3.Implies(z3.Select(z3.Select(fs.ex_job, i), j), z3.And(fs.iter_dir(i), z3.Select(z3.Select(fs.dir_job, i), j))),
                      patterns=[z3.Select(z3.Select(fs.ex_job, i), j)]),
            # entries named iter_<n> / plate_<n> are directories (nothing but this script writes such names)
            z3.ForAll([i], z3.Implies(z3.Select(fs.ex_iter, i), z3.Select(fs.dir_iter, i)), patterns=[z3.Select(fs.ex_iter, i)])]


def _ops(st):
    return st.ctx.ghost.get("fs_ops", [])


def _step_post(mode):
    def post(a, ret, st):
        g = st.ctx.ghost
        fs0 = g["fs0"]
        er = g.get("examine_result")
        ops = [o for o in _ops(st) if not (o[0] == "makedirs" and o[1].eq(a.output_dir.term))]  # makedirs(outdir) itself: no-op on the tree
        out = [("examined_the_entry_state", z3.BoolVal(er is not None and er["fs"] is fs0))]
        if er is None:
            return out
        ni, nj, I, J, meta, scr = er["ni"], er["nj"], er["I"], er["J"], er["meta"], er["scr"]
        target = Path.Job(ni, nj)
        if ret is False and not ops:
            out.append(("stops_without_touching_anything_only_when_nothing_remains" if mode == "retrospective" else "no_ops",
                        z3.And(z3.Not(meta.isnone), F.n_unobserved(meta.val.term) <= 0) if mode == "retrospective" else z3.BoolVal(False)))
            return out
        kinds = [o[0] for o in ops]
        out.append(("clears_creates_then_runs_exactly_once", z3.BoolVal(kinds == ["rmtree", "makedirs", "run"])))
        if kinds != ["rmtree", "makedirs", "run"]:
            return out
        out.append(("every_mutation_is_inside_the_next_step_directory", z3.And(*[o[1] == target for o in ops])))
        out.append(("the_cleared_directory_is_not_a_completed_step", fs0.nfiles(META, ni, nj) == 0))
        opts = ops[2][4]
        rest = opts.get("_rest", [])
        first_of_iter = Path.Job(ni, 0)
        def is_pat(x, base, kind): return z3.BoolVal(isinstance(x, F.PatV) and x.parts == ("*", kind)) if not isinstance(x, F.PatV) or x.parts != ("*", kind) else x.base.term == base  # noqa
        if mode == "retrospective":
            out.append(("returns_true_after_running", z3.BoolVal(ret is True)))
            init = z3.And(ni == 0, nj == 0)
            m = opts.get("--mode")
            if opts.get("--initialize") == "true":
                out.append(("initial_step_iff_first", init))
                out.append(("initial_step_reads_the_input_screen", z3.BoolVal(m == "retrospective" and opts.get("--screen") is a.input_screen)))
            elif opts.get("--initialize") == "false":
                out.append(("first_plate_of_a_later_iteration", z3.And(nj == 0, z3.Not(init))))
                ts = opts.get("--training_screen")
                out.append(("trains_on_the_screen_of_the_immediate_predecessor", z3.BoolVal(ts is scr or (isinstance(ts, OptV) and ts is scr) or (F.is_path(ts) and ts is scr.val))))
                te = opts.get("--test_screen")
                out.append(("test_screen_from_the_first_step", z3.BoolVal(F.is_path(te)) if not F.is_path(te) else te.term == Path.File(TRAIN, 0, 0, 0)))
            else:
                out.append(("later_plate_of_the_iteration", z3.And(nj > 0, z3.BoolVal(m == "next_plate" and opts.get("--reveal") == "true"))))
                sc = opts.get("--screen")
                out.append(("continues_from_the_screen_of_the_immediate_predecessor", z3.BoolVal(sc is scr or (F.is_path(sc) and sc is scr.val))))
        else:
            out.append(("asks_for_another_step_iff_the_batch_is_unfinished", (ret == (nj < a.batch_size - 1)) if z3.is_expr(ret) else z3.BoolVal(False)))
            m = opts.get("--mode")
            if m == "prospective":
                out.append(("first_plate_of_an_iteration", nj == 0))
            else:
                out.append(("later_plate_of_the_iteration", z3.And(nj > 0, z3.BoolVal(m == "next_plate" and opts.get("--reveal") == "true"))))
            out.append(("prospective_steps_read_the_input_screen", z3.BoolVal(opts.get("--screen") is a.input_screen)))
        if opts.get("--mode") == "next_plate":
            th, dm = opts.get("--thetas"), opts.get("--distance_matrix")
            out.append(("model_and_distances_from_the_first_plate_of_this_iteration", z3.And(
                z3.BoolVal(isinstance(th, F.PatV) and th.parts == ("*", "thetas*.h5") and isinstance(dm, F.PatV) and dm.parts == ("*", "distance_matrix_chunk*.h5")),
                *( [th.base.term == first_of_iter, dm.base.term == first_of_iter] if isinstance(th, F.PatV) and isinstance(dm, F.PatV) else []))))
            exc = [x for x in rest if isinstance(x, F.Excludes)]
            sel = g.get("selected_listing")
            import os as _os
            if _os.environ.get("C19_DEBUG"):
                print("DEBUG exc", exc, [type(x) for x in rest], sel, [getattr(x, "items", None) for x in exc])
            out.append(("excludes_are_the_selections_recorded_in_this_iteration_before_clearing",
                        z3.BoolVal(len(exc) <= 1 and (len(exc) == 0) == (sel is None or sel.get("result") is None) and
                                   (len(exc) == 0 or (exc[0].items is sel.get("result") and sel["fs"] is fs0)))))
            if sel is not None:
                out.append(("selections_listed_for_this_iteration", sel["dir"] == Path.Iter(ni)))
        return out
    return post


for _mode in ("retrospective", "prospective"):
    _st = contract(S + "run_next_%s_step" % _mode, params=[("output_dir", TPath), ("input_screen", TExt), ("extra_args", TArgs), ("batch_size", TInt)])
    _st.setup = _step_setup
    _st.raises("RuntimeError", lambda a: any_defect(a.ghost["fs0"]), iff=True)
    _st.raises("RuntimeError", lambda a: z3.BoolVal(True), iff=False)  # "could not find test screen": refused rather than run (allowed)
    _st.raises("ValueError", lambda a: z3.BoolVal(True), iff=False)  # "no thetas or dist_chunks found" (allowed: refuses to run)
    _st.ensures("step", _step_post(_mode))
    _st.apply = None
    STEP_CONTRACTS = globals().setdefault("STEP_CONTRACTS", {})
    STEP_CONTRACTS[_mode] = _st


# ----------------------------------------------------------------------------------------- crash invariant (lemmas over the contracts)
def complete(B, none, Im, Jm, i, j):
    return z3.And(z3.Not(none), i >= 0, j >= 0, j < B, z3.Or(i < Im, z3.And(i == Im, j <= Jm)))


def next_of(B, none, Im, Jm):
    si, sj = succ(Im, Jm, B)
    return z3.If(none, z3.IntVal(0), si), z3.If(none, z3.IntVal(0), sj)


def CI(fs, B, none, Im, Jm, incomplete):
    """the completed steps are a prefix (last one (Im,Jm), or none); `incomplete`: additionally the directory of the NEXT step exists
    without metadata.  Iteration directories without plates are allowed anywhere."""
    i, j, k = z3.Ints("i!ci j!ci k!ci")
    ti, tj = next_of(B, none, Im, Jm)
    isT = z3.And(i == ti, j == tj)
    exj = z3.Select(z3.Select(fs.ex_job, i), j)
    return fs_wf(fs) + fs.wf() + [
        B >= 1, z3.Implies(z3.Not(none), z3.And(Im >= 0, Jm >= 0, Jm < B)),
        z3.ForAll([i, j], exj == (z3.Or(complete(B, none, Im, Jm, i, j), isT) if incomplete else complete(B, none, Im, Jm, i, j)), patterns=[exj]),
        z3.ForAll([i, j], z3.Implies(complete(B, none, Im, Jm, i, j), fs.nfiles(META, i, j) > 0), patterns=[fs.nfiles(META, i, j)]),
    ] + ([fs.nfiles(META, ti, tj) == 0] if incomplete else [])


def crash_lemmas():
    """(name, hypotheses, goal) — discharged by z3 like every other obligation"""
    from pyvc.lib.fs import FS, A3
    mk = lambda nm: FS(**{f: z3.Const("%s_%s" % (nm, f), srt) for f, srt in FS.FIELDS})  # noqa
    fs = mk("L")
    B, Im, Jm, ni, nj, I, J = z3.Ints("B Im Jm ni nj I J")
    none, mnone, snone = z3.Bools("none meta_none scr_none")
    meta = z3.Const("meta", F.meta_of.range())
    scr = z3.Const("scr", Path)
    ti, tj = next_of(B, none, Im, Jm)
    post = [f for _, f in ex_post_formulas(fs, B, ni, nj, mnone, meta, snone, scr, I, J)]
    out = []
    out.append(("clean_state_is_accepted", CI(fs, B, none, Im, Jm, False), z3.Not(any_defect(fs))))
    out.append(("interrupted_step_is_refused", CI(fs, B, none, Im, Jm, True), any_defect(fs)))
    # witnesses for the existential in "fresh start iff no plate dir"
    out.append(("resume_point_is_the_successor_of_the_last_completed_step",
                CI(fs, B, none, Im, Jm, False) + post + [z3.Implies(z3.Not(none), z3.And(fs.job_dir(Im, Jm), fs.iter_dir(Im)))],
                z3.And(mnone == none, ni == ti, nj == tj,
                       z3.Implies(z3.Not(none), z3.And(I == Im, J == Jm, meta == F.meta_of(Path.File(META, Im, Jm, 0)))))))
    # every intermediate state of a step started from a clean state satisfies the invariant again
    def named_state(nm, f):  # name a derived state by constants (patterns may not contain Store/If terms)
        g = mk(nm)
        return g, [getattr(g, fld) == getattr(f, fld) for fld, _ in FS.FIELDS]
    ci, cj = z3.Ints("ti tj")
    T = [ci == ti, cj == tj]
    f1, e1 = named_state("R", F.rm_job(fs, ci, cj))
    out.append(("clearing_the_next_step_directory_keeps_the_invariant", CI(fs, B, none, Im, Jm, False) + T + e1, z3.And(*CI(f1, B, none, Im, Jm, False))))
    out.append(("clearing_an_interrupted_step_restores_a_clean_state", CI(fs, B, none, Im, Jm, True) + T + e1, z3.And(*CI(f1, B, none, Im, Jm, False))))
    f2, e2 = named_state("I", F.mk_iter(fs, ci))
    out.append(("crash_between_the_two_directory_creations", CI(fs, B, none, Im, Jm, False) + T + e2, z3.And(*CI(f2, B, none, Im, Jm, False))))
    f3, e3 = named_state("J", F.mk_job(fs, ci, cj))
    out.append(("created_job_directory_is_an_interrupted_step", CI(fs, B, none, Im, Jm, False) + T + e3 + [fs.nfiles(META, ci, cj) == 0], z3.And(*CI(f3, B, none, Im, Jm, True))))
    nf2 = z3.Const("nf_after", A3)
    f4 = fs.with_(nf=nf2)
    run = [F.run_facts(fs, nf2, ci, cj)]
    out.append(("pipeline_interrupted_before_metadata", CI(fs, B, none, Im, Jm, True) + T + run + [f4.nfiles(META, ci, cj) == 0], z3.And(*CI(f4, B, none, Im, Jm, True))))
    out.append(("pipeline_finished_advances_by_one_step", CI(fs, B, none, Im, Jm, True) + T + run + [f4.nfiles(META, ci, cj) > 0],
                z3.And(*CI(f4, B, z3.BoolVal(False), ci, cj, False))))
    return out


# ----------------------------------------------------------------------------------------- main(): the loop that decides whether another step is started
from pyvc.spec import abstract_class, TBool
ARGS = "CliArgs"
abstract_class(ARGS, None, {"mode": TStr, "outdir": TPath, "screen": TPath, "batch_size": TInt})

ga = contract(S + "get_args", params=[])
ga.trusted = True  # argparse: returns (namespace with mode / outdir / screen / batch_size, remaining argument list)
ga.note = "assumed: argparse returns the command line's values; remaining arguments are passed on untouched"


def _ga_apply(i, a, node, fr):
    from pyvc.values import PyList
    ctx = i.ctx
    tok = AObj(ARGS, ctx.fresh("cli", Ref))
    rest = PyList([ctx.fresh("extra_arg", Str)])
    ctx.ghost["cli"] = dict(args=tok, rest=rest)
    return (tok, rest)


ga.apply = _ga_apply


def _step_apply(mode):
    def apply(i, a, node, fr):
        """call-site use of run_next_<mode>_step inside main(): arguments must be the command line's; the result is whatever the
        step's own contract allows (a fresh Bool, or an exception); the tree changes as that contract says (not needed by main)"""
        from pyvc.engine import PyRaise, ExcVal
        from pyvc.spec import abstract_field_value, ABSTRACT_FIELDS
        ctx = i.ctx
        cli = ctx.ghost.get("cli")
        fld = lambda f: abstract_field_value(ARGS, f, ABSTRACT_FIELDS[ARGS][f], cli["args"].term, i)  # noqa
        ok = cli is not None and a.extra_args is cli["rest"]
        i.ctx.prove("%s/call:step:passes_the_command_line_unchanged@%s" % (i._cur_label, getattr(node, "lineno", "?")),
                    z3.And(z3.BoolVal(bool(ok)), a.output_dir.term == fld("outdir").term, a.input_screen.term == fld("screen").term, a.batch_size == fld("batch_size")) if cli else z3.BoolVal(False),
                    node, "call")
        if ctx.decide(ctx.fresh("step_raises", Bool)):
            raise PyRaise(ExcVal("RuntimeError"), node)
        r = ctx.fresh("should_run_again", Bool)
        ctx.ghost["last_step"] = dict(mode=mode, result=r)
        ctx.ghost["n_step_calls"] = ctx.ghost.get("n_step_calls", 0) + 1
        F.set_state(i, F.FS.fresh(ctx, "fs_after_step"))
        return r
    return apply


mn = contract(S + "main", params=[])
mn.raises("ValueError", lambda a: z3.BoolVal(True), iff=False)  # unknown mode (argparse already restricts the choices)
mn.raises("RuntimeError", lambda a: z3.BoolVal(True), iff=False)  # whatever a step refuses (its own contract says when)


def _mn_post(a, ret, st):
    g = st.ctx.ghost
    last, cli = g.get("last_step"), g.get("cli")
    if last is None or cli is None:
        return [("runs_at_least_one_step", z3.BoolVal(False))]
    from pyvc.spec import abstract_field_value, ABSTRACT_FIELDS
    from pyvc.lib.strings import str_const
    mode = abstract_field_value(ARGS, "mode", ABSTRACT_FIELDS[ARGS]["mode"], cli["args"].term, st)
    return [("stops_only_when_the_step_says_stop", z3.Not(last["result"])),
            ("step_function_of_the_selected_mode", mode == str_const(last["mode"]))]


mn.ensures("loop", _mn_post)
mn.loop("while#0", invariant=lambda v: [("continues_only_when_the_step_says_continue",
                                         v.ghost["last_step"]["result"] if (v.ghost.get("last_step") is not None and v.ghost.get("n_step_calls", 0) > v.ghost.get("_calls_at_head", 0)) else z3.BoolVal(True))])

for _m, _c in STEP_CONTRACTS.items():
    _c.apply = _step_apply(_m)
