"""C03 / C11 — hold-out splits: ids stable (mappings verbatim), rows partitioned."""
import z3
from pyvc.spec import contract, TObj, TAObj, TTuple, TStr, TInt, TReal, TBool, TSeq, TRef, TNone, TClass, NS, Forall
from pyvc.values import Int, Bool, Real, Str, Val, Obj, AObj, SymList, Seq
from pyvc.lib.arrays import TArr, Arr, rank, idx
from pyvc.lib.rng import TGenerator
from pyvc.lib.misc import ceil_mul
from .screen import *  # noqa
from .c12 import stable, mask_is

R = "batchie.retrospective."
ROWCOLS = ["_treatment_names", "_treatment_doses", "_sample_names", "plate_names", "_observations"]


_ST = [None]


def rows_selected(new, old, m, n, neg=False):
    """every per-experiment column of `new` is the corresponding column of `old` at the rows where m is True (False if neg)"""
    out = []
    for f in ROWCOLS:
        out.append(selected_by(G(new, f), G(old, f), m, n, neg))
    return z3.And(*out)


def neg_mask(st, m):
    """the array ~m (definitional: the same cached contents term the code's `~m` evaluates to)"""
    import ast
    from pyvc.lib.np_core import _unary
    return _unary(st, ast.Invert(), m, None)


def selected_by(res, src, m, n, neg):
    """res == src[m] resp. src[~m]"""
    if not neg:
        return selected(res, src, m, n)
    return selected(res, src, neg_mask(_ST[0], m), n)


class _Neg:
    """the pointwise complement of a mask as a (lambda) array term"""

    def __init__(self, m):
        k = z3.Int("k!neg")
        self.data = z3.Lambda([k], z3.Not(z3.Select(m.data, k)))
        self.shape = m.shape


crh = contract(R + "create_random_holdout", params=[("screen", T_screen(2)), ("fraction", TReal), ("rng", TGenerator())])
crh.variants = [("arity%d" % k, [("screen", T_screen(k)), ("fraction", TReal), ("rng", TGenerator())]) for k in (1, 2)]
crh.requires(lambda a: screen_wf(a.screen))
crh.raises("ValueError", lambda a: z3.Or(a.fraction < 0, a.fraction > 1))


def local_of(st, name):
    """final value of a local of the function being verified (ghost access; BindError if it was renamed)"""
    from pyvc.spec import BindError
    fr = getattr(st, "_cur_frame", None)
    if fr is None or name not in fr.locals:
        raise BindError("local variable %r not bound in current source" % name)
    return fr.locals[name]


def all_true(m, n):
    k = z3.Int("k!at")
    return z3.And(m.shape[0] == n, z3.ForAll([k], z3.Implies(z3.And(k >= 0, k < n), z3.Select(m.data, k)), patterns=[z3.Select(m.data, k)]))


def partition_clauses(a, keep, hold, sel, st=None):
    _ST[0] = st
    n = nrows(a.screen)
    return [("training_rows", rows_selected(keep, a.screen, sel, n, neg=True)),
            ("holdout_rows", rows_selected(hold, a.screen, sel, n)),
            ("training_mask_kept", selected_by(G(keep, "_observation_mask"), G(a.screen, "_observation_mask"), sel, n, True)),
            ("holdout_fully_observed", all_true(G(hold, "_observation_mask"), rank(sel.data, n)))]


def _split_post(a, ret, st):
    from .lemmas import scatter_count
    from pyvc.spec import Using
    keep, hold = ret
    sel = local_of(st, "selection_vector")
    ind = local_of(st, "indices")
    n = nrows(a.screen)
    out = partition_clauses(a, keep, hold, sel, st) + [
        ("holdout_size", Using([scatter_count(sel.data, n, ind.data, ind.shape[0])], rank(sel.data, n) == ceil_mul(n, a.fraction)))]
    out += [("ids_stable_training", stable(keep, a.screen)), ("ids_stable_holdout", stable(hold, a.screen)),
           ("training_well_formed", z3.And(*screen_wf(keep))), ("holdout_well_formed", z3.And(*screen_wf(hold))),
           ("control_name", z3.And(G(keep, "control_treatment_name") == G(a.screen, "control_treatment_name"),
                                   G(hold, "control_treatment_name") == G(a.screen, "control_treatment_name")))]
    return out


crh.ensures("split", _split_post)

# ---- plate-balanced hold-out: loop over the plates
from .c14 import plates_post  # noqa  (contract of Screen.plates; its body is verified under C14)

cpb = contract(R + "create_plate_balanced_holdout_set_among_masked_plates",
               params=[("screen", T_screen(2)), ("fraction", TReal), ("rng", TGenerator())])
cpb.variants = [("arity%d" % k, [("screen", T_screen(k)), ("fraction", TReal), ("rng", TGenerator())]) for k in (1, 2)]
cpb.requires(lambda a: screen_wf(a.screen))
cpb.raises("ValueError", lambda a: z3.Or(a.fraction < 0, a.fraction > 1))


def only_unobserved(a, sel):
    r = z3.Int("r!ou")
    n = nrows(a.screen)
    return z3.ForAll([r], z3.Implies(z3.And(r >= 0, r < n, z3.Select(sel.data, r)), z3.Not(z3.Select(G(a.screen, "_observation_mask").data, r))),
                     patterns=[z3.Select(sel.data, r)])


def _pb_post(a, ret, st):
    keep, hold = ret
    sel = local_of(st, "selection_vector")
    out = partition_clauses(a, keep, hold, sel, st) + [
        ("none_from_observed_plates", only_unobserved(a, sel)),
        ("ids_stable_training", stable(keep, a.screen)), ("ids_stable_holdout", stable(hold, a.screen)),
        ("training_well_formed", z3.And(*screen_wf(keep))), ("holdout_well_formed", z3.And(*screen_wf(hold))),
        ("control_name", z3.And(G(keep, "control_treatment_name") == G(a.screen, "control_treatment_name"),
                                G(hold, "control_treatment_name") == G(a.screen, "control_treatment_name")))]
    return out


cpb.ensures("split", _pb_post)
cpb.loop("for#0", invariant=lambda s: [
    ("shape", s.selection_vector.shape[0] == nrows(s.screen)),
    ("none_from_observed_plates", only_unobserved(s, s.selection_vector))])

# ---- ExperimentSpace.from_screen: the space carries the screen's own mappings (sizes are functions of the mappings only)
ES = "batchie.data.ExperimentSpace"
fs = contract(ES + ".from_screen", params=[("cls", TClass(ES)), ("screen", TAObj("Screen"))])
fs.ensures("mappings_by_reference", lambda a, ret, st: [
    ("treatment", bool_all([x.data.get_id() == y.data.get_id() for x, y in zip(ret.fields["treatment_mapping"], G(a.screen, "_treatment_mapping"))])),
    ("sample", bool_all([x.data.get_id() == y.data.get_id() for x, y in zip(ret.fields["sample_mapping"], G(a.screen, "_sample_mapping"))])),
    ("control", ret.fields["control_treatment_name"] == G(a.screen, "control_treatment_name"))])
