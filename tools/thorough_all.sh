#!/bin/bash
# run every check's thorough command once on the unchanged tree; outputs go to a scratch directory (evidence in /verif is left alone)
cd /verif
out=/tmp/thorough_out; rm -rf $out; mkdir -p $out
for id in $(python3 -c "import json;print(' '.join(c['property_id'] for c in json.load(open('MANIFEST.json'))['checks']))"); do
  /usr/bin/time -f "%es" env VERIF_OUT=$out ./check $id --tier thorough > $out/$id.log 2>&1; echo "$id rc=$? $(tail -2 $out/$id.log | tr '\n' ' ' | cut -c1-160)"
done
