#!/usr/bin/env python3
"""tools/mutate.py [--per N] [--props C01,C02,...] [--seed S] : mutation self-test of the checks.

For every property, syntactic mutants (comparison flips, off-by-one constants, +/-, and/or, dropped not/~, flipped boolean keywords,
swapped arguments, deleted statements) are generated inside the line ranges the property names as its mechanism (properties.jsonl
anchors).  Each mutant lives in its own scratch copy of /repo under /tmp/mut (removed afterwards; /repo is never touched):
  1. the repository's own test suite is run on it - mutants the tests already catch are dropped ("killed by tests");
  2. the property's quick check is run on it (BATCHIE_REPO / VERIF_OUT).
Output: one line per surviving-the-tests mutant with the check's verdict; mutants with verdict rc=0 are the interesting ones (either
equivalent / outside the property, or a gap in the check) and are listed at the end with their diff.  Nothing here is evidence."""
import argparse, ast, copy, json, os, random, re, shutil, subprocess, sys, difflib
from concurrent.futures import ThreadPoolExecutor
ROOT = "/verif"
REPO = "/repo"


def anchors():
    out = {}
    for l in open(ROOT + "/properties.jsonl"):
        p = json.loads(l)
        rng = []
        for m in p["anchors"].get("mechanism", []) + p["anchors"].get("state", []):
            for part in re.split(r",\s*", m.get("where", "")):
                mm = re.match(r"(?:(\S+?\.py):)?(\d+)(?:-(\d+))?$", part.strip())
                if not mm:
                    continue
                f = mm.group(1) or (rng[-1][0] if rng else None)
                if f is None:
                    continue
                lo = int(mm.group(2)); hi = int(mm.group(3) or lo)
                rng.append((f, lo, hi))
        out[p["id"]] = rng
    return out


def resolve(f):
    for base in ("src/batchie/", "", "src/"):
        p = os.path.join(REPO, base, f)
        if os.path.exists(p):
            return os.path.relpath(p, REPO)
    return None


class Sites(ast.NodeVisitor):
    def __init__(self, lo, hi):
        self.lo, self.hi, self.sites = lo, hi, []

    def generic_visit(self, node):
        ln = getattr(node, "lineno", None)
        if ln is not None and self.lo - 3 <= ln <= self.hi + 12:
            for k in kinds(node):
                self.sites.append((node, k))
        super().generic_visit(node)


EQUIV = [False]


def _pure(e):
    return isinstance(e, (ast.Name, ast.Constant)) or (isinstance(e, ast.Attribute) and _pure(e.value)) or \
        (isinstance(e, ast.Subscript) and _pure(e.value) and _pure(e.slice)) or (isinstance(e, ast.Compare) and _pure(e.left) and all(_pure(c) for c in e.comparators)) or \
        (isinstance(e, ast.UnaryOp) and _pure(e.operand)) or (isinstance(e, ast.BinOp) and _pure(e.left) and _pure(e.right))


def equiv_kinds(n):
    """semantics-preserving rewrites (for the false-alarm self-test): commuted operands of + * == != and of and/or over side-effect-free
    operands, a <= b as not (a > b) on numbers is NOT used (NaN), x[i:] untouched"""
    def _num(x):
        return (isinstance(x, ast.Constant) and isinstance(x.value, (int, float)) and not isinstance(x.value, bool)) or (isinstance(x, ast.BinOp) and isinstance(x.op, (ast.Mult, ast.Div, ast.Sub)))
    if isinstance(n, ast.BinOp) and _pure(n.left) and _pure(n.right) and (isinstance(n.op, ast.Mult) and (_num(n.left) or _num(n.right)) or
                                                                         isinstance(n.op, ast.Add) and (_num(n.left) or _num(n.right))):
        yield "commute"  # numeric + and * only (list / string concatenation is not commutative)
    if isinstance(n, ast.If) and n.orelse and not (len(n.orelse) == 1 and isinstance(n.orelse[0], ast.If)) and _pure(n.test):
        yield "swap_branches"
    if isinstance(n, ast.Return) and n.value is not None and not isinstance(n.value, (ast.Name, ast.Constant)):
        yield "temp_return"
    if isinstance(n, ast.Compare) and len(n.ops) == 1 and type(n.ops[0]) in (ast.Eq, ast.NotEq) and _pure(n.left) and _pure(n.comparators[0]):
        yield "commute_cmp"
    if isinstance(n, ast.Compare) and len(n.ops) == 1 and type(n.ops[0]) in (ast.Lt, ast.LtE, ast.Gt, ast.GtE) and _pure(n.left) and _pure(n.comparators[0]):
        yield "flip_cmp"
    if isinstance(n, ast.BoolOp) and len(n.values) == 2 and all(_pure(v) for v in n.values):
        yield "commute_bool"


def kinds(n):
    if EQUIV[0]:
        yield from equiv_kinds(n)
        return
    if isinstance(n, ast.Compare) and len(n.ops) == 1 and type(n.ops[0]) in (ast.Lt, ast.LtE, ast.Gt, ast.GtE, ast.Eq, ast.NotEq):
        if not (isinstance(n.comparators[0], ast.Constant) and n.comparators[0].value is None):
            yield "cmp"
    if isinstance(n, ast.Constant) and isinstance(n.value, int) and not isinstance(n.value, bool) and abs(n.value) <= 3:
        yield "const+"
        yield "const-"
    if isinstance(n, ast.BinOp) and type(n.op) in (ast.Add, ast.Sub):
        yield "addsub"
    if isinstance(n, ast.BoolOp):
        yield "andor"
    if isinstance(n, ast.UnaryOp) and type(n.op) in (ast.Not, ast.Invert):
        yield "dropneg"
    if isinstance(n, ast.keyword) and isinstance(n.value, ast.Constant) and isinstance(n.value.value, bool):
        yield "kwflip"
    if isinstance(n, ast.Call) and len(n.args) >= 2 and all(isinstance(a, (ast.Name, ast.Attribute, ast.Subscript)) for a in n.args[:2]):
        yield "swapargs"
    if isinstance(n, (ast.Assign, ast.AugAssign)) or (isinstance(n, ast.Expr) and isinstance(n.value, ast.Call) and not _is_log(n.value)):
        yield "delete"


def _is_log(c):
    f = c.func
    return isinstance(f, ast.Attribute) and isinstance(f.value, ast.Name) and f.value.id in ("logger", "logging", "warnings")


def apply(node, kind):
    if kind == "cmp":
        m = {ast.Lt: ast.LtE, ast.LtE: ast.Lt, ast.Gt: ast.GtE, ast.GtE: ast.Gt, ast.Eq: ast.NotEq, ast.NotEq: ast.Eq}
        node.ops = [m[type(node.ops[0])]()]
    elif kind == "const+":
        node.value += 1
    elif kind == "const-":
        node.value -= 1
    elif kind == "addsub":
        node.op = ast.Sub() if isinstance(node.op, ast.Add) else ast.Add()
    elif kind == "andor":
        node.op = ast.Or() if isinstance(node.op, ast.And) else ast.And()
    elif kind == "dropneg":
        return node.operand
    elif kind == "kwflip":
        node.value.value = not node.value.value
    elif kind == "swapargs":
        node.args[0], node.args[1] = node.args[1], node.args[0]
    elif kind == "delete":
        return ast.Pass()
    elif kind == "commute":
        node.left, node.right = node.right, node.left
    elif kind == "commute_cmp":
        node.left, node.comparators = node.comparators[0], [node.left]
    elif kind == "flip_cmp":
        m = {ast.Lt: ast.Gt, ast.Gt: ast.Lt, ast.LtE: ast.GtE, ast.GtE: ast.LtE}
        node.left, node.comparators = node.comparators[0], [node.left]
        node.ops = [m[type(node.ops[0])]()]
    elif kind == "commute_bool":
        node.values = [node.values[1], node.values[0]]
    elif kind == "swap_branches":
        node.test = ast.UnaryOp(op=ast.Not(), operand=node.test)
        node.body, node.orelse = node.orelse, node.body
    elif kind == "temp_return":
        return [ast.Assign(targets=[ast.Name(id="_result_value", ctx=ast.Store())], value=node.value, lineno=node.lineno),
                ast.Return(value=ast.Name(id="_result_value", ctx=ast.Load()))]
    return node


def mutants_for(rel, lo, hi):
    src = open(os.path.join(REPO, rel)).read()
    tree = ast.parse(src)
    s = Sites(lo, hi); s.visit(tree)
    out = []
    for idx in range(len(s.sites)):
        t2 = copy.deepcopy(tree)
        s2 = Sites(lo, hi); s2.visit(t2)
        node, kind = s2.sites[idx]

        class R(ast.NodeTransformer):
            def visit(self, n):
                if n is node:
                    return apply(n, kind)
                return self.generic_visit(n)
        t3 = R().visit(t2)
        ast.fix_missing_locations(t3)
        try:
            new = ast.unparse(t3)
            compile(new, rel, "exec")
        except Exception:
            continue
        out.append((rel, getattr(node, "lineno", 0), kind, new))
    return out


def baseline_text(rel):
    return ast.unparse(ast.parse(open(os.path.join(REPO, rel)).read()))


def run_one(job):
    k, pid, rel, line, kind, new = job
    sc = "/tmp/mut%s/%d" % (os.environ.get("MUT_TAG", ""), k)
    shutil.rmtree(sc, ignore_errors=True)
    os.makedirs(sc + "/out")
    for d in ("src", "nextflow", "tests"):
        if os.path.exists(os.path.join(REPO, d)):
            shutil.copytree(os.path.join(REPO, d), os.path.join(sc, d))
    for f in ("pyproject.toml", "setup.cfg", "pytest.ini", "conftest.py"):
        if os.path.exists(os.path.join(REPO, f)):
            shutil.copy(os.path.join(REPO, f), sc)
    open(os.path.join(sc, rel), "w").write(new)
    env = dict(os.environ, PYTHONPATH=sc + "/src", BATCHIE_ROOT=sc)
    try:
        t = subprocess.run(["/venv/bin/python", "-m", "pytest", "-q", "-x", "-p", "no:cacheprovider", "--timeout=300"], cwd=sc, env=env, capture_output=True, text=True, timeout=900)
        tests_ok = t.returncode == 0
    except subprocess.TimeoutExpired:
        tests_ok = False
    res = {"k": k, "property": pid, "file": rel, "line": line, "kind": kind, "tests_pass": tests_ok}
    if tests_ok:
        env2 = dict(os.environ, BATCHIE_REPO=sc, VERIF_OUT=sc + "/out")
        try:
            q = subprocess.run(["./check", pid, "--tier", "quick"], cwd=ROOT, env=env2, capture_output=True, text=True, timeout=2400)
            res["rc"] = q.returncode
            fails = re.findall(r"failed obligation: (\S+)", q.stdout)
            res["how"] = ("obligation " + fails[0][-80:]) if fails else ("bounded" if q.returncode == 1 else ("undecided" if q.returncode == 2 else ""))
        except subprocess.TimeoutExpired:
            res["rc"], res["how"] = 124, "timeout"
    shutil.rmtree(sc, ignore_errors=True)
    return res


def main():
    ap = argparse.ArgumentParser()
    ap.add_argument("--per", type=int, default=8); ap.add_argument("--props", default=""); ap.add_argument("--seed", type=int, default=0)
    ap.add_argument("--out", default=ROOT + "/.scratch/mutation_results.jsonl"); ap.add_argument("--workers", type=int, default=4)
    ap.add_argument("--equiv", action="store_true", help="semantics-preserving rewrites instead of mutants: any rc=1 is a FALSE ALARM")
    ap.add_argument("--only", default="", help="comma separated file:line:kind selectors (basename of the file); every matching mutant is run")
    a = ap.parse_args()
    rnd = random.Random(a.seed)
    EQUIV[0] = a.equiv
    A = anchors()
    want = [p for p in a.props.split(",") if p] or sorted(A)
    jobs, texts = [], {}
    k = 0
    for pid in want:
        pool = []
        for f, lo, hi in A[pid]:
            rel = resolve(f)
            if rel is None:
                continue
            try:
                pool += mutants_for(rel, lo, hi)
            except SyntaxError:
                continue
        rnd.shuffle(pool)
        seen = set()
        only = [tuple(x.split(":")) for x in a.only.split(",") if x]
        for rel, line, kind, new in pool:
            if only:
                if not any(os.path.basename(rel) == o[0] and str(line) == o[1] and kind == o[2] for o in only):
                    continue
                jobs.append((k, pid, rel, line, kind, new)); texts[k] = (rel, new); k += 1
                continue
            if (rel, line, kind) in seen or len([j for j in jobs if j[1] == pid]) >= a.per:
                continue
            seen.add((rel, line, kind))
            jobs.append((k, pid, rel, line, kind, new)); texts[k] = (rel, new); k += 1
    print("%d mutants" % len(jobs), flush=True)
    results = []
    with ThreadPoolExecutor(max_workers=a.workers) as ex, open(a.out, "a") as fo:
        for r in ex.map(run_one, jobs):
            results.append(r)
            fo.write(json.dumps(r) + "\n"); fo.flush()
            print("%(property)s %(file)s:%(line)s %(kind)-8s tests=%(tests_pass)s" % r, "rc=%s %s" % (r.get("rc"), r.get("how", "")), flush=True)
    if a.equiv:
        bad = [r for r in results if r.get("rc") == 1]
        print("\n=== %d equivalent rewrites: %d held (rc=0), %d undecided (rc=2), %d FALSE ALARMS (rc=1), %d other" % (
            len(results), sum(1 for r in results if r.get("rc") == 0), sum(1 for r in results if r.get("rc") == 2), len(bad),
            sum(1 for r in results if r.get("rc") not in (0, 1, 2))))
        for r in bad:
            rel, new = texts[r["k"]]
            d = list(difflib.unified_diff(baseline_text(rel).splitlines(), new.splitlines(), lineterm="", n=1))
            print("--- FALSE ALARM %s %s:%s %s %s\n%s" % (r["property"], rel, r["line"], r["kind"], r.get("how"), "\n".join(d[2:10])))
        shutil.rmtree("/tmp/mut" + os.environ.get("MUT_TAG", ""), ignore_errors=True)
        return
    surv = [r for r in results if r["tests_pass"] and r.get("rc") == 0]
    print("\n=== %d mutants, %d pass the test suite, of those %d caught (rc=1), %d undecided (rc=2), %d NOT caught" % (
        len(results), sum(r["tests_pass"] for r in results), sum(1 for r in results if r.get("rc") == 1), sum(1 for r in results if r.get("rc") == 2), len(surv)))
    for r in surv:
        rel, new = texts[r["k"]]
        d = list(difflib.unified_diff(baseline_text(rel).splitlines(), new.splitlines(), lineterm="", n=1))
        print("--- NOT CAUGHT %s %s:%s %s\n%s" % (r["property"], rel, r["line"], r["kind"], "\n".join(d[2:12])))
    shutil.rmtree("/tmp/mut" + os.environ.get("MUT_TAG", ""), ignore_errors=True)


main()
