#!/bin/bash
# tools/dev.sh Cxx contracts.module [filter] : run pyvc.run with the property's settings (FLOAT_AS etc.)
cd /verif
export PYTHONHASHSEED=0
python3-vt - "$@" <<'PY' 2>&1 | cut -c1-${COLS:-260}
import sys
pid, mod = sys.argv[1], sys.argv[2]
filt = sys.argv[3:] 
import importlib
importlib.import_module("props." + pid)
sys.argv = ["x", mod] + filt
from pyvc.run import main
main()
PY
