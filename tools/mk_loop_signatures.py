#!/usr/bin/env python3
"""Record, for every contract that gives loop invariants, a coarse signature of each loop it binds to (loop kind, target names, names read
in the header) as found in /repo's CURRENT source.  pyvc/verify.py refuses to apply a loop invariant to a loop whose signature differs
(the contract is then unbound = undecided) - invariants are bound by ordinal, and a loop inserted or removed earlier in the function would
otherwise receive another loop's invariant.  Run under python3-vt from /verif after changing contracts; the file is committed."""
import ast, importlib, json, os, sys
ROOT = os.path.dirname(os.path.dirname(os.path.abspath(__file__)))
sys.path.insert(0, ROOT)
from pyvc import repo  # noqa
from pyvc.spec import REGISTRY  # noqa
from pyvc.verify import loop_signature  # noqa

for f in sorted(os.listdir(os.path.join(ROOT, "props"))):
    if f.startswith("C") and f.endswith(".py"):
        m = importlib.import_module("props." + f[:-3])
        for cm in getattr(m, "CONTRACT_MODULES", []):
            importlib.import_module(cm)
out = {}
for q, ct in sorted(REGISTRY.items()):
    if not ct.loops:
        continue
    try:
        mod, node = repo.find(q.split("@")[0])
    except Exception:
        continue
    if node is None:
        continue
    keys = repo.loop_keys(node)
    by_key = {}
    for n in ast.walk(node):
        if id(n) in keys:
            by_key[keys[id(n)]] = loop_signature(n)
    out[q] = {k: by_key.get(k) for k in ct.loops}
json.dump(out, open(os.path.join(ROOT, "contracts", "loop_signatures.json"), "w"), indent=1, sort_keys=True)
print(len(out), "contracts,", sum(len(v) for v in out.values()), "loops")
