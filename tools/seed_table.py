#!/usr/bin/env python3
"""Markdown table of seeded changes and how the checks responded (from seeded/*/meta.json, written by tools/seed_matrix.py)."""
import json, os
R = "/verif/seeded"
rows = []
for d in sorted(os.listdir(R)):
    mp = os.path.join(R, d, "meta.json")
    if not os.path.exists(mp):
        continue
    m = json.load(open(mp)); c = m.get("check_result", {})
    how = c.get("how", "")
    kind = "proof obligation" if how.startswith("proof obligation") else ("bounded stand-in" if "bounded" in how else how[:40])
    detail = ""
    if how.startswith("proof obligation"):
        first = how.split("proof obligation(s): ")[1].split(";")[0].split(" [")[0]
        detail = "`%s`" % first.replace("batchie.", "").replace("nextflow_script.", "script.")[-95:]
        if "bounded" in how: kind += " + bounded"
    und = c.get("undecided_functions") or []
    if und and kind.startswith("bounded"):
        detail = "contracted function became undecided: " + ", ".join("`%s`" % u.rsplit(".", 1)[-1] for u in und[:2])
    what = (m.get("breaks") or m.get("what") or "")[:110].replace("|", "/").replace("\n", " ")
    rows.append("| %s | %s | %s | %s | %s |" % (d, c.get("property", ""), "yes" if c.get("detected") else "NO", kind, detail))
print("| seeded change | check | caught | by | failing obligation / note |\n|---|---|---|---|---|")
print("\n".join(rows))
n = len(rows); np_ = sum(1 for r in rows if "| proof obligation" in r); nb = sum(1 for r in rows if "| bounded stand-in |" in r)
nrev = sum(1 for r in rows if r.startswith("| F"))
print("\n%d seeded changes (%d written by fresh sub-agents from the property text only, in several rounds, each confirmed by me: suite passes, demo fails with / passes without; "
      "%d reverse patches of the repairs): %s; %d by a failing proof obligation, %d only by the bounded stand-in on the real code." % (
          n, n - nrev, nrev, "all caught" if all("| yes |" in r for r in rows) else "NOT all caught", np_, nb))
