#!/usr/bin/env python3
"""Copy confirmed sub-agent seeds from /tmp/seeds into /verif/seeded/<Cxx><v>/ with a meta.json recording what was run."""
import json, os, shutil, sys
for pid in sorted(os.listdir("/tmp/seeds")):
    d = os.path.join("/tmp/seeds", pid)
    if not os.path.isdir(d):
        continue
    for v in ("a", "b"):
        s = os.path.join(d, v)
        cf = os.path.join(s, "confirm.json")
        if not os.path.exists(cf):
            continue
        c = json.load(open(cf))
        ok = c.get("demo_clean") == 0 and c.get("demo_with_change") == 1 and c.get("demo_after_revert") == 0 and "151 passed" in c.get("suite_with_change", "")
        if not ok:
            print("NOT CONFIRMED", pid, v, c); continue
        out = os.path.join("/verif/seeded", pid + v)
        if os.path.exists(out) and "--force" not in sys.argv:
            continue  # already imported (possibly rebased since): never overwrite
        os.makedirs(out, exist_ok=True)
        shutil.copy(os.path.join(s, "patch.diff"), out)
        shutil.copy(os.path.join(s, "demo.py"), out)
        try:
            m = json.load(open(os.path.join(s, "meta.json")))
        except Exception:
            m = {}
        meta = {"property": pid, "variant": v, "breaks": m.get("summary", ""), "needs_to_manifest": m.get("needs_to_manifest", ""),
                "files_changed": m.get("files_changed", []), "agent_notes": m.get("notes", ""),
                "confirmed_by_me": {"worktree": "/tmp/wt/%s (scratch git worktree of /repo HEAD, removed afterwards)" % pid,
                                    "commands": ["git apply patch.diff", "PYTHONPATH=<wt>/src /venv/bin/python demo.py  -> exit 1",
                                                 "PYTHONPATH=<wt>/src /venv/bin/python -m pytest -q -p no:cacheprovider --timeout=900  -> " + c["suite_with_change"],
                                                 "git checkout -- . ; demo.py -> exit 0"], "result": c}}
        old = os.path.join(out, "meta.json")
        if os.path.exists(old):
            o = json.load(open(old))
            for k in ("detected_by", "check_result"):
                if k in o: meta[k] = o[k]
        json.dump(meta, open(old, "w"), indent=1)
        print("imported", pid + v)
