#!/bin/bash
# tools/try_seed.sh <patch.diff> <Cxx> [tier]  : apply a seeded change to /repo, run the check, always revert.
# The evidence file and replays of the unchanged tree are preserved (a seed run must not overwrite committed evidence).
P="$1"; ID="$2"; TIER="${3:-quick}"
cd /verif
if ! git -C /repo diff --quiet; then echo "/repo is dirty; refusing"; exit 9; fi
cp -f evidence/$ID.json .scratch/evidence_$ID.keep 2>/dev/null
trap 'git -C /repo checkout -- . ; git -C /repo status --short | head -3; cp -f .scratch/evidence_'$ID'.keep evidence/'$ID'.json 2>/dev/null; mkdir -p .scratch/seed_replays; mv replays/'$ID'/* .scratch/seed_replays/ 2>/dev/null' EXIT
git -C /repo apply "$P" || { echo "patch does not apply"; exit 8; }
./check "$ID" --tier "$TIER"; echo "rc=$?"
