#!/bin/bash
# tools/try_seed.sh <patch.diff> <Cxx> [tier]  : apply a seeded change to /repo, run the check, always revert.
P="$1"; ID="$2"; TIER="${3:-quick}"
cd /verif
if ! git -C /repo diff --quiet; then echo "/repo is dirty; refusing"; exit 9; fi
trap 'git -C /repo checkout -- . ; git -C /repo status --short | head -3' EXIT
git -C /repo apply "$P" || { echo "patch does not apply"; exit 8; }
./check "$ID" --tier "$TIER"; echo "rc=$?"
