#!/bin/bash
# tools/stability.sh <seeds...> : run every registered check on the unchanged tree for each native seed, two checks at a time
# (deliberate load), evidence/replays redirected to a scratch directory; prints every non-zero exit.
cd /verif
ids=$(python3 -c "import json;print(' '.join(c['property_id'] for c in json.load(open('MANIFEST.json'))['checks']))")
for seed in "$@"; do
  out=/tmp/stab_$seed; rm -rf $out; mkdir -p $out
  printf '%s\n' $ids | xargs -P 2 -I{} sh -c "VERIF_SEED=$seed VERIF_OUT=$out ./check {} --tier quick > $out/{}.log 2>&1; echo {} seed=$seed rc=\$? \$(tail -1 $out/{}.log | cut -c1-120)"
done
