#!/usr/bin/env python3
"""Regenerate MANIFEST.json from props/*.py (run under python3-vt from /verif)."""
import importlib, json, os, sys
ROOT = os.path.dirname(os.path.dirname(os.path.abspath(__file__)))
sys.path.insert(0, ROOT)
props = [json.loads(l) for l in open(os.path.join(ROOT, "properties.jsonl"))]
checks, na = [], []
for p in props:
    pid = p["id"]
    if not os.path.exists(os.path.join(ROOT, "props", pid + ".py")):
        na.append({"property_id": pid, "reason": "check not built yet in this round (planned: DESIGN.md section 6 / %s)" % pid})
        continue
    m = importlib.import_module("props." + pid)
    if getattr(m, "NOT_APPLICABLE", None):
        na.append({"property_id": pid, "reason": m.NOT_APPLICABLE})
        continue
    checks.append({
        "property_id": pid,
        "quick_cmd": "./check %s --tier quick" % pid,
        "thorough_cmd": "./check %s --tier thorough" % pid,
        "evidence_file": "evidence/%s.json" % pid,
        "replay_cmd_template": "./check --replay {path}",
        "engine": "pyvc",
        "level_claimed": {"category": m.LEVEL, "text": m.EXPLANATION, "design_ref": "DESIGN.md section 6, %s" % pid},
        "level_note": "; ".join(m.TRUSTED),
        "technique": getattr(m, "TECHNIQUE", "contract-based deductive verification: VCs generated from the real source by pyvc, discharged by z3 (+Lean/Mathlib lemmas)"),
    })
man = {
    "version": 1,
    "setup_cmd": "./setup.sh",
    "hooks": {"guard": "BATCHIE_VERIF", "enable": "none needed: contracts are sidecar files under /verif/contracts bound by qualified name; no hook code exists in /repo",
              "baseline_off_cmd": "cd /repo && /venv/bin/python -m pytest -ra -q -p no:cacheprovider --timeout=900 --continue-on-collection-errors",
              "source_commits": [], "add_only": True},
    "engines": [{"name": "pyvc", "path": "pyvc/", "serves_properties": [c["property_id"] for c in checks],
                 "kind_free_text": "own AST->z3 verification-condition generator over /repo's current source + sidecar contracts; Lean 4/Mathlib for lemmas SMT cannot do; native bounded stand-ins under /venv/bin/python (never counted as proved)"}],
    "checks": checks,
    "not_applicable": na,
    "notes": "See DESIGN.md. Exit codes of ./check: 0 held, 1 VIOLATION, 2 UNDECIDED (contract no longer binds / unsupported construct), 3 checker error.",
}
json.dump(man, open(os.path.join(ROOT, "MANIFEST.json"), "w"), indent=1)
print("checks:", [c["property_id"] for c in checks], "n/a:", len(na))
