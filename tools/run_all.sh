#!/bin/bash
# regenerate every evidence file on the unchanged tree (run before committing evidence)
cd /verif
for id in $(python3 -c "import json;print(' '.join(c['property_id'] for c in json.load(open('MANIFEST.json'))['checks']))"); do
  ./check $id --tier "${1:-quick}" | grep -v "^KNOWN-FINDING" | tail -1
done
python3-vt - <<'PY'
import json,jsonschema,glob
sch=json.load(open('/root/.vp/EVIDENCE.schema.json'))
for f in sorted(glob.glob('/verif/evidence/*.json')):
    e=json.load(open(f)); jsonschema.validate(e,sch)
    c=e['coverage']; assert c['obligations']==c['discharged'], (f,c['obligations'],c['discharged'])
print("evidence valid")
PY
