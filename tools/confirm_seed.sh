#!/bin/bash
# tools/confirm_seed.sh Cxx a|b : confirm a sub-agent's seeded change in its own scratch worktree:
#   suite passes with the change, demo exits 1 with it and 0 without. Writes /tmp/seeds/Cxx/v/confirm.json
ID="$1"; V="$2"; WT=/tmp/wt/$ID; S=/tmp/seeds/$ID/$V
cd "$WT" || exit 9
git checkout -q -- . ; git clean -fdq
export PYTHONPATH=$WT/src BATCHIE_ROOT=$WT
/venv/bin/python "$S/demo.py" >/dev/null 2>&1; d0=$?
git apply "$S/patch.diff" || { echo "{\"id\":\"$ID\",\"v\":\"$V\",\"error\":\"patch does not apply\"}" > "$S/confirm.json"; exit 1; }
/venv/bin/python "$S/demo.py" > "$S/demo_with_change.out" 2>&1; d1=$?
t=$(/venv/bin/python -m pytest -q -p no:cacheprovider --timeout=900 2>&1 | tail -1)
git checkout -q -- . ; git clean -fdq
/venv/bin/python "$S/demo.py" >/dev/null 2>&1; d2=$?
echo "{\"id\":\"$ID\",\"v\":\"$V\",\"demo_clean\":$d0,\"demo_with_change\":$d1,\"demo_after_revert\":$d2,\"suite_with_change\":\"$t\"}" > "$S/confirm.json"
cat "$S/confirm.json"
