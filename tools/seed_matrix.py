#!/usr/bin/env python3
"""Run every seeded change of /verif/seeded against its property's check, each on its own scratch copy of /repo (outside /repo and
/verif, removed afterwards), and record the outcome in seeded/<name>/meta.json ("check_result").  Usage: tools/seed_matrix.py [names...]"""
import json, os, re, shutil, subprocess, sys, time
from concurrent.futures import ThreadPoolExecutor
ROOT = "/verif"
EXTRA = {"F1revert": "C03", "F2revert": "C04", "F3revert": "C13", "F4cli_revert": "C18", "F5revert": "C19", "F7revert": "C13"}


def prop_of(name):
    return EXTRA.get(name) or name[:3]


def run(name):
    pid = prop_of(name)
    sc = "/tmp/seedrun/%s" % name
    shutil.rmtree(sc, ignore_errors=True)
    os.makedirs(sc + "/out")
    for d in ("src", "nextflow"):
        shutil.copytree("/repo/" + d, sc + "/" + d)
    p = subprocess.run(["patch", "-p1", "-s", "-i", "%s/seeded/%s/patch.diff" % (ROOT, name)], cwd=sc, capture_output=True, text=True)
    if p.returncode != 0:
        shutil.rmtree(sc, ignore_errors=True)
        return name, {"property": pid, "rc": None, "detected": False, "how": "patch does not apply to the current tree: " + (p.stdout + p.stderr)[-200:]}
    t0 = time.time()
    env = dict(os.environ, BATCHIE_REPO=sc, VERIF_OUT=sc + "/out")
    try:
        q = subprocess.run(["./check", pid, "--tier", "quick"], cwd=ROOT, env=env, capture_output=True, text=True, timeout=3000)
        out, rc = q.stdout, q.returncode
    except subprocess.TimeoutExpired:
        out, rc = "", 124
    fails = re.findall(r"failed obligation: (\S+) .*?solver=(\S+)", out)
    native = [l for l in out.splitlines() if l.startswith("VIOLATION") and "native_" in l]
    und = [l for l in out.splitlines() if l.startswith("UNDECIDED")]
    how = []
    if fails:
        how.append("proof obligation(s): " + "; ".join("%s [%s]" % f for f in fails[:4]))
    if native or (rc == 1 and not fails):
        how.append("bounded stand-in on the real code")
    wit = any(l.startswith("VIOLATION") and "no-failing-input-found" not in l for l in out.splitlines())
    res = {"property": pid, "rc": rc, "detected": rc == 1, "how": " + ".join(how) if how else ("undecided: " + "; ".join(und)[:300] if und else "not detected"),
           "failing_input_replayed": bool(wit), "undecided_functions": [u.split("function=")[1].split()[0] for u in und if "function=" in u], "wall_s": round(time.time() - t0, 1)}
    shutil.rmtree(sc, ignore_errors=True)
    return name, res


def main():
    names = sys.argv[1:] or sorted(d for d in os.listdir(ROOT + "/seeded") if os.path.exists("%s/seeded/%s/patch.diff" % (ROOT, d)))
    with ThreadPoolExecutor(max_workers=3) as ex:
        for name, res in ex.map(run, names):
            mp = "%s/seeded/%s/meta.json" % (ROOT, name)
            meta = json.load(open(mp)) if os.path.exists(mp) else {}
            meta["check_result"] = res
            json.dump(meta, open(mp, "w"), indent=1)
            print(name, res["property"], "rc=%s" % res["rc"], "DETECTED" if res["detected"] else "MISSED", "|", res["how"][:160], flush=True)
    shutil.rmtree("/tmp/seedrun", ignore_errors=True)


main()
