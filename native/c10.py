"""Native harness for C10 (bounded stand-in + replay): save/load of posterior-sample collections (both shipped sample types, more than
ten samples, awkward float64 values, empty single-effect table), chain-major concatenation, bounds / refusal clauses, and the chain ids
evaluate_model attaches to prediction columns (real CLI main() with patched argv)."""
import argparse, itertools, json, os, random, struct, tempfile
from unittest import mock
import numpy as np
from batchie.core import ThetaHolder
from batchie.data import Screen
from batchie.models.sparse_combo import SparseDrugComboMCMCSample
from batchie.models.sparse_combo_interaction import SparseDrugComboInteractionMCMCSample
from batchie.cli import evaluate_model


def bits(v):
    if isinstance(v, np.ndarray): return ("arr", str(v.dtype), v.shape, v.tobytes())
    if isinstance(v, (float, np.floating)): return ("f", struct.pack("<d", float(v)))
    if isinstance(v, (int, np.integer)): return ("i", int(v))
    return ("o", repr(v))


def same_params(t1, t2):
    for getter in ("private_parameters_dict", "shared_parameters_dict"):
        d1, d2 = getattr(t1, getter)(), getattr(t2, getter)()
        if set(d1) != set(d2): return "%s: key sets differ" % getter
        for k in d1:
            if bits(d1[k]) != bits(d2[k]): return "%s[%r] differs" % (getter, k)
    return None


def screen():
    return Screen(observations=np.array([0.1, 0.2, 0.3, 0.4, 0.5, 0.6]), observation_mask=np.array([True] * 6), sample_names=np.array(["a", "a", "b", "b", "c", "c"]),
                  plate_names=np.array(["p1", "p1", "p2", "p2", "p3", "p3"]), treatment_names=np.array([["a", "b"]] * 6),
                  treatment_doses=np.array([[2.0, 2.0], [1.0, 2.0], [2.0, 1.0], [2.0, 0.1], [1.0, 1.0], [1.0, 0.1]]))


AWK = [5e-324, -5e-324, 2.2250738585072014e-308, 1.0 + 2 ** -40, 1 / 3, 16777217.0, -0.0, 1e-45, 3.4028235e38 * 1.0000001]


def awkward(rnd, shape):
    a = np.array([rnd.choice(AWK) if rnd.random() < 0.3 else rnd.gauss(0.1, 0.37) for _ in range(int(np.prod(shape)))], dtype=np.float64)
    return a.reshape(shape)


def combo(rnd, n):
    return [SparseDrugComboMCMCSample(W=awkward(rnd, (3, 4)), W0=awkward(rnd, (3,)), V2=awkward(rnd, (6, 4)), V1=awkward(rnd, (6, 4)), V0=awkward(rnd, (6,)),
                                      alpha=0.1 * (i + 1) + 1e-17 * i, precision=1.0 / 3.0 + i) for i in range(n)]


def inter(rnd, n, scr, empty):
    keys = [] if empty else [(c, d) for c in range(scr.n_unique_samples) for d in range(scr.n_unique_treatments)]
    rnd.shuffle(keys)  # the table is filled batch by batch in the order plates are observed, not in sorted key order
    lookup = {k: rnd.uniform(0.2, 0.9) for k in keys}
    return [SparseDrugComboInteractionMCMCSample(W=awkward(rnd, (3, 4)), V2=awkward(rnd, (6, 4)), precision=2.0 / 3.0 + i, single_effect_lookup=lookup) for i in range(n)]


def holder(samples, declared=None):
    h = ThetaHolder(n_thetas=len(samples) if declared is None else declared)
    for s in samples: h.add_theta(s)
    return h


def one(seed):
    rnd = random.Random(seed); scr = screen()
    with tempfile.TemporaryDirectory() as tmp:
        # ---- save / load round trip
        n = rnd.choice([1, 2, 9, 10, 11, 12, 23, 37, 101])
        for label, samples in (("combo", combo(rnd, n)), ("interaction", inter(rnd, n, scr, False)), ("interaction-empty-table", inter(rnd, rnd.choice([1, 11]), scr, True))):
            fn = os.path.join(tmp, label + ".h5")
            try:
                holder(samples).save_h5(fn); back = ThetaHolder.load_h5(fn)
            except Exception as e:
                return "%s: save/load of %d samples raised %r" % (label, len(samples), e), "ThetaHolder.save_h5/load_h5"
            if back.n_thetas != len(samples) or len(list(back)) != len(samples): return "%s: %d samples saved, %d loaded" % (label, len(samples), len(list(back))), "ThetaHolder.save_h5/load_h5"
            for k in range(len(samples)):
                why = same_params(samples[k], back.get_theta(k))
                if why: return "%s: reloaded sample %d of %d is not the saved sample %d (%s)" % (label, k, len(samples), k, why), "ThetaHolder.save_h5/load_h5"
                if label != "interaction-empty-table" and samples[k].predict_viability(scr).tobytes() != back.get_theta(k).predict_viability(scr).tobytes():
                    return "%s: reloaded sample %d predicts differently" % (label, k), "ThetaHolder.save_h5/load_h5"
        # ---- refusals
        try:
            ThetaHolder(n_thetas=3).save_h5(os.path.join(tmp, "empty.h5")); return "an empty collection was saved", "ThetaHolder.save_h5"
        except ValueError: pass
        h = holder(combo(rnd, 2), declared=2)
        try:
            h.add_theta(combo(rnd, 1)[0]); return "a full collection accepted another sample", "ThetaHolder.add_theta"
        except ValueError: pass
        for bad in (-1, 2, 5):
            try:
                h.get_theta(bad); return "get_theta(%d) on 2 samples did not refuse" % bad, "ThetaHolder.get_theta"
            except ValueError: pass
        # ---- concat: chain-major
        sizes = [rnd.randrange(1, 14) for _ in range(rnd.randrange(1, 5))]
        chains = [combo(rnd, s) for s in sizes]
        files = []
        for c, ch in enumerate(chains):
            fn = os.path.join(tmp, "chain%d.h5" % c); holder(ch).save_h5(fn); files.append(fn)
        both = ThetaHolder.concat([ThetaHolder.load_h5(f) for f in files])
        flat = [s for ch in chains for s in ch]
        if both.n_thetas != len(flat) or len(list(both)) != len(flat): return "concat of sizes %s has %d samples" % (sizes, len(list(both))), "ThetaHolder.concat"
        for k, (e, g) in enumerate(zip(flat, both)):
            if same_params(e, g): return "concat of sizes %s: position %d is not chain-major" % (sizes, k), "ThetaHolder.concat"
        # ---- evaluate_model: columns and chain ids, any order of the files on the command line
        order = list(range(len(files))); rnd.shuffle(order)
        sfn = os.path.join(tmp, "screen.h5"); scr.save_h5(sfn); out = os.path.join(tmp, "me.h5")
        from batchie.models.main import ModelEvaluation
        try:
            with mock.patch("sys.argv", ["evaluate_model", "--screen", sfn, "--thetas", *[files[c] for c in order], "--output", out]):
                evaluate_model.main()
            me = ModelEvaluation.load_h5(out)
        except Exception as e:
            return "evaluate_model failed on chain sizes %s: %r" % ([sizes[c] for c in order], e), "cli.evaluate_model.main"
        cli = [chains[c] for c in order]
        want_ids = [i for i, ch in enumerate(cli) for _ in ch]
        if me.chain_ids.tolist() != want_ids: return "chain ids %s for chain sizes %s" % (me.chain_ids.tolist(), [len(c) for c in cli]), "cli.evaluate_model.main"
        col = 0
        for ch in cli:
            for s in ch:
                if me.predictions[:, col].tobytes() != s.predict_viability(scr).tobytes(): return "prediction column %d is not that chain-major sample" % col, "cli.evaluate_model.main"
                col += 1
    return None


def safe_one(seed):
    import logging; logging.disable(logging.CRITICAL)
    try: return one(seed)
    except Exception as e: return ("raised %r" % (e,), "harness")


def main():
    ap = argparse.ArgumentParser()
    ap.add_argument("--tier", default="quick"); ap.add_argument("--seed", type=int, default=0)
    ap.add_argument("--search"); ap.add_argument("--replay")
    a = ap.parse_args()
    if a.replay:
        d = json.load(open(a.replay))["input"]; r = one(d["seed"])
        print(json.dumps({"violations": [dict(d, what=r[0], site=r[1])] if r else []})); return
    N = 48 if (a.tier == "quick" or a.search) else 400
    from concurrent.futures import ProcessPoolExecutor
    seeds = [a.seed * 1000003 + k for k in range(N)]
    with ProcessPoolExecutor(max_workers=12) as ex:
        res = list(ex.map(safe_one, seeds, chunksize=2))
    viol, sites = [], set()
    for seed, r in zip(seeds, res):
        if r and r[1] not in sites:
            sites.add(r[1]); viol.append({"seed": seed, "what": r[0], "site": r[1]})
    print(json.dumps({"violations": viol, "bounded": [{"function": "ThetaHolder.save_h5/load_h5/add_theta/get_theta/concat, both MCMC sample types, cli.evaluate_model.main",
        "bound": "%d random scenarios: 1..101 samples per file (incl. >10), denormal / non-float32 values, empty single-effect table, 1..4 chain files of 1..13 samples in shuffled command-line order" % N,
        "evaluations": N * 8, "distinct_nontrivial": N, "label": "bounded stand-in, not counted as proved"}]}))


main()
