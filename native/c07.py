"""Native harness for C07 (bounded stand-in + replay): real functions of distance_calculation / MSEDistance."""
import argparse, json, itertools, os, tempfile, random
import numpy as np
from batchie.distance_calculation import (get_lower_triangular_indices_chunk, ChunkedDistanceMatrix,
                                          calculate_pairwise_distance_matrix_on_predictions)
from batchie.distance.mse import MSEDistance
from batchie.core import ThetaHolder, Theta

SCR = os.environ.get("PYVC_TMP") or tempfile.gettempdir()


class T(Theta):
    def __init__(self, v): self.v = np.asarray(v, float)
    def predict_viability(self, data): return self.v


def holder(n, rnd):
    h = ThetaHolder(n)
    for k in range(n):
        h.add_theta(T([rnd.random() for _ in range(3)] if k != 1 else h.thetas[0].v))  # theta 1 duplicates theta 0: distance 0
    return h


def check(n, N, rnd, order=None):
    T_ = n * (n - 1) // 2
    chunks = [get_lower_triangular_indices_chunk(n, c, N) for c in range(N)]
    flat = [p for ch in chunks for p in ch]
    want = [(i, j) for i in range(n) for j in range(i)]
    if sorted(flat) != sorted(want) or len(flat) != len(set(flat)): return "chunks do not partition the pairs"
    sizes = [len(c) for c in chunks]
    if max(sizes) - min(sizes) > 1: return "chunk sizes %r differ by more than one" % sizes
    h = holder(n, rnd); metric = MSEDistance(sigmoid=False)
    mats = []
    for c in range(N):
        m = calculate_pairwise_distance_matrix_on_predictions(h, metric, None, c, N)
        fn = os.path.join(SCR, "c07_%d_%d.h5" % (os.getpid(), c)); m.save(fn); mats.append(ChunkedDistanceMatrix.load(fn)); os.unlink(fn)
    full = calculate_pairwise_distance_matrix_on_predictions(h, metric, None, 0, 1)
    ref = full.to_dense() if n >= 0 else None
    for i in range(n):
        for j in range(i):
            if ref[i, j] != metric.distance(h.thetas[i].v, h.thetas[j].v): return "entry (%d,%d) is not metric(pred_i,pred_j)" % (i, j)
    if not np.array_equal(ref, ref.T) or np.any(np.diag(ref) != 0): return "dense not symmetric / diagonal non-zero"
    order = order or list(range(N))
    comb = ChunkedDistanceMatrix.concat([mats[c] for c in order])
    if set(order) == set(range(N)):
        try: d = comb.to_dense()
        except ValueError as e: return "complete combination refused: %s" % e
        if not np.array_equal(d, ref): return "combined matrix differs from single-chunk matrix for order %r" % (order,)
    else:
        missing = [c for c in range(N) if c not in order and sizes[c] > 0]
        if missing:
            try:
                comb.to_dense(); return "matrix missing chunk %r was densified" % missing
            except ValueError: pass
    return None


def main():
    ap = argparse.ArgumentParser()
    ap.add_argument("--tier", default="quick"); ap.add_argument("--seed", type=int, default=0)
    ap.add_argument("--search"); ap.add_argument("--replay")
    a = ap.parse_args()
    rnd = random.Random(a.seed)
    viol = []; evals = 0
    if a.replay:
        d = json.load(open(a.replay))["input"]
        r = check(d["n"], d["N"], rnd, d.get("order"))
        print(json.dumps({"violations": [dict(d, what=r)] if r else []})); return
    quick = a.tier == "quick" or a.search
    for n in range(0, 6 if quick else 8):
        T_ = n * (n - 1) // 2
        for N in range(1, T_ + 3):
            orders = [list(range(N)), list(reversed(range(N)))]
            if N >= 2: orders += [[0] + list(range(N)), list(range(N)) + [N - 1], list(range(1, N)), [1, 0, 1] if N == 2 else [2, 0, 2][:N] + [1]]
            for _ in range(2 if quick else 6): orders.append([rnd.randrange(N) for _ in range(N + 1)])
            for o in orders:
                evals += 1
                try:
                    r = check(n, N, rnd, o)
                except Exception as e:  # the code under test raised on an input it must handle
                    r = "raised %r" % (e,)
                if r and len(viol) < 5: viol.append({"n": n, "N": N, "order": o, "what": r, "site": "distance_calculation"})
    # metric axioms (bounded)
    for sig in (True, False):
        m = MSEDistance(sigmoid=sig)
        for _ in range(200 if quick else 2000):
            x = np.array([rnd.uniform(-5, 5) for _ in range(rnd.randrange(1, 6))]); y = x + np.array([rnd.uniform(-1, 1) for _ in x])
            evals += 1
            if m.distance(x, y) != m.distance(y, x) or m.distance(x, y) < 0 or m.distance(x, x) != 0:
                if len(viol) < 5: viol.append({"n": 0, "N": 1, "what": "MSEDistance not symmetric / negative / non-zero on equal", "site": "MSEDistance.distance"})
    print(json.dumps({"violations": viol, "bounded": [{"function": "distance_calculation.* and MSEDistance.distance",
        "bound": "n_thetas<%d, n_chunks<=pairs+2, chunk orders incl. repeats and omissions; %s random vectors for the metric axioms" % (6 if quick else 8, 400 if quick else 4000),
        "evaluations": evals, "distinct_nontrivial": evals, "label": "bounded stand-in, not counted as proved (the metric axioms are decided ONLY here)"}]}))


main()
