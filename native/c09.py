"""Native harness for C09 (bounded stand-in + replay): both shipped posterior-sample types with random non-zero parameters,
against an independent row-by-row reference; subset / permutation / column swap / control neutrality / no mutation / helpers."""
import argparse, json, random, copy
import numpy as np
from scipy.special import expit
from batchie.data import Screen
from batchie.core import ThetaHolder
from batchie.models.sparse_combo import SparseDrugComboMCMCSample
from batchie.models.sparse_combo_interaction import SparseDrugComboInteractionMCMCSample
from batchie.models.main import predict_mean_all, predict_viability_all, predict_mean_avg, predict_viability_avg, predict_variance_all

NT, NS, D = 4, 3, 2


def screen(rnd, n, arity=2):
    ids = [[rnd.choice([-1, 0, 1, 2, 3]) for _ in range(arity)] for _ in range(n)]
    names = np.array([["control" if t == -1 else "d%d" % (t // 2) for t in row] for row in ids]).reshape(n, arity)
    doses = np.array([[0.0 if t == -1 else float(1 + t % 2) for t in row] for row in ids]).reshape(n, arity)
    tm = (np.array(["control", "d0", "d0", "d1", "d1"]), np.array([0.0, 1.0, 2.0, 1.0, 2.0]), np.array([-1, 0, 1, 2, 3]))
    sm = (np.array(["s0", "s1", "s2"]), np.array([0, 1, 2]))
    return Screen(sample_names=np.array(["s%d" % rnd.randrange(NS) for _ in range(n)]), plate_names=np.array(["p%d" % (k % 2) for k in range(n)]),
                  treatment_names=names, treatment_doses=doses, control_treatment_name="control", treatment_mapping=tm, sample_mapping=sm)


def theta(rng):
    return SparseDrugComboMCMCSample(W=rng.normal(size=(NS, D)), W0=rng.normal(size=NS), V2=rng.normal(size=(NT, D)), V1=rng.normal(size=(NT, D)),
                                     V0=rng.normal(size=NT), alpha=float(rng.normal()), precision=float(rng.uniform(0.5, 3)))


def ref_mean(t, s, tids):
    z = lambda X, a: 0 * X[0] if a == -1 else X[a]
    m = t.alpha + t.W0[s]
    for a in tids: m += z(t.V0, a)
    m += float(np.sum(t.W[s] * sum(z(t.V1, a) for a in tids)))
    if len(tids) == 2: m += float(np.sum(t.W[s] * z(t.V2, tids[0]) * z(t.V2, tids[1])))
    return m


def check(seed):
    rnd = random.Random(seed); rng = np.random.default_rng(seed)
    for arity in (2, 1):
        s = screen(rnd, rnd.randrange(1, 9), arity); t = theta(rng)
        keep = copy.deepcopy(t.__dict__); ids0 = (s.sample_ids.copy(), s.treatment_ids.copy())
        mean = t.predict_conditional_mean(s); viab = t.predict_viability(s); var = t.predict_conditional_variance(s)
        want = np.array([ref_mean(t, int(s.sample_ids[r]), [int(x) for x in s.treatment_ids[r]]) for r in range(s.size)])
        if not np.allclose(mean, want, rtol=1e-9, atol=1e-12): return "mean differs from the row-by-row reference (arity %d)" % arity
        if not np.allclose(viab, np.clip(expit(want), 0.01, 0.99), rtol=1e-9): return "viability is not the clipped logistic of the mean"
        if var.shape != (s.size,) or not np.all(var == 1 / t.precision) or not np.all(var > 0): return "variance is not 1/precision for every row"
        for k, v in keep.items():
            if not np.array_equal(np.asarray(v), np.asarray(t.__dict__[k])): return "prediction mutated sample parameter %s" % k
        if not (np.array_equal(ids0[0], s.sample_ids) and np.array_equal(ids0[1], s.treatment_ids)): return "prediction mutated the screen"
        sel = np.array([rnd.random() < 0.5 for _ in range(s.size)])
        if sel.any() and not np.allclose(t.predict_conditional_mean(s.subset(sel)), mean[sel], rtol=1e-12, atol=1e-12): return "subset prediction differs from entries of whole"
        if arity == 2:
            sw = Screen(sample_names=s.sample_names, plate_names=s.plate_names, treatment_names=s.treatment_names[:, ::-1].copy(), treatment_doses=s.treatment_doses[:, ::-1].copy(),
                        control_treatment_name="control", treatment_mapping=s.treatment_mapping, sample_mapping=s.sample_mapping)
            if not np.allclose(t.predict_conditional_mean(sw), mean, rtol=1e-12, atol=1e-12): return "swapping the treatment columns changed the prediction"
            ctl = s.treatment_ids[:, 1] == -1
            if ctl.any():
                s1 = Screen(sample_names=s.sample_names[ctl], plate_names=s.plate_names[ctl], treatment_names=s.treatment_names[ctl][:, :1], treatment_doses=s.treatment_doses[ctl][:, :1],
                            control_treatment_name="control", treatment_mapping=s.treatment_mapping, sample_mapping=s.sample_mapping)
                if not np.allclose(t.predict_conditional_mean(s1), mean[ctl], rtol=1e-12, atol=1e-12): return "pair with control does not predict like the single agent"
            it = SparseDrugComboInteractionMCMCSample(W=t.W, V2=t.V2, precision=t.precision, single_effect_lookup={})
            wi = np.array([float(np.sum(t.W[int(s.sample_ids[r])] * (0 if s.treatment_ids[r, 0] == -1 else t.V2[s.treatment_ids[r, 0]]) * (0 if s.treatment_ids[r, 1] == -1 else t.V2[s.treatment_ids[r, 1]]))) for r in range(s.size)])
            if not np.allclose(it.predict_conditional_mean(s), wi, rtol=1e-9, atol=1e-12): return "interaction sample mean differs from reference"
            # interaction sample viability: row-wise reference from the lookup table (single-agent effects; control maps to 1.0)
            look = {(c, d): float(rng.uniform(0.05, 1.2)) for c in range(int(s.sample_ids.max()) + 1) for d in range(int(s.treatment_ids.max()) + 1)}
            look.update({(c, -1): 1.0 for c in range(int(s.sample_ids.max()) + 1)})
            it2 = SparseDrugComboInteractionMCMCSample(W=t.W, V2=t.V2, precision=t.precision, single_effect_lookup=look)
            ref = np.array([float(np.clip(np.exp(wi[r] + np.log(np.clip(look[(int(s.sample_ids[r]), int(s.treatment_ids[r, 0]))] * look[(int(s.sample_ids[r]), int(s.treatment_ids[r, 1]))], 0.01, 0.99))), 0.01, 0.99)) for r in range(s.size)])
            try: got = it2.predict_viability(s)
            except Exception as e: return "interaction sample predict_viability raised %r on a two-treatment screen" % (e,)
            if got.shape != (s.size,) or not np.allclose(got, ref, rtol=1e-9, atol=1e-12): return "interaction sample viability differs from the row-wise reference"
            if not np.allclose(it2.predict_viability(sw), got, rtol=1e-9, atol=1e-12): return "interaction sample viability changes when the treatment columns are swapped"
            # purity over a history: prediction never mutates the sample (no attribute appears or changes), repeating it gives the same rows, and after the
            # sample's parameters change (the lookup updated in place - the model shares its dictionary with the samples it exports -, then replaced, then W
            # replaced) the prediction follows the CURRENT parameters, exactly as a freshly built sample with those parameters predicts
            attrs = set(SparseDrugComboInteractionMCMCSample(W=t.W, V2=t.V2, precision=t.precision, single_effect_lookup=look).__dict__)  # attributes of a sample that never predicted
            if set(it2.__dict__) != attrs or it2.single_effect_lookup is not look: return "interaction sample: prediction added / replaced attributes of the sample %r" % sorted(set(it2.__dict__) ^ attrs)
            if not np.array_equal(it2.predict_viability(s), got): return "interaction sample: repeating the prediction changed it"
            attrs0 = {k: copy.deepcopy(v) for k, v in it2.__dict__.items()}
            it2.predict_viability(s); it2.predict_conditional_mean(s); it2.predict_conditional_variance(s)
            if set(it2.__dict__) != set(attrs0): return "interaction sample: prediction added attributes %r to the sample" % sorted(set(it2.__dict__) - set(attrs0))
            for k_, v_ in attrs0.items():
                w_ = it2.__dict__[k_]
                if (v_ != w_) if isinstance(v_, dict) else (not np.array_equal(np.asarray(v_), np.asarray(w_))): return "interaction sample: prediction mutated %s" % k_
            for step in ("update", "replace", "W"):
                if step == "update": look.update({k_: float(rng.uniform(0.05, 1.2)) for k_ in list(look) if k_[1] != -1})
                elif step == "replace": it2.single_effect_lookup = {k_: (1.0 if k_[1] == -1 else float(rng.uniform(0.05, 1.2))) for k_ in look}
                else: it2.W = rng.normal(size=t.W.shape)
                fresh = SparseDrugComboInteractionMCMCSample(W=it2.W.copy(), V2=it2.V2.copy(), precision=it2.precision, single_effect_lookup=dict(it2.single_effect_lookup))
                if not np.allclose(it2.predict_viability(s), fresh.predict_viability(s), rtol=1e-12, atol=1e-12):
                    return "interaction sample: after its parameters changed (%s) the sample no longer predicts from its current parameters" % step
            t2 = copy.deepcopy(t); t.predict_viability(s); t2.W0 = t2.W0 + 1.0; t2.V2 = rng.normal(size=t.V2.shape)
            fresh = SparseDrugComboMCMCSample(W=t2.W.copy(), W0=t2.W0.copy(), V2=t2.V2.copy(), V1=t2.V1.copy(), V0=t2.V0.copy(), alpha=t2.alpha, precision=t2.precision)
            t2m = t2.predict_conditional_mean(s); t2.alpha = t2.alpha + 0.5; fresh.alpha = t2.alpha
            if not np.allclose(t2.predict_conditional_mean(s), fresh.predict_conditional_mean(s), rtol=1e-12, atol=1e-12) or np.allclose(t2m, t2.predict_conditional_mean(s)):
                return "additive sample: after its parameters changed the sample no longer predicts from its current parameters"
            if set(t.__dict__) != set(keep): return "prediction added attributes %r to the sample" % sorted(set(t.__dict__) - set(keep))
        h = ThetaHolder(3); ts = [theta(rng) for _ in range(3)]
        for x in ts: h.add_theta(x)
        allm = predict_mean_all(s, h)
        if allm.shape != (3, s.size) or any(not np.array_equal(allm[k], ts[k].predict_conditional_mean(s)) for k in range(3)): return "predict_mean_all rows are not the samples in holder order"
        if not np.allclose(predict_mean_avg(s, h), allm.mean(axis=0), rtol=1e-12, atol=1e-12): return "predict_mean_avg is not the mean"
        if not np.allclose(predict_viability_avg(s, h), predict_viability_all(s, h).mean(axis=0), rtol=1e-12, atol=1e-12): return "predict_viability_avg is not the mean"
        if predict_variance_all(s, h).shape != (3, s.size): return "predict_variance_all shape"
    return None


def main():
    ap = argparse.ArgumentParser()
    ap.add_argument("--tier", default="quick"); ap.add_argument("--seed", type=int, default=0)
    ap.add_argument("--search"); ap.add_argument("--replay")
    a = ap.parse_args()
    if a.replay:
        d = json.load(open(a.replay))["input"]; r = check(d["seed"])
        print(json.dumps({"violations": [dict(d, what=r)] if r else []})); return
    N = 120 if (a.tier == "quick" or a.search) else 3000
    viol = []
    for k in range(N):
        seed = a.seed * 1000003 + k
        try: r = check(seed)
        except Exception as e: r = "raised %r" % (e,)
        if r and len(viol) < 5: viol.append({"seed": seed, "what": r, "site": "posterior-sample predictions"})
    print(json.dumps({"violations": viol[:1], "bounded": [{"function": "predict_* of both sample types and models.main helpers", "bound": "%d random parameter sets x screens (<=8 rows, arity 1-2, control in either column)" % N,
                                                      "evaluations": N, "distinct_nontrivial": N, "label": "bounded stand-in, not counted as proved (float tolerance 1e-9..1e-12)"}]}))


main()
