"""Native harness for C19 (bounded stand-in + replay): the REAL orchestration script is imported by path and driven on real temporary
directory trees with a deterministic fake pipeline (native/c19_world.py); every filesystem mutation is an interruption point.
quick: every single interruption point, batch sizes 1..4, both modes.  thorough: plus pairs of interruptions (second one within 30
mutations of the restart).  Each interrupted history is compared with the uninterrupted execution: same inputs per launched step,
same recorded selections, same completed steps in order, none deleted or re-run, byte-identical final tree; the directory named in
the RuntimeError is the only thing the harness ever deletes on the script's request."""
import argparse, json, os, sys
sys.path.insert(0, os.path.dirname(os.path.abspath(__file__)))
import c19_world as W


def configs(tier):
    single = []
    for bs in (1, 2, 3, 4):
        single.append(dict(mode="retrospective", batch_size=bs, n_plates=6, n_invocations=1))
        single.append(dict(mode="prospective", batch_size=bs, n_plates=12, n_invocations=2))
    pairs = [dict(mode="retrospective", batch_size=1, n_plates=3, n_invocations=1), dict(mode="retrospective", batch_size=2, n_plates=4, n_invocations=1),
             dict(mode="prospective", batch_size=2, n_plates=8, n_invocations=2)] if tier == "thorough" else [dict(mode="retrospective", batch_size=2, n_plates=4, n_invocations=1)]
    return single, pairs


class Stuck(Exception):
    pass


def _alarm(signum, frame):
    raise Stuck()


def reference(mod, cfg):
    import signal
    signal.signal(signal.SIGALRM, _alarm)
    signal.alarm(120)
    try:
        return W.run_history(mod, cfg, ())
    finally:
        signal.alarm(0)


def run_one(mod, cfg, ints, ref):
    import signal
    signal.signal(signal.SIGALRM, _alarm)
    signal.alarm(60)  # one history takes milliseconds; a minute means the script (or its recovery) does not terminate
    try:
        world, status, tree = W.run_history(mod, cfg, tuple(ints))
    except Stuck:
        return "ok", ["the script did not finish a history within 60 s (it loops without launching anything)"]
    finally:
        signal.alarm(0)
    if status.startswith("not-fired"):
        return status, None
    v = W.compare(ref[0], ref[1], world, tree)
    return status, (v or None)


def main():
    ap = argparse.ArgumentParser()
    ap.add_argument("--tier", default="quick"); ap.add_argument("--seed", type=int, default=0)
    ap.add_argument("--search"); ap.add_argument("--replay")
    a = ap.parse_args()
    mod = W.load_script()
    # whole-run budget (the unchanged tree needs ~25 s quick, a few minutes thorough): a script that does not terminate must not hang the check
    import threading
    budget = 900 if (a.tier == "quick" or a.search or a.replay) else 5400

    def _give_up():
        print(json.dumps({"violations": [{"cfg": None, "interruptions": [], "what": "the harness exceeded its time budget of %d s: the script under test (or its recovery) does not terminate" % budget,
                                          "site": "orchestration script termination"}], "bounded": []}), flush=True)
        os._exit(0)
    _t = threading.Timer(budget, _give_up); _t.daemon = True; _t.start()
    if a.replay:
        d = json.load(open(a.replay))["input"]
        cfg, ints = d["cfg"], [tuple(x) if isinstance(x, list) else x for x in d["interruptions"]]
        ref_world, st, ref_tree = reference(mod, cfg)
        st, v = run_one(mod, cfg, ints, (ref_world, ref_tree))
        print(json.dumps({"violations": [dict(d, what="; ".join(v[:3]))] if v else []})); return
    single, pairs = configs("quick" if a.search else a.tier)
    viol, total = [], 0

    def note(cfg, ints, v):
        if not viol:
            viol.append({"cfg": cfg, "interruptions": [list(x) if isinstance(x, tuple) else x for x in ints], "what": "; ".join(v[:3]), "site": "orchestration script resume (%s)" % cfg["mode"]})

    for cfg in single:
        try:
            rw, st, rt = reference(mod, cfg)
        except Stuck:
            note(cfg, (), ["the uninterrupted campaign does not terminate within 120 s"]); continue
        if rw.violations:
            note(cfg, (), rw.violations); continue
        for inv in range(cfg["n_invocations"]):
            n = 0
            while not viol:
                st, v = run_one(mod, cfg, ((inv, n),), (rw, rt))
                if st == "not-fired-1": break
                total += 1
                if v: note(cfg, ((inv, n),), v)
                n += 1
    for cfg in pairs:
        try:
            rw, st, rt = reference(mod, cfg)
        except Stuck:
            note(cfg, (), ["the uninterrupted campaign does not terminate within 120 s"]); continue
        for inv in range(cfg["n_invocations"]):
            n, done = 0, False
            while not done and not viol:
                for m in range(W.PAIR_WINDOW):
                    st, v = run_one(mod, cfg, ((inv, n), m), (rw, rt))
                    if st == "not-fired-1": done = True; break
                    if st == "not-fired-2": break
                    total += 1
                    if v: note(cfg, ((inv, n), m), v)
                n += 1
    print(json.dumps({"violations": viol, "bounded": [{"function": "nextflow/scripts/batchie.py main loop (run_next_*_step, examine_output_dir...) on real directory trees",
        "bound": "every single interruption point (each directory creation, rmtree, published file) for batch sizes 1..4, 6 resp. 12 plates, both modes; pairs of interruptions (second within %d mutations of the restart) for %d small configurations" % (W.PAIR_WINDOW, len(pairs)),
        "evaluations": total, "distinct_nontrivial": total, "label": "bounded stand-in, not counted as proved"}]}))


main()
