"""Native harness for C08 (bounded stand-in + replay): native/c08_oracle.py drives the real sampler through its public API with the three
primitive draws (np.random.normal, np.random.gamma, sample_mvn_from_precision) wrapped by recording stubs; on every draw an independent
oracle derived from the documented model and priors - from the CURRENT parameters, never from the sampler's cached fitted values - says
what the arguments of that draw, the block visited and the running fitted values have to be; the real multivariate-normal routine is probed
with a controlled standard-normal source for mean Q^-1 b and covariance Q^-1."""
import argparse, json, os, sys, io, contextlib
os.environ["C08_AS_MODULE"] = "1"
sys.path.insert(0, os.path.dirname(os.path.abspath(__file__)))


def run(tier):
    import importlib, numpy as np
    O = importlib.import_module("c08_oracle")
    O.FAILURES.clear()
    buf = io.StringIO()
    n = 0
    with contextlib.redirect_stdout(buf):
        screen = O.build_screen()
        try:
            O.standalone_mvn_checks()
        except Exception as e:
            O.FAILURES.append("mvn routine raised %r" % (e,))
        cfgs = [(1, False), (2, True), (3, False), (4, False), (6, True)]
        if tier == "thorough":
            cfgs += [(d, e) for d in (1, 2, 3, 5, 8) for e in (False, True)]
        for k, (D, start_empty) in enumerate(cfgs):
            try:
                O.run_scenario(screen, D, seed=1000 + D + 17 * k, start_empty=start_empty)
            except Exception as e:  # the sampler raised where the oracle expects a draw
                O.FAILURES.append("scenario D=%d start_empty=%s: the real code raised %r" % (D, start_empty, e))
            n += 1
        # a failing embedding draw in each of the W, V2 and V1 blocks (call numbers spread over the sweep), then all three at once
        ncalls = None
        for k, D in enumerate((2, 3) if tier != "thorough" else (1, 2, 3, 5)):
            try:
                ncalls = O.run_fault_scenario(screen, D, 4000 + k, set()) if ncalls is None else ncalls
                picks = [{1}, {max(1, ncalls // 2)}, {ncalls}, {2, max(2, ncalls // 2 + 1), max(3, ncalls - 1)}] + [{c} for c in range(1, ncalls + 1, max(1, ncalls // (6 if tier != "thorough" else 40)))]
                for fc in picks:
                    O.run_fault_scenario(screen, D, 4100 + k, fc)
                    n += 1
            except Exception as e:
                O.FAILURES.append("failing-draw scenario D=%d: the real code raised %r" % (D, e))
    return [f for f in O.FAILURES if f], n


def main():
    ap = argparse.ArgumentParser()
    ap.add_argument("--tier", default="quick"); ap.add_argument("--seed", type=int, default=0)
    ap.add_argument("--search"); ap.add_argument("--replay")
    a = ap.parse_args()
    fails, n = run("quick" if (a.search or a.replay) else a.tier)
    if a.replay:
        print(json.dumps({"violations": [{"what": str(fails[0])[:600]}] if fails else []})); return
    viol = [{"seed": 0, "what": str(fails[0])[:600], "site": "sparse_combo Gibbs sweep"}] if fails else []
    print(json.dumps({"violations": viol, "bounded": [{"function": "LegacySparseDrugComboImpl blocks via SparseDrugCombo.step, fast_mvn.sample_mvn_from_precision",
        "bound": "%d sampler scenarios (embedding sizes 1..8, started empty or not, observations added in two batches, several sweeps each) on one designed screen (treatments only in first / second / both positions, single-agent rows, samples and treatments without data); 7 precision matrices for the mvn routine; numerically failing embedding draws injected at spread call positions (consistency clauses only)" % n,
        "evaluations": n * 100, "distinct_nontrivial": n, "label": "bounded stand-in, not counted as proved"}]}))


main()
