"""
C08 demo: every Gibbs block of the sparse combination model draws from the exact
full conditional of the documented model.

The sampler is driven only through its public API (add_observations / step /
reset_model / get_model_state).  The three primitive random draws it uses
(np.random.normal, np.random.gamma and the multivariate normal draw
sample_mvn_from_precision) are wrapped by recording stubs.  On every draw an
independent oracle -- derived from the model definition
    y = alpha + W0[c] + V0[d1] + V0[d2] + W[c].(V1[d1]+V1[d2]) + W[c].(V2[d1]*V2[d2]) + N(0, 1/prec)
and its priors, using only the *current parameters* (never the sampler's cached
fitted values) -- computes what the arguments of that draw have to be, which
block has to be visited at this point of the sweep, and what the running fitted
values have to be.  The real multivariate normal routine is additionally probed
with a controlled standard-normal source to establish mean Q^-1 b and covariance
Q^-1 on every precision matrix the sampler produces.

exit 0: property holds in all scenarios;  exit 1: a violation was found.
"""
import sys
import warnings

import numpy as np
from scipy.special import logit

from batchie import fast_mvn
from batchie.data import Screen, ExperimentSpace
from batchie.models import sparse_combo

FAILURES = []


def fail(msg):
    if len(FAILURES) < 15:
        FAILURES.append(msg)
    else:
        FAILURES.append(None)


def close(actual, expected, scale=None, rtol=2e-4):
    actual = np.asarray(actual, dtype=np.float64)
    expected = np.asarray(expected, dtype=np.float64)
    if actual.shape != expected.shape:
        try:
            actual = np.broadcast_to(actual, expected.shape)
        except ValueError:
            return False
    if scale is None:
        scale = np.maximum(np.abs(expected), np.abs(actual))
    return bool(np.all(np.abs(actual - expected) <= rtol * np.asarray(scale) + 1e-12))


# ----------------------------------------------------------------------------
# data
# ----------------------------------------------------------------------------
def build_screen():
    """
    plate p1 / p2 are observed (added in two batches), p3 is not observed.
    treatments (name, dose):
      A@1  only ever in the first position
      B@1  only ever in the second position
      C@1, D@1, A@2 in both positions
      E@1  only single agent rows (control in either column)
      G@1  first position only, only in batch 2
      F@1  never observed (only on the unobserved plate)
    samples: s0..s3 observed, s4 never observed, s3 only single agent rows
    No row has the same non-control treatment in both positions.
    """
    rows = [
        # sample, t1, dose1, t2, dose2, plate
        ("s0", "A", 1.0, "B", 1.0, "p1"),
        ("s0", "A", 1.0, "C", 1.0, "p1"),
        ("s0", "C", 1.0, "D", 1.0, "p1"),
        ("s0", "D", 1.0, "B", 1.0, "p1"),
        ("s0", "A", 1.0, "control", 0.0, "p1"),
        ("s0", "control", 0.0, "B", 1.0, "p1"),
        ("s1", "A", 1.0, "B", 1.0, "p1"),
        ("s1", "D", 1.0, "C", 1.0, "p1"),
        ("s1", "A", 2.0, "C", 1.0, "p1"),
        ("s1", "C", 1.0, "A", 2.0, "p1"),
        ("s1", "control", 0.0, "E", 1.0, "p1"),
        ("s1", "E", 1.0, "control", 0.0, "p1"),
        ("s1", "control", 0.0, "control", 0.0, "p1"),
        ("s2", "A", 1.0, "D", 1.0, "p1"),
        ("s2", "A", 2.0, "B", 1.0, "p1"),
        ("s2", "D", 1.0, "A", 2.0, "p1"),
        ("s2", "C", 1.0, "B", 1.0, "p1"),
        ("s2", "C", 1.0, "control", 0.0, "p1"),
        ("s3", "control", 0.0, "D", 1.0, "p1"),
        ("s3", "E", 1.0, "control", 0.0, "p1"),
        ("s0", "A", 2.0, "D", 1.0, "p1"),
        ("s2", "A", 1.0, "C", 1.0, "p1"),
        # second batch
        ("s0", "G", 1.0, "B", 1.0, "p2"),
        ("s1", "G", 1.0, "C", 1.0, "p2"),
        ("s3", "A", 1.0, "B", 1.0, "p2"),
        ("s3", "C", 1.0, "D", 1.0, "p2"),
        ("s2", "G", 1.0, "control", 0.0, "p2"),
        ("s2", "D", 1.0, "C", 1.0, "p2"),
        ("s0", "control", 0.0, "E", 1.0, "p2"),
        # never observed
        ("s4", "F", 1.0, "B", 1.0, "p3"),
        ("s4", "A", 1.0, "F", 1.0, "p3"),
        ("s0", "F", 1.0, "control", 0.0, "p3"),
    ]
    n = len(rows)
    rs = np.random.RandomState(20240508)
    obs = rs.uniform(0.0, 1.1, size=n)
    obs[3] = 0.0  # below the clipping range of the logit transform
    obs[8] = 1.3  # above it
    plates = np.array([r[5] for r in rows], dtype=str)
    return Screen(
        observations=obs,
        observation_mask=(plates != "p3"),
        sample_names=np.array([r[0] for r in rows], dtype=str),
        plate_names=plates,
        treatment_names=np.array([[r[1], r[3]] for r in rows], dtype=str),
        treatment_doses=np.array([[r[2], r[4]] for r in rows], dtype=float),
        control_treatment_name="control",
    )


class Training:
    """Independent record of what has been handed to the model."""

    def __init__(self):
        self.subsets = []
        self.y = np.zeros(0)
        self.c = np.zeros(0, dtype=int)
        self.d1 = np.zeros(0, dtype=int)
        self.d2 = np.zeros(0, dtype=int)

    def add(self, subset):
        self.subsets.append(subset)
        y = logit(np.clip(subset.observations.astype(np.float32), 0.01, 0.99))
        self.y = np.concatenate([self.y, y.astype(np.float64)])
        self.c = np.concatenate([self.c, subset.sample_ids])
        self.d1 = np.concatenate([self.d1, subset.treatment_ids[:, 0]])
        self.d2 = np.concatenate([self.d2, subset.treatment_ids[:, 1]])

    @property
    def n(self):
        return len(self.y)


# ----------------------------------------------------------------------------
# the model, written down independently
# ----------------------------------------------------------------------------
BLOCKS = ("alpha", "W0", "V0", "W", "V1", "V2")


def current_params(m):
    return {
        "alpha": np.float64(m.alpha),
        "W0": np.array(m.W0, dtype=np.float64),
        "V0": np.array(m.V0, dtype=np.float64),
        "W": np.array(m.W, dtype=np.float64),
        "V1": np.array(m.V1, dtype=np.float64),
        "V2": np.array(m.V2, dtype=np.float64),
    }


def _z(A, ix):
    out = A[ix].copy()
    out[ix == -1] = 0.0
    return out


def fitted(p, tr):
    W = p["W"][tr.c]
    return (
        p["alpha"]
        + p["W0"][tr.c]
        + _z(p["V0"], tr.d1)
        + _z(p["V0"], tr.d2)
        + np.sum(W * (_z(p["V1"], tr.d1) + _z(p["V1"], tr.d2)), -1)
        + np.sum(W * _z(p["V2"], tr.d1) * _z(p["V2"], tr.d2), -1)
    )


def gaussian_block_conditional(m, tr, name, index, prior_prec):
    """
    Canonical parameters (Q, b) of the full conditional N(Q^-1 b, Q^-1) of block
    `name[index]`.  The fitted values are affine in any single block (no row has
    the same treatment twice), so the design matrix is obtained by evaluating the
    model with the block set to zero and to each unit vector.
    """
    p = current_params(m)
    prior_prec = np.atleast_1d(np.asarray(prior_prec, dtype=np.float64))
    dim = prior_prec.shape[0]
    saved = np.array(p[name][index], dtype=np.float64, copy=True)
    p[name][index] = 0.0
    r = fitted(p, tr)
    X = np.zeros((tr.n, dim))
    for j in range(dim):
        e = np.zeros(dim)
        e[j] = 1.0
        p[name][index] = e if saved.ndim else 1.0
        X[:, j] = fitted(p, tr) - r
    prec = float(m.prec)
    Q = prec * X.T @ X + np.diag(prior_prec)
    b = prec * X.T @ (tr.y - r)
    # magnitude of the terms entering b, for a cancellation-aware tolerance
    bscale = prec * np.abs(X).T @ (np.abs(tr.y) + np.abs(r) + np.abs(X @ np.atleast_1d(saved)) + 1.0)
    return Q, b, bscale


# ----------------------------------------------------------------------------
# recording stubs + oracle
# ----------------------------------------------------------------------------
class FixedNormalSource:
    """Stands in for a numpy Generator: returns a prescribed standard normal vector."""

    def __init__(self, z):
        self.z = np.asarray(z, dtype=np.float64)

    def normal(self, loc=0.0, scale=1.0, size=None):
        return loc + scale * self.z.copy()

    def standard_normal(self, size=None, *a, **k):
        return self.z.copy()


def check_mvn_routine(real_mvn, Q, b, where):
    """mean must be Q^-1 b and covariance Q^-1 (draw = mean + A z, A A^T = Q^-1)."""
    Q = np.asarray(Q, dtype=np.float64)
    b = np.asarray(b, dtype=np.float64)
    D = Q.shape[0]
    Qinv = np.linalg.inv(Q)
    mean = np.asarray(real_mvn(Q.copy(), mu_part=b.copy(), rng=FixedNormalSource(np.zeros(D))), dtype=np.float64)
    if not close(mean, Qinv @ b, scale=np.abs(Qinv) @ np.abs(b) + 1e-9, rtol=1e-6):
        fail(f"{where}: multivariate normal draw has mean {mean}, expected Q^-1 b = {Qinv @ b}")
    A = np.zeros((D, D))
    for j in range(D):
        e = np.zeros(D)
        e[j] = 1.0
        A[:, j] = np.asarray(real_mvn(Q.copy(), mu_part=b.copy(), rng=FixedNormalSource(e)), dtype=np.float64) - mean
    cov = A @ A.T
    sd = np.sqrt(np.diag(Qinv))
    if not close(cov, Qinv, scale=np.outer(sd, sd), rtol=1e-6):
        fail(
            f"{where}: multivariate normal draw has covariance\n{cov}\nexpected Q^-1 =\n{Qinv}\n(Q =\n{Q})"
        )


class Harness:
    def __init__(self, model, training, seed, label):
        self.model = model
        self.m = model.wrapped_model
        self.tr = training
        self.rs = np.random.RandomState(seed)
        self.label = label
        self.gen = None
        self.last = None
        self.where = ""
        self.real_mvn = fast_mvn.sample_mvn_from_precision

    # -- helpers ------------------------------------------------------------
    def check_mu(self, when):
        if self.tr.n == 0:
            return
        mu = np.asarray(self.m.Mu, dtype=np.float64)
        exp = fitted(current_params(self.m), self.tr)
        if mu.shape != exp.shape or not close(mu, exp, scale=np.abs(exp) + 1.0, rtol=2e-4):
            bad = np.where(np.abs(mu - exp) > 2e-4 * (np.abs(exp) + 1.0))[0] if mu.shape == exp.shape else "shape"
            fail(f"{self.label} {when}: running fitted values differ from those implied by the parameters at rows {bad}")

    def lower(self):
        return 1.0 / np.sqrt(1.0 + self.tr.n)

    def trt_lower(self):
        nd = self.m.n_drugdoses
        cnt = np.array([np.sum(self.tr.d1 == t) + np.sum(self.tr.d2 == t) for t in range(nd)])
        return 1.0 / np.sqrt(1.0 + cnt)

    # -- the documented sweep ---------------------------------------------------
    def sweep(self):
        m, tr = self.m, self.tr
        D, nc, nd = m.D, m.n_clines, m.n_drugdoses

        def gaussian(name, index, prior_prec, tag):
            Q, b, bscale = gaussian_block_conditional(m, tr, name, index, prior_prec)
            value = yield ("gauss", tag, Q, b, bscale)
            stored = np.asarray(getattr(m, name)[index], dtype=np.float64)
            if value is not None and not close(stored, value, rtol=1e-5):
                fail(f"{self.label} {tag}: parameter holds {stored} but the draw returned {value}")

        def gamma(shape, rate, tag):
            value = yield ("gamma", tag, np.asarray(shape, dtype=np.float64), 1.0 / np.asarray(rate, dtype=np.float64))
            return np.asarray(value, dtype=np.float64)

        def bounded(attr, drawn, lo, tag):
            cur = np.asarray(getattr(m, attr), dtype=np.float64)
            exp = np.clip(drawn, lo, 1e6)
            if not close(cur, np.broadcast_to(exp, cur.shape), rtol=1e-5):
                fail(f"{self.label} {tag}: stored precision {cur} is not the draw clipped to its bounds [{lo}, 1e6] = {exp}")

        # alpha: held at the mean of the transformed observations; no draw
        # (checked on entry to the first W0 block, below)
        for c in range(nc):
            if c == 0 and tr.n > 0:
                if not close(m.alpha, np.mean(tr.y), scale=abs(np.mean(tr.y)) + 1.0, rtol=1e-5):
                    fail(f"{self.label}: global intercept is {m.alpha}, mean of transformed observations is {np.mean(tr.y)}")
            yield from gaussian("W0", c, m.tau0, f"W0[{c}]")
        for t in range(nd):
            yield from gaussian("V0", t, m.phi0[t] * m.eta0, f"V0[{t}]")
        for c in range(nc):
            yield from gaussian("W", c, np.asarray(m.tau, dtype=np.float64) * np.ones(D), f"W[{c}]")
        for t in range(nd):
            yield from gaussian("V2", t, np.asarray(m.phi2[t], dtype=np.float64) * m.eta2, f"V2[{t}]")
        for t in range(nd):
            yield from gaussian("V1", t, np.asarray(m.phi1[t], dtype=np.float64) * m.eta1, f"V1[{t}]")

        lo = self.lower()
        # scale of the per-sample intercepts
        W0 = np.asarray(m.W0, dtype=np.float64)
        v = yield from gamma(m.a0 + 0.5 * nc, m.b0 + 0.5 * np.sum(W0**2) + 1e-3, "tau0")
        bounded("tau0", v, lo, "tau0")
        # scales of the per-treatment intercepts
        V0 = np.asarray(m.V0, dtype=np.float64)
        aux = yield from gamma(np.ones(nd), 1.0 + np.asarray(m.phi0, dtype=np.float64), "phi0-aux")
        v = yield from gamma(np.ones(nd), aux + 0.5 * m.eta0 * V0**2 + 1e-3, "phi0")
        bounded("phi0", v, self.trt_lower(), "phi0")
        aux = yield from gamma(1.0, 1.0 + m.eta0, "eta0-aux")
        v = yield from gamma(0.5 * (1 + nd), aux + 0.5 * np.sum(np.asarray(m.phi0, dtype=np.float64) * V0**2) + 1e-3, "eta0")
        bounded("eta0", v, lo, "eta0")
        # observation noise
        if tr.n == 0:
            v = yield from gamma(m.a0, m.b0, "prec(no data)")
            if not close(m.prec, v, rtol=1e-6):
                fail(f"{self.label} prec: stored {m.prec} differs from draw {v}")
        else:
            sse = np.sum((tr.y - fitted(current_params(m), tr)) ** 2)
            v = yield from gamma(m.a0 + 0.5 * tr.n, m.b0 + 0.5 * sse + 1e-3, "prec")
            bounded("prec", v, lo, "prec")
        # embedding scales
        for k in ("2", "1"):
            V = np.asarray(getattr(m, "V" + k), dtype=np.float64)
            phi = np.asarray(getattr(m, "phi" + k), dtype=np.float64)
            eta = np.asarray(getattr(m, "eta" + k), dtype=np.float64)
            aux = yield from gamma(np.ones((nd, D)), 1.0 + phi, f"phi{k}-aux")
            v = yield from gamma(np.ones((nd, D)), aux + 0.5 * eta * V**2 + 1e-3, f"phi{k}")
            bounded("phi" + k, v, self.trt_lower()[:, None], f"phi{k}")
            phi = np.asarray(getattr(m, "phi" + k), dtype=np.float64)
            aux = yield from gamma(np.ones(D), 1.0 + eta, f"eta{k}-aux")
            v = yield from gamma(0.5 * (1 + nd) * np.ones(D), aux + 0.5 * np.sum(phi * V**2, 0) + 1e-3, f"eta{k}")
            bounded("eta" + k, v, lo, f"eta{k}")
        # multiplicative gamma process on the sample embedding precisions:
        # tau_h = prod_{l<=h} gam_l, gam_0 ~ Ga(2,1), gam_d ~ Ga(3,1), W[c,h] ~ N(0, 1/tau_h)
        W2 = np.sum(np.asarray(m.W, dtype=np.float64) ** 2, 0)
        for d in range(D):
            g = np.asarray(m.gam, dtype=np.float64)
            tau_wo_d = np.cumprod(g)[d:] / g[d]
            shape = (2.0 if d == 0 else 3.0) + 0.5 * nc * (D - d)
            rate = 1.0 + 0.5 * np.sum(tau_wo_d * W2[d:]) + 1e-3
            v = yield from gamma(shape, rate, f"gam[{d}]")
            if not close(m.gam[d], v, rtol=1e-5):
                fail(f"{self.label} gam[{d}]: stored {m.gam[d]} differs from draw {v}")
        bounded("tau", np.cumprod(np.asarray(m.gam, dtype=np.float64)), lo, "tau")

    # -- event dispatch ---------------------------------------------------------
    def next_expected(self, kind, desc):
        if self.gen is None:
            fail(f"{self.label}: random draw ({desc}) outside of a sampler step")
            return None
        try:
            exp = self.gen.send(self.last) if self.started else next(self.gen)
            self.started = True
        except StopIteration:
            fail(f"{self.label}: unexpected extra draw ({desc}) after the documented sweep was complete")
            self.gen = None
            return None
        self.where = f"{self.label} block {exp[1]}"
        self.check_mu(f"on entry to block {exp[1]}")
        return exp

    def on_gaussian(self, Q, b, desc):
        exp = self.next_expected("gauss", desc)
        if exp is None:
            return
        if exp[0] != "gauss":
            fail(f"{self.where}: expected a {exp[0]} draw at this point of the sweep, got {desc}")
            return
        _, tag, Qe, be, bscale = exp
        if np.shape(Q) != Qe.shape:
            fail(f"{self.where}: draw has dimension {np.shape(Q)}, expected {Qe.shape}")
            return
        if not close(Q, Qe, scale=np.max(np.abs(Qe)), rtol=2e-4):
            fail(f"{self.where}: precision of the draw is\n{np.asarray(Q)}\nfull conditional has\n{Qe}")
        if not close(b, be, scale=bscale, rtol=2e-4):
            fail(f"{self.where}: Q*mean of the draw is {np.asarray(b)}, full conditional has {be}")

    def normal(self, loc=0.0, scale=1.0, size=None):
        loc_a = np.asarray(loc, dtype=np.float64)
        scale_a = np.asarray(scale, dtype=np.float64)
        shape = np.broadcast(loc_a, scale_a).shape
        prec = np.broadcast_to(1.0 / scale_a**2, shape).reshape(-1)
        mean = np.broadcast_to(loc_a, shape).reshape(-1)
        self.on_gaussian(np.diag(prec), prec * mean, f"normal(loc={loc}, scale={scale})")
        value = self.rs.normal(loc, scale, size)
        self.last = np.asarray(value, dtype=np.float64)
        return value

    def mvn(self, Q, mu=None, mu_part=None, chol_factor=False, rng=None):
        if mu_part is None or chol_factor:
            fail(f"{self.label}: unexpected call form of the multivariate normal draw")
        self.on_gaussian(Q, mu_part, "multivariate normal")
        check_mvn_routine(self.real_mvn, Q, mu_part, self.where)
        z = self.rs.normal(size=np.shape(Q)[0])
        value = self.real_mvn(Q, mu_part=mu_part, rng=FixedNormalSource(z))
        self.last = np.asarray(value, dtype=np.float64)
        return value

    def gamma(self, shape, scale=1.0, size=None):
        exp = self.next_expected("gamma", f"gamma(shape={shape}, scale={scale})")
        if exp is not None:
            if exp[0] != "gamma":
                fail(f"{self.where}: expected a Gaussian block update at this point of the sweep, got gamma(shape={shape}, scale={scale})")
            else:
                _, tag, she, sce = exp
                bshape = np.broadcast(np.asarray(shape), np.asarray(scale)).shape
                if bshape != np.broadcast(she, sce).shape:
                    fail(f"{self.where}: gamma draw has shape {bshape}, expected {np.broadcast(she, sce).shape}")
                else:
                    if not close(np.broadcast_to(shape, bshape), np.broadcast_to(she, bshape), rtol=1e-9):
                        fail(f"{self.where}: gamma shape parameter is {shape}, full conditional has {she}")
                    if not close(np.broadcast_to(scale, bshape), np.broadcast_to(sce, bshape), rtol=5e-4):
                        fail(f"{self.where}: gamma scale parameter is {scale}, full conditional has {sce} (rate {1.0 / sce})")
        value = self.rs.gamma(shape, scale, size)
        # any positive number is a possible gamma draw: occasionally return an
        # extreme one so that the documented bounds are actually exercised
        u = self.rs.uniform(size=np.shape(value))
        big = 1e3 if (exp is not None and str(exp[1]).startswith("gam")) else 1e7
        factor = np.where(u < 0.06, 1.0 / big, np.where(u > 0.94, big, 1.0))
        value = value * factor
        if np.ndim(value) == 0:
            value = float(value)
        self.last = np.asarray(value, dtype=np.float64)
        return value

    # -- public driver ----------------------------------------------------------
    def step(self, k):
        self.gen = self.sweep()
        self.started = False
        self.last = None
        n_fail = len(FAILURES)
        label0 = self.label
        self.label = f"{label0} step {k}"
        with warnings.catch_warnings(record=True) as caught:
            warnings.simplefilter("always")
            self.model.step()
        for w in caught:
            if "instability" in str(w.message):
                fail(f"{self.label}: sampler skipped a block update ({w.message})")
        if self.gen is not None:
            try:
                exp = self.gen.send(self.last) if self.started else next(self.gen)
                fail(f"{self.label}: sweep ended although block {exp[1]} had not been visited")
            except StopIteration:
                pass
        self.gen = None
        self.check_mu("after the step")
        self.check_export()
        self.label = label0
        return len(FAILURES) == n_fail

    def check_export(self):
        theta = self.model.get_model_state()
        if self.tr.n == 0:
            return
        if not close(theta.precision, self.m.prec, rtol=1e-7):
            fail(f"{self.label}: exported precision {theta.precision} != sampler noise precision {self.m.prec}")
        means, variances = [], []
        for s in self.tr.subsets:
            means.append(theta.predict_conditional_mean(s))
            variances.append(theta.predict_conditional_variance(s))
        means = np.concatenate(means)
        variances = np.concatenate(variances)
        mu = np.asarray(self.m.Mu, dtype=np.float64)
        if means.shape != mu.shape or not close(means, mu, scale=np.abs(mu) + 1.0, rtol=2e-4):
            fail(f"{self.label}: exported sample does not reproduce the sampler's fitted values on the training experiments")
        if not close(variances, np.full(self.tr.n, 1.0 / float(self.m.prec)), rtol=1e-6):
            fail(f"{self.label}: exported sample does not reproduce the sampler's noise precision")


def run_scenario(screen, D, seed, start_empty):
    space = ExperimentSpace.from_screen(screen)
    model = sparse_combo.SparseDrugCombo(experiment_space=space, n_embedding_dimensions=D)
    tr = Training()
    h = Harness(model, tr, seed, f"[D={D}]")

    orig = (np.random.normal, np.random.gamma, sparse_combo.sample_mvn_from_precision)
    np.random.normal, np.random.gamma = h.normal, h.gamma
    sparse_combo.sample_mvn_from_precision = h.mvn
    try:
        k = 0
        if start_empty:
            # a step before any data has arrived: every block is a prior draw
            k += 1
            h.step(k)
        batch1 = screen.subset(screen.plate_names == "p1")
        model.add_observations(batch1)
        tr.add(batch1)
        for _ in range(3):
            k += 1
            h.step(k)
        batch2 = screen.subset(screen.plate_names == "p2")
        model.add_observations(batch2)
        tr.add(batch2)
        for _ in range(3):
            k += 1
            h.step(k)
        # restart of the chain, as done by batchie.sampling.sample
        model.reset_model()
        for _ in range(2):
            k += 1
            h.step(k)
    finally:
        np.random.normal, np.random.gamma, sparse_combo.sample_mvn_from_precision = orig


def run_fault_scenario(screen, D, seed, fail_calls):
    """A numerically failing embedding draw (the sampler's own fall-back path: float32 Cholesky of a nearly singular conditional precision raises
    LinAlgError; here the failure is injected at chosen calls of the multivariate-normal routine so that every Gaussian embedding block meets it).
    Whatever the block does then - keep the old value, retry - afterwards the running fitted values must equal those implied by the current
    parameters and the exported sample must reproduce them.  No oracle of the draws here: only the consistency clauses."""
    space = ExperimentSpace.from_screen(screen)
    model = sparse_combo.SparseDrugCombo(experiment_space=space, n_embedding_dimensions=D)
    tr = Training()
    h = Harness(model, tr, seed, f"[D={D} failing draw at calls {sorted(fail_calls)}]")
    real = sparse_combo.sample_mvn_from_precision
    state = {"n": 0}

    def flaky(*a, **kw):
        state["n"] += 1
        if state["n"] in fail_calls:
            raise np.linalg.LinAlgError("Matrix is not positive definite (injected)")
        return real(*a, **kw)
    st0 = np.random.get_state()
    np.random.seed(seed)
    sparse_combo.sample_mvn_from_precision = flaky
    try:
        for plate in ("p1", "p2"):
            batch = screen.subset(screen.plate_names == plate)
            model.add_observations(batch)
            tr.add(batch)
            for k in range(2):
                state["n"] = 0
                with warnings.catch_warnings():
                    warnings.simplefilter("ignore")
                    model.step()
                h.label = f"[D={D} failing draw at calls {sorted(fail_calls)}] after {plate} step {k + 1}"
                h.check_mu("after a step in which an embedding draw failed numerically")
                h.check_export()
    finally:
        sparse_combo.sample_mvn_from_precision = real
        np.random.set_state(st0)
    return state["n"]


def standalone_mvn_checks():
    rs = np.random.RandomState(7)
    mats = [np.array([[1.0, 0.4], [0.4, 1.0]]), np.array([[3.0]])]
    for d in (2, 3, 5):
        A = rs.normal(size=(d + 2, d))
        mats.append(A.T @ A * rs.uniform(0.5, 50.0) + np.diag(rs.uniform(0.1, 2.0, size=d)))
    for i, Q in enumerate(mats):
        b = rs.normal(size=Q.shape[0]) * 3.0
        check_mvn_routine(fast_mvn.sample_mvn_from_precision, Q, b, f"[mvn matrix #{i}]")


def main():
    screen = build_screen()
    both = screen.treatment_ids[:, 0] == screen.treatment_ids[:, 1]
    assert not np.any(both & (screen.treatment_ids[:, 0] != -1))
    standalone_mvn_checks()
    for D, start_empty in ((1, False), (2, True), (3, False), (4, False), (6, True)):
        run_scenario(screen, D, seed=1000 + D, start_empty=start_empty)
    if FAILURES:
        shown = [f for f in FAILURES if f is not None]
        print(f"PROPERTY C08 VIOLATED ({len(FAILURES)} finding(s); first {len(shown)} shown)")
        for f in shown:
            print(" -", f)
        return 1
    print("C08 holds on all scenarios: every draw matched its full conditional")
    return 0


if __name__ == "__main__" and not __import__("os").environ.get("C08_AS_MODULE"):
    sys.exit(main())
