"""Native (real code) harness for C15: bounded stand-in + replay. Runs under /venv/bin/python.
Bound: exhaustive for n <= N_MAX, k <= 4 (all indices); successor/rank relations at sampled indices for n up to thousands."""
import argparse, json, math, itertools, random, sys
from batchie.scoring.gaussian_dbal import get_combination_at_sorted_index as unrank


def rank(t):
    k = len(t)
    return sum(math.comb(c, k - j) for j, c in enumerate(t))


def check_one(index, n, k):
    try:
        t = unrank(index, n, k)
    except Exception as e:  # noqa
        return "raised %r" % (e,)
    if len(t) != k:
        return "length %d != k" % len(t)
    if any(t[i] <= t[i + 1] for i in range(k - 1)):
        return "not strictly descending: %r" % (t,)
    if k and (t[0] >= n or t[-1] < 0):
        return "out of range: %r" % (t,)
    if rank(t) != index:
        return "rank(%r)=%d != index" % (t, rank(t))
    return None


def main():
    ap = argparse.ArgumentParser()
    ap.add_argument("--tier", default="quick"); ap.add_argument("--seed", type=int, default=0)
    ap.add_argument("--search"); ap.add_argument("--replay")
    a = ap.parse_args()
    viol = []
    if a.replay:
        d = json.load(open(a.replay))["input"]
        r = check_one(d["index"], d["n"], d["k"])
        print(json.dumps({"violations": [dict(d, what=r)] if r else []}))
        return
    nmax = 9 if a.tier == "quick" or a.search else 14
    evals = 0; distinct = 0
    cands = []
    if a.search:
        m = (json.load(open(a.search)).get("model") or {})
        try:
            cands.append((int(m.get("index", 0)), int(m.get("n", 0)), int(m.get("k", 0))))
        except Exception:
            pass
    for (i, n, k) in cands:
        if 0 <= k and 0 <= i < math.comb(n, k) if n >= 0 else False:
            r = check_one(i, n, k)
            if r:
                viol.append({"index": i, "n": n, "k": k, "what": r, "site": "get_combination_at_sorted_index"})
    for n in range(0, nmax + 1):
        for k in range(0, 5):
            N = math.comb(n, k)
            got = []
            for i in range(N):
                evals += 1
                r = check_one(i, n, k)
                if r and len(viol) < 5:
                    viol.append({"index": i, "n": n, "k": k, "what": r, "site": "get_combination_at_sorted_index"})
                if not r:
                    got.append(unrank(i, n, k))
            if N > 1:
                distinct += 1
            if not viol and N and (sorted(got) != got or len(set(got)) != N or
                                   set(got) != set(tuple(sorted(c, reverse=True)) for c in itertools.combinations(range(n), k))):
                viol.append({"index": 0, "n": n, "k": k, "what": "enumeration is not the sorted set of all combinations", "site": "get_combination_at_sorted_index"})
    rnd = random.Random(a.seed)
    big = 0
    if not a.search:
        for _ in range(300 if a.tier == "quick" else 5000):
            n = rnd.randrange(50, 4000); k = rnd.randrange(1, 5)
            N = math.comb(n, k); i = rnd.randrange(N - 1)
            evals += 2; big += 1
            for j in (i, i + 1):
                r = check_one(j, n, k)
                if r and len(viol) < 5:
                    viol.append({"index": j, "n": n, "k": k, "what": r, "site": "get_combination_at_sorted_index"})
            if not viol and not (unrank(i, n, k) < unrank(i + 1, n, k)):
                viol.append({"index": i, "n": n, "k": k, "what": "successor not ascending", "site": "get_combination_at_sorted_index"})
    print(json.dumps({"violations": viol, "bounded": [{
        "function": "get_combination_at_sorted_index", "bound": "exhaustive n<=%d, k<=4; %d sampled (n<4000,k<=4) index pairs" % (nmax, big),
        "evaluations": evals, "distinct_nontrivial": distinct + big, "label": "bounded stand-in, not counted as proved"}]}))


main()
