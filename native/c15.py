"""Native (real code) harness for C15: bounded stand-in + replay. Runs under /venv/bin/python.
Bound: exhaustive for n <= N_MAX, k <= 4 (all indices); successor/rank relations at sampled indices for n up to thousands."""
import argparse, json, math, itertools, random, sys
from batchie.scoring.gaussian_dbal import get_combination_at_sorted_index as unrank


def rank(t):
    k = len(t)
    return sum(math.comb(c, k - j) for j, c in enumerate(t))


def check_one(index, n, k):
    try:
        t = unrank(index, n, k)
    except Exception as e:  # noqa
        return "raised %r" % (e,)
    if len(t) != k:
        return "length %d != k" % len(t)
    if any(t[i] <= t[i + 1] for i in range(k - 1)):
        return "not strictly descending: %r" % (t,)
    if k and (t[0] >= n or t[-1] < 0):
        return "out of range: %r" % (t,)
    if rank(t) != index:
        return "rank(%r)=%d != index" % (t, rank(t))
    return None


def check_kernel_triples(seed, sizes):
    import numpy as np
    from batchie.scoring.gaussian_dbal import dbal_fast_gauss_scoring_vectorized
    rec = []

    class Rec(np.ndarray):
        def __getitem__(self, ix):
            if isinstance(ix, tuple) and len(ix) == 2 and all(isinstance(x, np.ndarray) and x.ndim == 1 for x in ix):
                rec.append((np.asarray(ix[0]).copy(), np.asarray(ix[1]).copy()))
            return np.asarray(super().__getitem__(ix))
    for n in sizes:
        for budget in ((math.comb(n, 3) + 5, 50) if n <= 12 else (200,)):
            del rec[:]
            D = np.broadcast_to(np.float64(1.0), (n, n)).view(Rec)
            rng = np.random.default_rng(seed + n)
            pred = rng.normal(size=(1, n, 1)); var = np.ones((1, n, 1))
            try:
                dbal_fast_gauss_scoring_vectorized(pred, var, D, rng, max_combos=budget)
            except Exception as e:  # noqa
                return {"index": 0, "n": n, "k": 3, "what": "scoring kernel raised %r with %d posterior samples (budget %d)" % (e, n, budget)}
            if len(rec) < 3: return None  # the kernel no longer reads the distance matrix by index pairs: nothing observed, nothing claimed
            (a1, a2), (b2, b3), (c1, c3) = rec[0], rec[1], rec[2]
            if not (np.array_equal(a1, c1) and np.array_equal(a2, b2) and np.array_equal(b3, c3)): return None  # another access pattern: nothing claimed
            T = np.stack([a1, a2, b3], axis=1).astype(object)
            want = min(math.comb(n, 3), budget)
            tl = [tuple(int(x) for x in t) for t in T]
            what = None
            if any(not (n > t[0] > t[1] > t[2] >= 0) for t in tl): what = "triple %r is not strictly descending within range(%d)" % (next(t for t in tl if not (n > t[0] > t[1] > t[2] >= 0)), n)
            elif len(set(tl)) != len(tl): what = "the triples used for scoring are not pairwise distinct"
            elif budget >= math.comb(n, 3) and set(tl) != {tuple(sorted(c, reverse=True)) for c in itertools.combinations(range(n), 3)}: what = "budget covers every triple but not all are used"
            if what: return {"index": 0, "n": n, "k": 3, "what": what + " (n_thetas=%d, budget=%d)" % (n, budget)}
    return None


def main():
    ap = argparse.ArgumentParser()
    ap.add_argument("--tier", default="quick"); ap.add_argument("--seed", type=int, default=0)
    ap.add_argument("--search"); ap.add_argument("--replay")
    a = ap.parse_args()
    viol = []
    if a.replay:
        d = json.load(open(a.replay))["input"]
        if d.get("site", "").endswith("#triples"):
            r = check_kernel_triples(a.seed, (d["n"],)); print(json.dumps({"violations": [dict(d, what=r["what"])] if r else []})); return
        r = check_one(d["index"], d["n"], d["k"])
        print(json.dumps({"violations": [dict(d, what=r)] if r else []}))
        return
    nmax = 9 if a.tier == "quick" or a.search else 14
    evals = 0; distinct = 0
    cands = []
    if a.search:
        m = (json.load(open(a.search)).get("model") or {})
        try:
            cands.append((int(m.get("index", 0)), int(m.get("n", 0)), int(m.get("k", 0))))
        except Exception:
            pass
    for (i, n, k) in cands:
        if 0 <= k and 0 <= i < math.comb(n, k) if n >= 0 else False:
            r = check_one(i, n, k)
            if r:
                viol.append({"index": i, "n": n, "k": k, "what": r, "site": "get_combination_at_sorted_index"})
    for n in range(0, nmax + 1):
        for k in range(0, 5):
            N = math.comb(n, k)
            got = []
            for i in range(N):
                evals += 1
                r = check_one(i, n, k)
                if r and len(viol) < 5:
                    viol.append({"index": i, "n": n, "k": k, "what": r, "site": "get_combination_at_sorted_index"})
                if not r:
                    got.append(unrank(i, n, k))
            if N > 1:
                distinct += 1
            if not viol and N and (sorted(got) != got or len(set(got)) != N or
                                   set(got) != set(tuple(sorted(c, reverse=True)) for c in itertools.combinations(range(n), k))):
                viol.append({"index": 0, "n": n, "k": k, "what": "enumeration is not the sorted set of all combinations", "site": "get_combination_at_sorted_index"})
    rnd = random.Random(a.seed)
    big = 0
    if not a.search:
        for _ in range(300 if a.tier == "quick" else 5000):
            n = rnd.randrange(50, 4000); k = rnd.randrange(1, 5)
            N = math.comb(n, k); i = rnd.randrange(N - 1)
            evals += 2; big += 1
            for j in (i, i + 1):
                r = check_one(j, n, k)
                if r and len(viol) < 5:
                    viol.append({"index": j, "n": n, "k": k, "what": r, "site": "get_combination_at_sorted_index"})
            if not viol and not (unrank(i, n, k) < unrank(i + 1, n, k)):
                viol.append({"index": i, "n": n, "k": k, "what": "successor not ascending", "site": "get_combination_at_sorted_index"})
    # the triples of posterior samples the scoring kernel ACTUALLY uses (observed through a recording distance matrix): pairwise distinct, strictly
    # descending, within range - and all of them when the budget covers every triple (the number drawn under a smaller budget is not part of the property); n up to the production regime
    if not a.search:
        r = check_kernel_triples(a.seed, (3, 4, 7, 12, 300, 2400, 3000, 4000) if a.tier == "quick" else (3, 4, 5, 7, 9, 12, 40, 300, 1200, 2345, 2346, 2400, 2954, 2955, 3000, 4000, 6000))
        evals += 8
        if r and len(viol) < 5: viol.append(dict(r, site="dbal_fast_gauss_scoring_vectorized#triples"))
    print(json.dumps({"violations": viol, "bounded": [{
        "function": "get_combination_at_sorted_index", "bound": "exhaustive n<=%d, k<=4; %d sampled (n<4000,k<=4) index pairs; triples used by the scoring kernel observed for n_thetas up to %d" % (nmax, big, 4000 if a.tier == "quick" else 6000),
        "evaluations": evals, "distinct_nontrivial": distinct + big, "label": "bounded stand-in, not counted as proved"}]}))


main()
