"""Native harness for C20 (bounded stand-in + replay) against brute-force definitions."""
import argparse, json, os, random, tempfile, itertools
import numpy as np
from batchie.models.main import ModelEvaluation, correlation_matrix
from batchie.data import create_single_treatment_effect_map, create_single_treatment_effect_array
from batchie.synergy import calculate_synergy

SCR = os.environ.get("PYVC_TMP") or tempfile.gettempdir()
TOL = dict(rtol=1e-10, atol=1e-12)


def check_eval(rnd):
    n, m = rnd.randrange(1, 6), rnd.randrange(1, 7)
    P = np.array([[rnd.uniform(0, 1) for _ in range(m)] for _ in range(n)]); o = np.array([rnd.uniform(0, 1) for _ in range(n)])
    chains = np.array(rnd.choice([[0] * m, [t % 2 for t in range(m)], sorted(t % 3 for t in range(m)), [rnd.randrange(3) for _ in range(m)]]))
    me = ModelEvaluation(predictions=P, observations=o, chain_ids=chains, sample_names=np.array(["s%d" % e for e in range(n)]))
    se = [[(P[e, t] - o[e]) ** 2 for t in range(m)] for e in range(n)]
    if not np.isclose(me.mse(), sum(map(sum, se)) / (n * m), **TOL): return "mse"
    per = [sum(se[e]) / m for e in range(n)]; mu = sum(per) / n
    if not np.isclose(me.mse_variance(), sum((x - mu) ** 2 for x in per) / n, **TOL): return "mse_variance"
    cm = []
    for c in sorted(set(chains.tolist())):
        cols = [t for t in range(m) if chains[t] == c]; cm.append(sum(se[e][t] for e in range(n) for t in cols) / (n * len(cols)))
    mu = sum(cm) / len(cm)
    if not np.isclose(me.inter_chain_mse_variance(), sum((x - mu) ** 2 for x in cm) / len(cm), **TOL): return "inter_chain_mse_variance (chain ids %r)" % chains.tolist()
    if not np.allclose(me.mean_predictions, [sum(P[e]) / m for e in range(n)], **TOL): return "mean_predictions"
    fn = os.path.join(SCR, "c20_%d.h5" % os.getpid()); me.save_h5(fn); me2 = ModelEvaluation.load_h5(fn); os.unlink(fn)
    if not (np.array_equal(me2.predictions, P) and np.array_equal(me2.observations, o) and np.array_equal(me2.chain_ids, chains) and me2.sample_names.tolist() == me.sample_names.tolist()): return "reload changed the evaluation"
    return None


def check_effects(rnd):
    ar = rnd.choice([2, 2, 3]); n = rnd.randrange(1, 10)
    tid = np.array([[rnd.choice([-1, -1, 0, 1, 2]) for _ in range(ar)] for _ in range(n)]); sid = np.array([rnd.randrange(2) for _ in range(n)]); obs = np.array([rnd.uniform(0.1, 1) for _ in range(n)])
    mp = create_single_treatment_effect_map(sid, tid, obs)
    want = {}
    for s in set(sid.tolist()):
        if (tid == -1).any(): want[(s, -1)] = 1.0
        for t in set(tid.ravel().tolist()) - {-1}:
            rows = [r for r in range(n) if sid[r] == s and sorted(tid[r].tolist()) == [-1] * (ar - 1) + [t]]
            if rows: want[(s, t)] = float(np.mean(obs[rows]))
    got = {(int(k[0]), int(k[1])): float(v) for k, v in mp.items()}
    if set(got) != set(want) or any(not np.isclose(got[k], want[k], **TOL) for k in want): return "single-agent effect map (arity %d)" % ar
    if all((int(sid[r]), int(t)) in want for r in range(n) for t in tid[r]):
        arr = create_single_treatment_effect_array(sid, tid, obs)
        if not np.allclose(arr, [[want[(int(sid[r]), int(t))] for t in tid[r]] for r in range(n)], **TOL): return "single-agent effect array"
    if ar == 2 and not np.all((tid == -1).all(axis=1)):  # synergy: arity 2 only (the property restricts it to the rectangular case)
        keep = ~(tid == -1).all(axis=1)
        s2, t2, o2 = sid[keep], tid[keep], obs[keep]
        mp2 = {(int(k[0]), int(k[1])): float(v) for k, v in create_single_treatment_effect_map(s2, t2, o2).items()}
        exp = []
        for r in range(len(s2)):
            nz = [int(t) for t in t2[r] if t != -1]
            if len(nz) == 1: continue
            if all((int(s2[r]), t) in mp2 for t in nz): exp.append(float(np.prod([mp2[(int(s2[r]), t)] for t in nz]) - o2[r]))
        _, _, syn = calculate_synergy(s2, t2, o2)
        if not np.allclose(syn, exp, **TOL): return "Bliss synergy"
        missing = any((int(s2[r]), int(t)) not in mp2 for r in range(len(s2)) if (t2[r] != -1).sum() > 1 for t in t2[r] if t != -1)
        try:
            calculate_synergy(s2, t2, o2, strict=True)
            if missing: return "strict synergy did not refuse a missing single-agent measurement"
        except ValueError:
            if not missing: return "strict synergy refused although every single-agent measurement exists"
    return None


def check_similarity(rnd):
    """between-sample similarity matrix: a table-driven posterior sample (prediction = table[sample id][unordered treatment ids]) on screens whose
    sample / treatment mappings are supplied in a non-positional (but dense, valid) order and list conditions absent from the data"""
    from batchie.core import Theta, ThetaHolder
    from batchie.data import Screen
    from batchie.models.main import generate_full_combinatoric_space
    ar = rnd.choice([2, 2, 3]); ns = rnd.randrange(2, 5); nt = rnd.randrange(ar + 1, 6)
    s_names = ["s%d" % i for i in range(ns)]; s_ids = list(range(ns)); rnd.shuffle(s_ids)
    t_names = ["d%d" % (i // 2) for i in range(nt)]; t_doses = [float(1 + i % 2) for i in range(nt)]; t_ids = list(range(nt)); rnd.shuffle(t_ids)
    if rnd.random() < 0.3: s_ids = list(range(ns)); t_ids = list(range(nt))
    n = rnd.randrange(2, 8)
    rows_s = [rnd.randrange(ns) for _ in range(n)]; rows_s[0], rows_s[1] = 0, 1
    rows_t = [[rnd.randrange(nt) for _ in range(ar)] for _ in range(n)]
    scr = Screen(sample_names=np.array([s_names[i] for i in rows_s]), plate_names=np.array(["p"] * n),
                 treatment_names=np.array([[t_names[j] for j in r] for r in rows_t]), treatment_doses=np.array([[t_doses[j] for j in r] for r in rows_t]),
                 sample_mapping=(np.array(s_names), np.array(s_ids)), treatment_mapping=(np.array(t_names), np.array(t_doses), np.array(t_ids)))

    class Tab(Theta):
        def __init__(self, seed): self.r = random.Random(seed); self.t = {}
        def predict_viability(self, data):
            return np.array([self.t.setdefault((int(c), tuple(sorted(int(x) for x in tr))), self.r.random()) for c, tr in zip(data.sample_ids, data.treatment_ids)])
        predict_conditional_mean = predict_viability
        def predict_conditional_variance(self, data): return np.ones(data.size)
        def private_parameters_dict(self): return {}
        def shared_parameters_dict(self): return {}
        @classmethod
        def from_dicts(cls, a, b): return cls(0)
    h = ThetaHolder(2); ths = [Tab(rnd.random()), Tab(rnd.random())]
    for t in ths: h.add_theta(t)
    want_rows = sorted(tuple(sorted(c)) for c in itertools.combinations(t_ids, ar))
    for sid in sorted(set(int(x) for x in scr.sample_ids)):
        sp = generate_full_combinatoric_space(sid, scr)
        if not np.all(sp.sample_ids == sid): return "full combinatoric space of sample id %d carries sample ids %r" % (sid, sorted(set(sp.sample_ids.tolist())))
        if sorted(tuple(sorted(int(x) for x in r)) for r in sp.treatment_ids) != want_rows: return "full combinatoric space is not every unordered combination of the screen's treatment ids"
        nm = {i: m for m, i in zip(s_names, s_ids)}[sid]
        if not np.all(sp.sample_names == nm): return "full combinatoric space of sample id %d is labelled %r, the screen calls that sample %r" % (sid, sorted(set(sp.sample_names.tolist())), nm)
    df = correlation_matrix(scr, h)
    uid = [int(x) for x in scr.unique_sample_ids]
    P = np.array([[np.mean([t.t[(sid, c)] for t in ths]) for c in want_rows] for sid in uid])
    if len({tuple(r) for r in P.tolist()}) < len(uid): return None
    X = P - P.mean(axis=0, keepdims=True); X = X / np.sqrt((X ** 2).sum(axis=1, keepdims=True)); ref = X @ X.T
    got = df.values
    if got.shape != ref.shape or not np.allclose(got, got.T, **TOL) or not np.allclose(np.diag(got), 1.0, rtol=1e-9): return "similarity matrix is not symmetric with unit diagonal"
    order = {tuple(sorted(c)): k for k, c in enumerate(want_rows)}
    # (the property does not fix the similarity formula beyond "symmetric, unit diagonal, from the average predictions over the full space":
    #  equality with one particular correlation formula is deliberately NOT demanded; `ref` is kept for the replay message only)
    id2name = {i: m for m, i in zip(s_names, s_ids)}
    if list(df.index) != [id2name[i] for i in uid] or list(df.columns) != list(df.index): return "similarity matrix rows are not labelled with the samples' names"
    return None


def main():
    ap = argparse.ArgumentParser()
    ap.add_argument("--tier", default="quick"); ap.add_argument("--seed", type=int, default=0)
    ap.add_argument("--search"); ap.add_argument("--replay")
    a = ap.parse_args()
    N = 300 if (a.tier == "quick" or a.search or a.replay) else 5000
    viol = []
    for k in range(N):
        rnd = random.Random(a.seed * 1000003 + k)
        for nm, f in (("ModelEvaluation", check_eval), ("effects/synergy", check_effects), ("similarity matrix", check_similarity)):
            try: r = f(rnd)
            except Exception as e: r = "raised %r" % (e,)
            if r and not any(v["site"] == nm for v in viol): viol.append({"seed": a.seed * 1000003 + k, "what": r + " differs from its definition", "site": nm})
    print(json.dumps({"violations": viol, "bounded": [{"function": "ModelEvaluation metrics + reload, single-agent effect map/array (arity 2,3), Bliss synergy (strict and lenient)",
        "bound": "%d random cases: <=5 experiments x <=6 samples, chain labellings incl. non-contiguous; <=9 rows of ids in {-1,0,1,2}" % N, "evaluations": 3 * N, "distinct_nontrivial": 3 * N,
        "label": "bounded stand-in, not counted as proved; decides inter-chain variance, effects, synergy, similarity matrix (table-driven samples, permuted supplied mappings, arity 2-3)"}]}))


main()
