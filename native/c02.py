"""Native harness for C02 (bounded stand-in + conformance of the h5py / np.char assumptions)."""
import argparse, json, os, random, tempfile
import numpy as np
from batchie.data import Screen, ExperimentSpace
from batchie.retrospective import create_random_holdout

SCR = os.environ.get("PYVC_TMP") or tempfile.gettempdir()
NAMES = ["a", "", "ü", "漢字", "long-name-with-many-characters", "b c", "control", "é́", "a ", " a", "a\t", " ", "control "]


def make(rnd):
    n = rnd.randrange(1, 9)
    plates = np.array([rnd.choice(["p", "", "plate-ü", "q", "p ", " q", "\t"]) for _ in range(n)])
    obs_by = {p: rnd.random() < 0.5 for p in set(plates)}
    obs = np.array([rnd.choice([0.0, -0.0, 5e-324, 1.0 / 3, float("nan"), float("inf"), rnd.random()]) for _ in range(n)])
    ar = rnd.choice([1, 2, 3])
    return Screen(observations=obs, observation_mask=np.array([obs_by[p] for p in plates]), sample_names=np.array([rnd.choice(NAMES) for _ in range(n)]),
                  plate_names=plates, treatment_names=np.array([[rnd.choice(NAMES) for _ in range(ar)] for _ in range(n)]).reshape(n, ar),
                  treatment_doses=np.array([[rnd.choice([0.0, 1e-9, 1.0, 2.5]) for _ in range(ar)] for _ in range(n)]).reshape(n, ar),
                  control_treatment_name=rnd.choice(["control", ""]))


def same(a, b):
    if a.dtype.kind == "f": return a.shape == b.shape and a.tobytes() == b.astype(a.dtype).tobytes()
    return a.shape == b.shape and a.tolist() == b.tolist()


def compare(s, t):
    for f in ("treatment_names", "treatment_doses", "sample_names", "plate_names", "observations", "observation_mask", "treatment_ids", "sample_ids", "plate_ids"):
        if not same(getattr(s, f), getattr(t, f)): return "field %s differs after save/load" % f
    for k in range(3):
        if not same(s.treatment_mapping[k], t.treatment_mapping[k]): return "treatment mapping[%d] differs" % k
    for k in range(2):
        if not same(s.sample_mapping[k], t.sample_mapping[k]): return "sample mapping[%d] differs" % k
    if s.control_treatment_name != t.control_treatment_name: return "control name differs"
    return None


def one(seed):
    rnd = random.Random(seed); s = make(rnd)
    if seed % 2 and s.size >= 2:
        class R:
            def choice(self, a, k, replace=False): return np.arange(k)
        s, _ = create_random_holdout(s, 0.5, R())  # training half: mappings are a strict superset of its rows
        if s.size == 0: return None
    fn = os.path.join(SCR, "c02_%d.h5" % os.getpid())
    cur = s
    for cycle in range(3):
        cur.save_h5(fn); nxt = Screen.load_h5(fn); os.unlink(fn)
        r = compare(s, nxt)
        if r: return "cycle %d: %s" % (cycle + 1, r)
        cur = nxt
    e = ExperimentSpace.from_screen(s); e.save_h5(fn); e2 = ExperimentSpace.load_h5(fn); os.unlink(fn)
    if not all(same(x, y) for x, y in zip(e.treatment_mapping, e2.treatment_mapping)) or not all(same(x, y) for x, y in zip(e.sample_mapping, e2.sample_mapping)) \
            or e.control_treatment_name != e2.control_treatment_name: return "experiment space differs after save/load"
    return None


def main():
    ap = argparse.ArgumentParser()
    ap.add_argument("--tier", default="quick"); ap.add_argument("--seed", type=int, default=0)
    ap.add_argument("--search"); ap.add_argument("--replay")
    a = ap.parse_args()
    if a.replay:
        d = json.load(open(a.replay))["input"]; r = one(d["seed"]) if d.get("seed", 0) >= 0 else "zero-row screen (see the unconditional case of the harness)"
        print(json.dumps({"violations": [dict(d, what=r)] if r else []})); return
    N = 150 if (a.tier == "quick" or a.search) else 3000
    viol = []
    for k in range(N):
        seed = a.seed * 1000003 + k
        try: r = one(seed)
        except Exception as e: r = "raised %r" % (e,)
        if r and len(viol) < 5: viol.append({"seed": seed, "what": r, "site": "Screen/ExperimentSpace save_h5+load_h5"})
    # the screen with no experiment at all (constructible, hence inside the property's quantifier)
    try:
        z = Screen(observations=np.zeros(0), observation_mask=np.zeros(0, bool), sample_names=np.array([], dtype=str), plate_names=np.array([], dtype=str),
                   treatment_names=np.zeros((0, 2), dtype=str), treatment_doses=np.zeros((0, 2)))
    except Exception:
        z = None  # not constructible any more: outside the quantifier
    if z is not None:
        fn = os.path.join(SCR, "c02z_%d.h5" % os.getpid())
        try:
            z.save_h5(fn); z2 = Screen.load_h5(fn); r = compare(z, z2)
        except Exception as e:
            r = "raised %r" % (e,)
        finally:
            if os.path.exists(fn): os.unlink(fn)
        if r: viol.append({"seed": -1, "what": "zero-row screen: " + r, "site": "Screen.save_h5+load_h5#zero-row screen"})
    print(json.dumps({"violations": viol, "bounded": [{"function": "Screen.save_h5/load_h5, ExperimentSpace.save_h5/load_h5 (and conformance of the h5py/np.char assumptions)",
        "bound": "%d random screens (<=8 rows, arity 1-3, non-ASCII/empty/unequal-length names, NaN/-0.0/denormal/inf payloads, superset mappings) x 3 cycles; the zero-row screen" % N,
        "evaluations": N, "distinct_nontrivial": N, "label": "bounded stand-in, not counted as proved"}]}))


main()
