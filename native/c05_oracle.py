"""
C05 demo: a plate's DBAL score depends on that plate alone and equals the
direct (unpadded, loop-by-loop) estimator.

Run as:  PYTHONPATH=<checkout>/src /venv/bin/python demo.py
Exit 0 when the property holds on every scenario, exit 1 (with a report) otherwise.
"""
import itertools
import math
import sys

import numpy as np

from batchie.core import Theta, ThetaHolder
from batchie.data import Screen
from batchie.distance_calculation import ChunkedDistanceMatrix
from batchie.scoring import gaussian_dbal

FAILURES = []
RTOL = 1e-9


# --------------------------------------------------------------------------
# Reference: direct evaluation of the documented estimator for ONE plate.
# --------------------------------------------------------------------------
def reference_score(mean, var, dist):
    """
    mean, var: (n_thetas, n_experiments) for a single plate (no padding).
    dist: (n_thetas, n_thetas) symmetric, non-negative.

    log sum_{i<j<k} (d_ij + d_jk + d_ik) * prod_e T_e(i, j, k)
    with T_e = alpha^-1/2 * exp(-1/2 * v_i v_j v_k / alpha^2 *
               (v_k (m_i-m_j)^2 + v_j (m_i-m_k)^2 + v_i (m_j-m_k)^2)),
         alpha = v_i v_j + v_j v_k + v_i v_k
    """
    n_thetas, n_exp = mean.shape
    log_terms = []
    for i, j, k in itertools.combinations(range(n_thetas), 3):
        d = float(dist[i, j]) + float(dist[j, k]) + float(dist[i, k])
        if d <= 0.0:
            continue
        lt = math.log(d)
        for e in range(n_exp):
            vi, vj, vk = float(var[i, e]), float(var[j, e]), float(var[k, e])
            mi, mj, mk = float(mean[i, e]), float(mean[j, e]), float(mean[k, e])
            alpha = vi * vj + vj * vk + vi * vk
            quad = vk * (mi - mj) ** 2 + vj * (mi - mk) ** 2 + vi * (mj - mk) ** 2
            lt += -0.5 * math.log(alpha) - 0.5 * (vi * vj * vk) / (alpha * alpha) * quad
        log_terms.append(lt)
    if not log_terms:
        return -math.inf
    top = max(log_terms)
    return top + math.log(sum(math.exp(t - top) for t in log_terms))


def close(got, want):
    got = float(got)
    if math.isinf(want) or math.isnan(want):
        return got == want
    if not math.isfinite(got):
        return False
    return abs(got - want) <= RTOL * max(1.0, abs(want))


def check(label, got, want):
    if not close(got, want):
        FAILURES.append(
            "{}: got {!r}, direct estimator gives {!r}".format(label, float(got), want)
        )


def rng_for(*key):
    return np.random.default_rng([20240905, *key])


def random_distance(rng, n, zero_some=False):
    d = rng.random((n, n)) * 3.0
    d = (d + d.T) / 2.0
    np.fill_diagonal(d, 0.0)
    if zero_some and n >= 4:
        d[0, 1] = d[1, 0] = 0.0
        d[0, 2] = d[2, 0] = 0.0
        d[1, 2] = d[2, 1] = 0.0  # the triple (0,1,2) has zero total distance
    return d


def random_plate(rng, n_thetas, size, log10_var_lo=-3.0, log10_var_hi=3.0, mean_scale=1.0):
    mean = rng.normal(0.0, mean_scale, size=(n_thetas, size))
    var = 10.0 ** rng.uniform(log10_var_lo, log10_var_hi, size=(n_thetas, size))
    return mean, var


def score_hetero(means, variances, dist):
    return gaussian_dbal.dbal_fast_gaussian_scoring_heteroscedastic(
        per_plate_predictions=[m.copy() for m in means],
        variances=[v.copy() for v in variances],
        distance_matrix=dist.copy(),
        rng=np.random.default_rng(7),
        max_combos=5000,
    )


def score_homo(means, variances_2d, dist):
    return gaussian_dbal.dbal_fast_gaussian_scoring_homoscedastic(
        per_plate_predictions=[m.copy() for m in means],
        variances=variances_2d.copy(),
        distance_matrix=dist.copy(),
        rng=np.random.default_rng(11),
        max_combos=5000,
    )


# --------------------------------------------------------------------------
# Scenario 1: kernel entry points == reference on ragged plate sets
# --------------------------------------------------------------------------
def scenario_entry_points_match_reference():
    size_sets = [
        [5],  # a single plate
        [1],  # a single size-1 plate
        [1, 7, 3],
        [4, 4, 4],
        [12, 1, 1, 30, 2],
    ]
    for n_thetas in (3, 4, 6):
        for s_idx, sizes in enumerate(size_sets):
            rng = rng_for(1, n_thetas, s_idx)
            dist = random_distance(rng, n_thetas, zero_some=(s_idx % 2 == 0))
            plates = [random_plate(rng, n_thetas, s) for s in sizes]
            means = [p[0] for p in plates]
            varis = [p[1] for p in plates]

            got = score_hetero(means, varis, dist)
            for p, (m, v) in enumerate(plates):
                check(
                    "heteroscedastic n_thetas={} sizes={} plate#{}".format(n_thetas, sizes, p),
                    got[p],
                    reference_score(m, v, dist),
                )

            homo_var = 10.0 ** rng.uniform(-3, 3, size=(len(sizes), n_thetas))
            got = score_homo(means, homo_var, dist)
            for p, m in enumerate(means):
                v = np.repeat(homo_var[p][:, None], m.shape[1], axis=1)
                check(
                    "homoscedastic n_thetas={} sizes={} plate#{}".format(n_thetas, sizes, p),
                    got[p],
                    reference_score(m, v, dist),
                )


# --------------------------------------------------------------------------
# Scenario 2: invariances (company, order of plates, order of experiments,
#             relabelling of posterior samples)
# --------------------------------------------------------------------------
def scenario_invariances():
    n_thetas = 5
    rng = rng_for(2)
    dist = random_distance(rng, n_thetas)
    sizes = [3, 1, 9, 6]
    plates = [random_plate(rng, n_thetas, s) for s in sizes]
    means = [p[0] for p in plates]
    varis = [p[1] for p in plates]

    together = score_hetero(means, varis, dist)
    for p in range(len(sizes)):
        alone = score_hetero([means[p]], [varis[p]], dist)[0]
        if not close(alone, float(together[p])):
            FAILURES.append(
                "company: plate#{} scores {!r} alone but {!r} next to other plates".format(
                    p, float(alone), float(together[p])
                )
            )

    order = [2, 0, 3, 1]
    permuted = score_hetero([means[i] for i in order], [varis[i] for i in order], dist)
    for pos, p in enumerate(order):
        if not close(permuted[pos], float(together[p])):
            FAILURES.append(
                "plate order: plate#{} scores {!r} vs {!r} after reordering plates".format(
                    p, float(permuted[pos]), float(together[p])
                )
            )

    exp_perms = [rng.permutation(s) for s in sizes]
    shuffled = score_hetero(
        [m[:, q] for m, q in zip(means, exp_perms)],
        [v[:, q] for v, q in zip(varis, exp_perms)],
        dist,
    )
    for p in range(len(sizes)):
        if not close(shuffled[p], float(together[p])):
            FAILURES.append(
                "experiment order: plate#{} scores {!r} vs {!r} after shuffling wells".format(
                    p, float(shuffled[p]), float(together[p])
                )
            )

    relabel = np.array([3, 0, 4, 2, 1])
    relabelled = score_hetero(
        [m[relabel] for m in means],
        [v[relabel] for v in varis],
        dist[np.ix_(relabel, relabel)],
    )
    for p in range(len(sizes)):
        if not close(relabelled[p], float(together[p])):
            FAILURES.append(
                "sample relabelling: plate#{} scores {!r} vs {!r}".format(
                    p, float(relabelled[p]), float(together[p])
                )
            )


# --------------------------------------------------------------------------
# Scenario 3: plates of very different size / variance scale scored together
# --------------------------------------------------------------------------
def scenario_wide_dynamic_range():
    n_thetas = 4
    rng = rng_for(3)
    dist = random_distance(rng, n_thetas)
    specs = [
        # (size, log10 var lo, log10 var hi)
        (1, -0.5, 0.5),
        (150, 2.5, 3.0),  # big plate, very noisy predictions
        (150, -3.0, -2.5),  # big plate, very sharp predictions
        (40, -3.0, 3.0),
    ]
    plates = [random_plate(rng, n_thetas, s, lo, hi, mean_scale=0.01) for s, lo, hi in specs]
    means = [p[0] for p in plates]
    varis = [p[1] for p in plates]
    got = score_hetero(means, varis, dist)
    for p, (m, v) in enumerate(plates):
        want = reference_score(m, v, dist)
        if not math.isfinite(float(got[p])):
            FAILURES.append(
                "dynamic range: plate#{} (size {}) got non-finite score {!r} although "
                "every triple has positive distance (direct estimator: {!r})".format(
                    p, specs[p][0], float(got[p]), want
                )
            )
        else:
            check("dynamic range hetero plate#{} size={}".format(p, specs[p][0]), got[p], want)

    homo_var = np.array(
        [
            [1.0, 2.0, 0.5, 1.5],
            [900.0, 1000.0, 800.0, 950.0],
            [1e-3, 2e-3, 1.5e-3, 1e-3],
            [1e-3, 1.0, 1e3, 10.0],
        ]
    )
    got = score_homo(means, homo_var, dist)
    for p, m in enumerate(means):
        v = np.repeat(homo_var[p][:, None], m.shape[1], axis=1)
        want = reference_score(m, v, dist)
        if not math.isfinite(float(got[p])):
            FAILURES.append(
                "dynamic range (homoscedastic): plate#{} (size {}) got non-finite score {!r}, "
                "direct estimator: {!r}".format(p, specs[p][0], float(got[p]), want)
            )
        else:
            check("dynamic range homo plate#{} size={}".format(p, specs[p][0]), got[p], want)


# --------------------------------------------------------------------------
# Scenario 4: the GaussianDBALScorer entry point on a real Screen
# --------------------------------------------------------------------------
class TableTheta(Theta):
    """Posterior sample whose predictions are looked up per experiment.

    Experiments are identified by the (integer valued) dose in column 0.
    """

    def __init__(self, mean_by_exp, var_by_exp):
        self.mean_by_exp = mean_by_exp
        self.var_by_exp = var_by_exp

    def _ids(self, data):
        return np.rint(data.treatment_doses[:, 0]).astype(int) - 1

    def predict_viability(self, data):
        return self.mean_by_exp[self._ids(data)]

    def predict_conditional_mean(self, data):
        return self.mean_by_exp[self._ids(data)]

    def predict_conditional_variance(self, data):
        return self.var_by_exp[self._ids(data)]

    def private_parameters_dict(self):
        return {"mean_by_exp": self.mean_by_exp, "var_by_exp": self.var_by_exp}

    def shared_parameters_dict(self):
        return {}

    @classmethod
    def from_dicts(cls, private_params, shared_params):
        return cls(**private_params)


def build_screen(plate_of_row):
    n = len(plate_of_row)
    return Screen(
        treatment_names=np.array([["drugA", "drugB"]] * n, dtype=str),
        treatment_doses=np.stack(
            [np.arange(1, n + 1, dtype=float), np.full(n, 2.0)], axis=1
        ),
        sample_names=np.array(["s{}".format(i % 3) for i in range(n)], dtype=str),
        plate_names=np.array(plate_of_row, dtype=str),
    )


def run_scorer_layout(label, plate_of_row, n_thetas, seed_key):
    rng = rng_for(4, seed_key)
    n = len(plate_of_row)
    screen = build_screen(plate_of_row)
    mean_tab = rng.normal(0.0, 1.0, size=(n_thetas, n))
    var_tab = 10.0 ** rng.uniform(-3, 3, size=(n_thetas, n))

    holder = ThetaHolder(n_thetas=n_thetas)
    for t in range(n_thetas):
        holder.add_theta(TableTheta(mean_tab[t], var_tab[t]))

    dist = random_distance(rng, n_thetas)
    dm = ChunkedDistanceMatrix(n_thetas, chunk_size=3)
    for i in range(n_thetas):
        for j in range(i):
            dm.add_value(i, j, dist[i, j])

    plates = {int(p.plate_id): p for p in screen.plates}
    expected = {}
    for pid, plate in plates.items():
        rows = np.where(plate.selection_vector)[0]
        expected[pid] = reference_score(mean_tab[:, rows], var_tab[:, rows], dist)

    ids = sorted(plates.keys())
    orders = [ids, ids[::-1], ids[1:] + ids[:1]]
    for max_chunk in (1, 2, 3, 50):
        for o_idx, order in enumerate(orders):
            scorer = gaussian_dbal.GaussianDBALScorer(max_chunk=max_chunk, max_triples=5000)
            got = scorer.score(
                plates={pid: plates[pid] for pid in order},
                distance_matrix=dm,
                samples=holder,
                rng=np.random.default_rng(3),
                progress_bar=False,
            )
            if set(int(k) for k in got.keys()) != set(ids):
                FAILURES.append("{}: scorer returned keys {}".format(label, sorted(got.keys())))
                continue
            for pid in ids:
                check(
                    "scorer[{}] max_chunk={} order#{} plate_id={} (size {})".format(
                        label, max_chunk, o_idx, pid, plates[pid].size
                    ),
                    got[pid],
                    expected[pid],
                )


def scenario_scorer():
    # plates stored contiguously, unequal sizes, including a size-1 plate
    contiguous = ["p0"] * 4 + ["p1"] * 1 + ["p2"] * 6 + ["p3"] * 2 + ["p4"] * 3
    run_scorer_layout("contiguous", contiguous, n_thetas=4, seed_key=0)

    # the same kind of plates, but their wells are interleaved in the screen
    interleaved = [
        "p0", "p2", "p1", "p0", "p3", "p2", "p2", "p0",
        "p4", "p3", "p2", "p4", "p0", "p2", "p4", "p2",
    ]
    run_scorer_layout("interleaved", interleaved, n_thetas=5, seed_key=1)

    # a single plate
    run_scorer_layout("single", ["only"] * 5, n_thetas=3, seed_key=2)


def main():
    scenario_entry_points_match_reference()
    scenario_invariances()
    scenario_wide_dynamic_range()
    scenario_scorer()

    if FAILURES:
        print("C05 VIOLATED: {} discrepancies".format(len(FAILURES)))
        for line in FAILURES[:25]:
            print("  - " + line)
        if len(FAILURES) > 25:
            print("  ... and {} more".format(len(FAILURES) - 25))
        return 1
    print("C05 holds on all scenarios")
    return 0


if __name__ == "__main__" and not __import__("os").environ.get("C05_AS_MODULE"):
    sys.exit(main())
