"""Native harness for C01 (bounded stand-in + replay) — also the CONFORMANCE check of the assumed encoder contracts of contracts/screen.py:
both pandas encoders and the whole Screen constructor on exhaustive small alphabets and random inputs (unicode, empty string, control name in
any column, zero / negative / subnormal / tiny positive doses, arity 1..3, with and without a supplied superset mapping), the validator
numpy_array_is_0_indexed_integers against its definition, and the ExperimentSpace sizes."""
import argparse, itertools, json, random
import numpy as np
from batchie.data import (Screen, ExperimentSpace, encode_treatment_arrays_to_0_indexed_ids as enc_t, encode_1d_array_to_0_indexed_ids as enc_1,
                          numpy_array_is_0_indexed_integers as is_dense)

NAMES = ["", "a", "b", "ctl", "A", "é", "名", "a ", "0", " a", "a\t", "ctl ", " "]
DOSES = [0.0, -0.0, -1.0, 5e-324, 1e-12, 1e-9, 2.2250738585072014e-308, 0.1, 1.0, 2.0, 1e6]


def check_pairs(names, doses, ctl, ids, mn, md, mi, supplied):
    n = len(names)
    if len(ids) != n: return "id vector has %d entries for %d experiments" % (len(ids), n)
    keys = list(zip(mn.tolist(), md.tolist()))
    if len(set(keys)) != len(keys): return "mapping lists a (name, dose) pair twice"
    look = {k: int(v) for k, v in zip(keys, mi.tolist())}
    for r in range(n):
        k = (names[r], float(doses[r]))
        if k not in look: return "pair %r missing from the mapping" % (k,)
        if int(ids[r]) != look[k]: return "id %d of row %d does not decode to %r (mapping says %d)" % (int(ids[r]), r, k, look[k])
    if supplied:
        return None
    for (nm, d), v in look.items():
        if (v == -1) != (nm == ctl or d <= 0): return "pair %r has id %d but control-ness is %s" % ((nm, d), v, nm == ctl or d <= 0)
    nonctl = sorted(v for v in look.values() if v != -1)
    if nonctl != list(range(len(nonctl))): return "non-control ids %s are not the dense range" % nonctl
    if set(look) != {(names[r], float(doses[r])) for r in range(n)}: return "mapping lists pairs that do not occur"
    if keys != sorted(keys): return "mapping is not sorted by (name, dose)"
    return None


def check_1d(arr, ids, mn, mi, supplied):
    look = dict(zip(mn.tolist(), [int(x) for x in mi.tolist()]))
    if len(look) != len(mn): return "mapping lists a name twice"
    for r, x in enumerate(arr):
        if x not in look or int(ids[r]) != look[x]: return "row %d (%r) has id %s, mapping says %s" % (r, x, ids[r], look.get(x))
    if supplied: return None
    if sorted(look.values()) != list(range(len(look))): return "ids %s are not the dense range" % sorted(look.values())
    if set(look) != set(arr): return "mapping lists names that do not occur"
    if list(look) != sorted(look) or [look[k] for k in sorted(look)] != list(range(len(look))): return "ids are not the ranks of the sorted names"
    return None


def one(seed):
    rnd = random.Random(seed)
    n = rnd.randrange(1, 9); ar = rnd.choice([1, 2, 2, 3]); ctl = rnd.choice(["ctl", "", "a"])
    pool_n = rnd.sample(NAMES, rnd.randrange(1, 5)) + ([ctl] if rnd.random() < 0.6 else [])
    pool_d = rnd.sample(DOSES, rnd.randrange(1, 5))
    tn = np.array([[rnd.choice(pool_n) for _ in range(ar)] for _ in range(n)], dtype=str)
    td = np.array([[rnd.choice(pool_d) for _ in range(ar)] for _ in range(n)], dtype=float)
    # names that differ only by surrounding blanks / case / width are DIFFERENT names
    sn = np.array([rnd.choice(["s", "", "t", "名", "s ", " s", "S", "s\t", "ｓ"]) for _ in range(n)], dtype=str)
    pn = np.array([rnd.choice(["p1", "p2", "", " p1", "p1 ", "P1", " "]) for _ in range(n)], dtype=str)
    # --- encoders alone
    flat_n, flat_d = tn.flatten(), td.flatten()
    ids, mn, md, mi = enc_t(flat_n, flat_d, control_treatment_name=ctl)
    r = check_pairs(flat_n.tolist(), flat_d.tolist(), ctl, ids, mn, md, mi, False)
    if r: return "treatment encoder: " + r, "encode_treatment_arrays_to_0_indexed_ids"
    i1, m1n, m1i = enc_1(sn)
    r = check_1d(sn.tolist(), i1, m1n, m1i, False)
    if r: return "name encoder: " + r, "encode_1d_array_to_0_indexed_ids"
    # --- the screen
    s = Screen(observations=np.arange(n, dtype=float), sample_names=sn, plate_names=pn, treatment_names=tn, treatment_doses=td, control_treatment_name=ctl)
    tmn, tmd, tmi = s.treatment_mapping
    for c in range(ar):
        r = check_pairs(tn[:, c].tolist(), td[:, c].tolist(), ctl, s.treatment_ids[:, c], tmn, tmd, tmi, True)
        if r: return "Screen column %d: %s" % (c, r), "Screen.__init__"
    r = check_pairs(flat_n.tolist(), flat_d.tolist(), ctl, s.treatment_ids.flatten(), tmn, tmd, tmi, False)
    if r: return "Screen treatment ids: " + r, "Screen.__init__"
    r = check_1d(sn.tolist(), s.sample_ids, *s.sample_mapping, False) or check_1d(pn.tolist(), s.plate_ids, *s.plate_mapping, False)
    if r: return "Screen sample/plate ids: " + r, "Screen.__init__"
    es = ExperimentSpace.from_screen(s)
    if s.treatment_ids.max(initial=-1) >= es.n_unique_treatments or s.sample_ids.max() >= es.n_unique_samples:
        return "experiment-space sizes (%d treatments, %d samples) do not strictly bound ids (max %d, %d)" % (es.n_unique_treatments, es.n_unique_samples, s.treatment_ids.max(initial=-1), s.sample_ids.max()), "ExperimentSpace.n_unique_treatments"
    if es.n_unique_treatments != len({v for v in tmi.tolist() if v != -1}) or es.n_unique_samples != len(set(sn.tolist())): return "experiment-space sizes are not the counts of distinct ids", "ExperimentSpace.n_unique_treatments"
    # --- supplied superset mapping produced by batchie itself: followed verbatim; rejected when it does not cover the data
    keep = [r_ for r_ in range(n) if rnd.random() < 0.6] or [0]
    sub = Screen(observations=np.arange(len(keep), dtype=float), sample_names=sn[keep], plate_names=pn[keep], treatment_names=tn[keep], treatment_doses=td[keep],
                 control_treatment_name=ctl, treatment_mapping=s.treatment_mapping, sample_mapping=s.sample_mapping)
    if not (np.array_equal(sub.treatment_ids, s.treatment_ids[keep]) and np.array_equal(sub.sample_ids, s.sample_ids[keep])): return "a supplied mapping is not followed verbatim", "Screen.__init__"
    if any(not np.array_equal(x, y) for x, y in zip(sub.treatment_mapping, s.treatment_mapping)): return "the supplied treatment mapping was altered", "Screen.__init__"
    if len(keep) < n:
        small = Screen(observations=np.arange(len(keep), dtype=float), sample_names=sn[keep], plate_names=pn[keep], treatment_names=tn[keep], treatment_doses=td[keep], control_treatment_name=ctl)
        missing = {(a, float(b)) for a, b in zip(flat_n, flat_d)} - {(a, float(b)) for a, b in zip(small.treatment_mapping[0], small.treatment_mapping[1])}
        missing_s = set(sn.tolist()) - set(small.sample_mapping[0].tolist())
        if missing or missing_s:
            try:
                Screen(observations=np.arange(n, dtype=float), sample_names=sn, plate_names=pn, treatment_names=tn, treatment_doses=td, control_treatment_name=ctl,
                       treatment_mapping=small.treatment_mapping, sample_mapping=small.sample_mapping)
                return "a mapping that does not cover the data was accepted", "Screen.__init__"
            except ValueError:
                pass
    # --- validator against its definition
    arr = np.array([rnd.randrange(-1, 5) for _ in range(rnd.randrange(1, 7))])
    vals = sorted(set(arr.tolist()))
    want = vals == ([-1] + list(range(len(vals) - 1)) if -1 in vals else list(range(len(vals))))
    if bool(is_dense(arr)) != want: return "validator says %s for %s" % (bool(is_dense(arr)), arr.tolist()), "numpy_array_is_0_indexed_integers"
    return None


def exhaustive():
    """every array of <= 3 (name, dose) cells over a 3 x 3 alphabet, 2 control names"""
    cnt = 0
    for ctl in ("ctl", ""):
        cells = [(a, d) for a in ("", "a", "ctl") for d in (0.0, 5e-324, 1.0)]
        for k in (1, 2, 3):
            for combo in itertools.product(cells, repeat=k):
                names, doses = [c[0] for c in combo], [c[1] for c in combo]
                ids, mn, md, mi = enc_t(np.array(names, dtype=str), np.array(doses), control_treatment_name=ctl)
                r = check_pairs(names, doses, ctl, ids, mn, md, mi, False)
                cnt += 1
                if r: return cnt, ("treatment encoder on %r: %s" % (combo, r), "encode_treatment_arrays_to_0_indexed_ids")
    return cnt, None


def safe_one(seed):
    try: return one(seed)
    except Exception as e: return ("raised %r" % (e,), "harness")


def main():
    ap = argparse.ArgumentParser()
    ap.add_argument("--tier", default="quick"); ap.add_argument("--seed", type=int, default=0)
    ap.add_argument("--search"); ap.add_argument("--replay")
    a = ap.parse_args()
    if a.replay:
        d = json.load(open(a.replay))["input"]
        r = exhaustive()[1] if d.get("seed") == "exhaustive" else one(d["seed"])
        print(json.dumps({"violations": [dict(d, what=r[0], site=r[1])] if r else []})); return
    N = 300 if (a.tier == "quick" or a.search) else 6000
    from concurrent.futures import ProcessPoolExecutor
    seeds = [a.seed * 1000003 + k for k in range(N)]
    with ProcessPoolExecutor(max_workers=12) as ex:
        res = list(ex.map(safe_one, seeds, chunksize=10))
    viol, sites = [], set()
    ne, r = exhaustive()
    if r: viol.append({"seed": "exhaustive", "what": r[0], "site": r[1]}); sites.add(r[1])
    for seed, r in zip(seeds, res):
        if r and r[1] not in sites:
            sites.add(r[1]); viol.append({"seed": seed, "what": r[0], "site": r[1]})
    print(json.dumps({"violations": viol, "bounded": [{"function": "encode_treatment_arrays_to_0_indexed_ids, encode_1d_array_to_0_indexed_ids, Screen.__init__, ExperimentSpace sizes, numpy_array_is_0_indexed_integers",
        "bound": "%d exhaustive treatment arrays (<=3 cells over 3 names x 3 doses x 2 control names) + %d random screens (<=8 rows, arity 1..3, unicode/empty names, zero/negative/subnormal/tiny doses, supplied superset mappings)" % (ne, N),
        "evaluations": ne + N * 6, "distinct_nontrivial": ne + N, "label": "bounded stand-in, not counted as proved; also the conformance test of the assumed encoder contracts used by C02, C03, C07, C11, C12, C13"}]}))


main()
