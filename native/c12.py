"""Native harness for C12 (bounded stand-in + replay): histories of mask / unmask / reveal / save / load on small screens,
set_observed, constructor rules, the reveal_plate and extract_screen_metadata command lines."""
import argparse, json, os, random, sys, tempfile
import numpy as np
from batchie.data import Screen
from batchie.retrospective import reveal_plates, mask_screen, unmask_screen

SCR = os.environ.get("PYVC_TMP") or tempfile.gettempdir()


def make(rnd, n, nplates):
    plates = np.array(["p%d" % rnd.randrange(nplates) for _ in range(n)])
    obs_by = {p: rnd.random() < 0.4 for p in set(plates)}
    return Screen(observations=np.array([rnd.uniform(0.1, 1) for _ in range(n)]), observation_mask=np.array([obs_by[p] for p in plates]),
                  sample_names=np.array(["s%d" % rnd.randrange(3) for _ in range(n)]), plate_names=plates,
                  treatment_names=np.array([[rnd.choice("abc"), rnd.choice("abc")] for _ in range(n)]),
                  treatment_doses=np.array([[rnd.choice([0., 1., 2.]), 1.0] for _ in range(n)]))


def n_unobserved(s):
    return sum(1 for p in s.plates if not p.is_observed)


def metadata_cli(s):
    import batchie.cli.extract_screen_metadata as m
    fn = os.path.join(SCR, "c12_%d.h5" % os.getpid()); out = fn + ".json"; s.save_h5(fn)
    old = sys.argv; sys.argv = ["x", "--screen", fn, "--output", out]
    try: m.main()
    finally: sys.argv = old
    r = json.load(open(out)); os.unlink(fn); os.unlink(out)
    return r


def atomic(s):
    return all(len(set(s.observation_mask[s.plate_ids == p])) == 1 for p in np.unique(s.plate_ids))


def history(seed, quick):
    rnd = random.Random(seed)
    s = make(rnd, rnd.randrange(1, 9), rnd.randrange(1, 5))
    base = s
    for step in range(rnd.randrange(1, 6)):
        op = rnd.choice(["reveal", "reveal", "reveal", "mask", "unmask", "saveload"])
        before_mask, before_un = s.observation_mask.copy(), n_unobserved(s)
        if op == "reveal":
            ids = [rnd.randrange(-1, s.n_plates + 1) for _ in range(rnd.randrange(0, 4))]
            sel = np.isin(s.plate_ids, ids)
            try:
                t = reveal_plates(s, ids)
            except ValueError:
                if sel.any() and not np.all(s.observations[sel] == 0) and not np.any(np.isnan(s.observations[sel])): return "reveal refused a valid request %r" % ids
                continue
            if not sel.any(): return "reveal of no rows was not refused (all-zero rule is vacuous there)"
            if not np.array_equal(t.observation_mask, before_mask | sel): return "reveal(%r): mask is not old | selected" % ids
            newly = len(set(s.plate_ids[sel & ~before_mask]))
            if n_unobserved(t) != before_un - newly: return "unobserved-plate count dropped by %d, %d plates newly revealed" % (before_un - n_unobserved(t), newly)
        elif op == "mask": t = mask_screen(s); 
        elif op == "unmask": t = unmask_screen(s)
        else:
            fn = os.path.join(SCR, "c12h_%d.h5" % os.getpid()); s.save_h5(fn); t = Screen.load_h5(fn); os.unlink(fn)
            if not np.array_equal(t.observation_mask, s.observation_mask): return "save/load changed the mask"
        if op == "mask" and t.observation_mask.any(): return "mask_screen left something observed"
        if op == "unmask" and not t.observation_mask.all(): return "unmask_screen left something hidden"
        for a in ("treatment_names", "treatment_doses", "sample_names", "plate_names", "observations", "plate_ids", "sample_ids", "treatment_ids"):
            if not np.array_equal(getattr(t, a), getattr(s, a)): return "%s changed %s" % (op, a)
        if not atomic(t): return "a plate is partly observed after %s" % op
        s = t
    if not quick or seed % 7 == 0:
        md = metadata_cli(s)
        if md["n_unobserved_plates"] != n_unobserved(s) or md["n_observed_plates"] != s.n_plates - n_unobserved(s): return "extract_screen_metadata counts wrong"
    return None


def constructor_rules(rnd):
    n = 4
    kw = dict(sample_names=np.array(["a"] * n), plate_names=np.array(["p", "p", "q", "q"]), treatment_names=np.array([["x", "y"]] * n), treatment_doses=np.ones((n, 2)))
    try:
        Screen(observations=np.ones(n), observation_mask=np.array([True, False, True, True]), **kw); return "mixed plate accepted"
    except ValueError: pass
    if not Screen(observations=np.ones(n), **kw).observation_mask.all(): return "observations without mask not all observed"
    if Screen(**kw).observation_mask.any(): return "no observations but something observed"
    for m in ([False, False, True, True], [False, True, False, True], [True, False, False, True], [False, True, True, True], [True, True, True, True], [False] * 4):
        s = Screen(observations=np.arange(4.0), observation_mask=np.zeros(n, bool), **kw)
        m = np.array(m); vals = np.array([7.0, 9.0, 11.0, 13.0][: int(m.sum())])
        want = np.arange(4.0); want[m] = vals
        s._observation_mask = np.zeros(n, bool)
        s.set_observed(m, vals)
        if s.observations.tolist() != want.tolist() or s.observation_mask.tolist() != m.tolist(): return "set_observed did not store exactly the given values at the selected rows %r" % (m.tolist(),)
    z = Screen(observations=np.array([0., 0., 1., np.nan]), observation_mask=np.zeros(n, bool), **kw)
    for ids in ([0], [1]):
        try: reveal_plates(z, ids); return "reveal of all-zero / NaN plate accepted"
        except ValueError: pass
    return None


def main():
    ap = argparse.ArgumentParser()
    ap.add_argument("--tier", default="quick"); ap.add_argument("--seed", type=int, default=0)
    ap.add_argument("--search"); ap.add_argument("--replay")
    a = ap.parse_args()
    viol = []
    if a.replay:
        d = json.load(open(a.replay))["input"]; r = history(d["seed"], False)
        print(json.dumps({"violations": [dict(d, what=r)] if r else []})); return
    quick = a.tier == "quick" or a.search
    N = 150 if quick else 3000
    for k in range(N):
        seed = a.seed * 1000003 + k
        try: r = history(seed, quick)
        except Exception as e: r = "raised %r" % (e,)
        if r and len(viol) < 5: viol.append({"seed": seed, "what": r, "site": "reveal/mask/unmask history"})
    r = constructor_rules(random.Random(a.seed))
    if r: viol.append({"seed": -1, "what": r, "site": "Screen constructor / set_observed / reveal refusals"})
    print(json.dumps({"violations": viol, "bounded": [{"function": "reveal_plates/mask_screen/unmask_screen/Screen.save_h5/load_h5/extract_screen_metadata",
        "bound": "%d random histories of <=5 operations on screens of <=8 rows / <=4 plates; reveal id sets incl. repeated, observed and unknown ids" % N,
        "evaluations": N + 1, "distinct_nontrivial": N, "label": "bounded stand-in, not counted as proved (plate-count clause and the two CLIs are decided ONLY here)"}]}))


main()
