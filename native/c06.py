"""Native harness for C06 (bounded stand-in + replay): score_chunk over all chunk indices, save/load/concat in several
orders, select_next_plate with and without policies, on small screens with a recording scorer."""
import argparse, json, os, random, tempfile, itertools
import numpy as np
from batchie.data import Screen, filter_dataset_to_unique_treatments
from batchie.core import Scorer, PlatePolicy, ThetaHolder
from batchie.scoring.main import score_chunk, select_next_plate, ChunkedScoresHolder

SCR = os.environ.get("PYVC_TMP") or tempfile.gettempdir()


def screen(rnd):
    nplates = rnd.randrange(1, 7); rows = []
    for p in range(nplates):
        for _ in range(rnd.randrange(1, 4)):
            rows.append(("p%02d" % p, "s%d" % rnd.randrange(2), rnd.choice(["a", "b", "c", "control"]), rnd.choice(["a", "b", "c", "control"])))
    obs = {("p%02d" % p): rnd.random() < 0.3 for p in range(nplates)}
    return Screen(observations=np.full(len(rows), 0.5), observation_mask=np.array([obs[r[0]] for r in rows]), sample_names=np.array([r[1] for r in rows]),
                  plate_names=np.array([r[0] for r in rows]), treatment_names=np.array([[r[2], r[3]] for r in rows]), treatment_doses=np.ones((len(rows), 2)), control_treatment_name="control")


class Rec(Scorer):
    def __init__(self, table): self.table, self.seen = table, {}
    def score(self, plates, distance_matrix, samples, rng, progress_bar):
        for k, v in plates.items(): self.seen.setdefault(int(k), []).append(v)
        return {k: self.table[int(k)] for k in plates}


class Only(PlatePolicy):
    def __init__(self, keep): self.keep = keep
    def filter_eligible_plates(self, batch_plates, unobserved_plates, rng): return [p for p in unobserved_plates if self.keep(p)]


def one(seed):
    rnd = random.Random(seed); s = screen(rnd)
    unobs = [int(p.plate_id) for p in s.plates if not p.is_observed]
    batch = [x for x in unobs if rnd.random() < 0.3] + ([int(s.plates[0].plate_id)] if rnd.random() < 0.2 else [])
    cand = sorted(x for x in unobs if x not in batch)
    table = {int(p.plate_id): rnd.choice([0.0, 1.0, 1.0, 2.5, float("-inf"), rnd.random()]) for p in s.plates}
    nchunks = rnd.randrange(1, len(cand) + 3)
    rec = Rec(table); files = []
    for c in range(nchunks):
        h = score_chunk(rec, ThetaHolder(1), s, None, rng=np.random.default_rng(0), n_chunks=nchunks, chunk_index=c, batch_plate_ids=(batch or None) if rnd.random() < 0.5 else list(batch))
        fn = os.path.join(SCR, "c06_%d_%d.h5" % (os.getpid(), c)); h.save_h5(fn); files.append(fn)
    if sorted(rec.seen) != cand or any(len(v) != 1 for v in rec.seen.values()): return "plates scored across chunks %r are not exactly the candidates %r, once each" % (sorted(rec.seen), cand)
    if batch:
        for pid, (view,) in rec.seen.items():
            rows = np.isin(s.plate_ids, [pid] + batch)
            want = set(zip(s.sample_ids[rows].tolist(), map(tuple, s.treatment_ids[rows].tolist())))
            got = list(zip(view.sample_ids.tolist(), map(tuple, view.treatment_ids.tolist())))
            if len(got) != len(set(got)) or set(got) != want: return "candidate %d was not scored on plate+batch reduced to one experiment per condition" % pid
    order = list(range(nchunks)); rnd.shuffle(order)
    hs = [ChunkedScoresHolder.load_h5(files[c]) for c in order]
    for f in files: os.unlink(f)
    tot = ChunkedScoresHolder.concat(hs) if hs else None
    if tot is not None:
        ids = [int(x) for x in np.asarray(tot.plate_ids).tolist()]
        if sorted(ids) != cand: return "the concatenated score table lists plates %r, expected every candidate %r exactly once" % (sorted(ids), cand)
        for pid in cand:
            try: sc = float(tot.get_score(pid))
            except Exception as e: return "get_score(%d) on the concatenated table raised %r" % (pid, e)
            if sc != table[pid]: return "get_score(%d) = %r but the plate was scored %r" % (pid, sc, table[pid])
    for pol in (None, Only(lambda p: True), Only(lambda p: int(p.plate_id) % 2 == 0), Only(lambda p: False)):
        allowed = [x for x in cand if pol is None or pol.keep(type("P", (), {"plate_id": x})())]
        try: got = select_next_plate(tot, s, pol, list(batch), np.random.default_rng(1))
        except Exception as e: return "select_next_plate raised %r" % (e,)
        if not allowed:
            if got is not None: return "a plate was returned although none is allowed"
            continue
        if got is None: return "nothing returned although plates %r are allowed" % allowed
        g = int(got.plate_id)
        if g not in allowed: return "returned plate %d is not an allowed unobserved non-batch plate" % g
        if any(table[x] < table[g] for x in allowed): return "returned plate %d (score %r) but an allowed plate has a strictly lower score" % (g, table[g])
    return None


def main():
    ap = argparse.ArgumentParser()
    ap.add_argument("--tier", default="quick"); ap.add_argument("--seed", type=int, default=0)
    ap.add_argument("--search"); ap.add_argument("--replay")
    a = ap.parse_args()
    if a.replay:
        d = json.load(open(a.replay))["input"]; r = one(d["seed"])
        print(json.dumps({"violations": [dict(d, what=r)] if r else []})); return
    N = 250 if (a.tier == "quick" or a.search) else 5000
    viol = []
    for k in range(N):
        seed = a.seed * 1000003 + k
        try: r = one(seed)
        except Exception as e: r = "raised %r" % (e,)
        if r and len(viol) < 1: viol.append({"seed": seed, "what": r, "site": "score_chunk/select_next_plate"})
    print(json.dumps({"violations": viol, "bounded": [{"function": "score_chunk, ChunkedScoresHolder.save_h5/load_h5/concat, select_next_plate",
        "bound": "%d random cases: <=6 plates of <=3 rows, random batches, n_chunks up to candidates+2, shuffled chunk files, scores with ties and -inf, 4 policies" % N,
        "evaluations": N, "distinct_nontrivial": N, "label": "bounded stand-in, not counted as proved; decides score_chunk and select_next_plate"}]}))


main()
