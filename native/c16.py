"""Native harness for C16: real KPerSamplePlatePolicy on real Screen plates; explores every policy-consistent
selection history (bounded) and checks the function-level postcondition and the batch invariants."""
import argparse, json, itertools, logging
logging.disable(logging.CRITICAL)
import numpy as np
from batchie.data import Screen
from batchie.policies.k_per_sample import KPerSamplePlatePolicy


def make_screen(plates_per_sample, wells=1, observed=()):
    names, samples, plates = [], [], []
    pid = 0
    for s, n in enumerate(plates_per_sample):
        for _ in range(n):
            for w in range(wells):
                samples.append("s%d" % s); plates.append("p%03d" % pid)
            pid += 1
    n = len(samples)
    mask = np.array([p in observed for p in plates])
    return Screen(observations=np.full(n, 0.5), observation_mask=mask, sample_names=np.array(samples),
                  plate_names=np.array(plates), treatment_names=np.array([["a", "b"]] * n),
                  treatment_doses=np.array([[1.0, 1.0]] * n))


def check_call(pol, k, batch, unobs):
    res = pol.filter_eligible_plates(batch, unobs, np.random.default_rng(0))
    b = {}; u = {}
    for p in batch: b[p.sample_ids[0]] = b.get(p.sample_ids[0], 0) + 1
    for p in unobs: u[p.sample_ids[0]] = u.get(p.sample_ids[0], 0) + 1
    ids = sorted(p.plate_id for p in res)
    if not set(ids) <= set(p.plate_id for p in unobs): return res, "result not a subset of the unobserved plates"
    inc = [s for s, v in b.items() if 0 < v < k]
    if inc:
        ok = any(ids == sorted(p.plate_id for p in unobs if p.sample_ids[0] == s) for s in inc)
        if not ok: return res, "incomplete sample %r but result is not exactly its unobserved plates" % (inc,)
    else:
        want = sorted(p.plate_id for p in unobs if b.get(p.sample_ids[0], 0) == 0 and u[p.sample_ids[0]] >= k)
        if ids != want: return res, "no incomplete sample: result %r != %r" % (ids, want)
    return res, None


def explore(cfg, k, wells, viol, stats):
    scr = make_screen(cfg, wells)
    pol = KPerSamplePlatePolicy(k)
    plates = {p.plate_id: p for p in scr.plates}
    seen = set()
    stack = [()]
    while stack:
        st = stack.pop()
        key = frozenset(st)
        if key in seen: continue
        seen.add(key)
        batch = [plates[i] for i in sorted(st)]
        unobs = [p for i, p in sorted(plates.items()) if i not in st]
        res, err = check_call(pol, k, batch, unobs)
        stats["evals"] += 1
        b = {}
        for p in batch: b[p.sample_ids[0]] = b.get(p.sample_ids[0], 0) + 1
        incs = [s for s, v in b.items() if 0 < v < k]
        if err is None and len(incs) > 1: err = "two incomplete samples in a policy-consistent batch"
        if err is None and any(v > k for v in b.values()): err = "sample with more than k plates"
        if err is None and incs and not res: err = "incomplete sample but nothing allowed"
        if err is None and len(st) % k == 0 and any(v not in (0, k) for v in b.values()): err = "batch of m*k plates with a partial sample"
        if err and len(viol) < 5:
            viol.append({"k": k, "plates_per_sample": list(cfg), "wells": wells, "batch": sorted(int(i) for i in st), "what": err,
                         "site": "KPerSamplePlatePolicy.filter_eligible_plates"})
        if len(st) < 2 * k + 1:
            for p in res: stack.append(tuple(sorted(st + (p.plate_id,))))
    return len(seen)


def e2e(seed, quick, ks, maxp, viol, stats):
    # end to end through the real select_next_plate (the way the pipeline applies the policy): the batch is given as plate IDS, in selection order,
    # possibly with an id recorded twice (a retried step); the allowed set is observed through a recording subclass of the real policy
    from batchie.scoring.main import select_next_plate, ChunkedScoresHolder
    import random as _random

    class Recording(KPerSamplePlatePolicy):
        def filter_eligible_plates(self, batch_plates, unobserved_plates, rng):
            self.last = super().filter_eligible_plates(batch_plates, unobserved_plates, rng)
            return self.last
    rnd = _random.Random(seed)
    for rep in range(40 if quick else 400):
        k = rnd.choice(ks); cfg = [rnd.randrange(1, maxp + 1) for _ in range(rnd.randrange(1, 4))]
        scr = make_screen(cfg, rnd.choice((1, 2)))
        sample_of = {int(p.plate_id): int(p.sample_ids[0]) for p in scr.plates}
        hold = ChunkedScoresHolder(len(sample_of))
        for pid_ in sample_of: hold.add_score(pid_, rnd.random())
        ids = []
        for step in range(2 * k + 1):
            given = list(ids)
            if given and rnd.random() < 0.5: given.insert(rnd.randrange(len(given) + 1), rnd.choice(given))  # an id recorded twice
            pol = Recording(k); pol.last = None
            try:
                nxt = select_next_plate(scores=hold, screen=scr, policy=pol, batch_plate_ids=given, rng=np.random.default_rng(0))
            except Exception as e:
                viol.append({"k": k, "plates_per_sample": cfg, "wells": 0, "batch": [int(x) for x in given], "what": "select_next_plate raised %r" % (e,), "site": "select_next_plate+policy", "seed": seed, "tier_quick": quick}); break
            stats["evals"] += 1
            allowed = sorted(int(p.plate_id) for p in (pol.last or []))
            cnt = {}
            for pid_ in set(ids): cnt[sample_of[pid_]] = cnt.get(sample_of[pid_], 0) + 1
            inc = [s_ for s_, v in cnt.items() if 0 < v < k]
            left = {}
            for pid_, s_ in sample_of.items():
                if pid_ not in ids: left[s_] = left.get(s_, 0) + 1
            if inc: want = sorted(pid_ for pid_, s_ in sample_of.items() if s_ == inc[0] and pid_ not in ids)
            else: want = sorted(pid_ for pid_, s_ in sample_of.items() if pid_ not in ids and cnt.get(s_, 0) == 0 and left.get(s_, 0) >= k)
            err = None
            if allowed != want: err = "batch ids %r (distinct plates %r): allowed plates %r, expected %r" % (given, sorted(set(ids)), allowed, want)
            elif (nxt is None) != (not want): err = "nothing returned although plates are allowed (or the reverse)"
            elif nxt is not None and nxt.plate_id not in want: err = "returned plate %r is not allowed" % nxt.plate_id
            if err:
                if len(viol) < 5: viol.append({"k": k, "plates_per_sample": cfg, "wells": 0, "batch": [int(x) for x in given], "what": err, "site": "select_next_plate+policy", "seed": seed, "tier_quick": quick})
                break
            if nxt is None: break
            ids.append(int(nxt.plate_id))


def main():
    ap = argparse.ArgumentParser()
    ap.add_argument("--tier", default="quick"); ap.add_argument("--seed", type=int, default=0)
    ap.add_argument("--search"); ap.add_argument("--replay")
    a = ap.parse_args()
    viol = []; stats = {"evals": 0}; distinct = 0
    if a.replay:
        d = json.load(open(a.replay))["input"]
        if d.get("site") == "select_next_plate+policy":
            e2e(d["seed"], d.get("tier_quick", True), (1, 2, 3) if d.get("tier_quick", True) else (1, 2, 3, 4), 3 if d.get("tier_quick", True) else 4, viol, stats)
            print(json.dumps({"violations": viol})); return
        explore(tuple(d["plates_per_sample"]), d["k"], d["wells"], viol, stats)
        print(json.dumps({"violations": viol})); return
    quick = a.tier == "quick" or a.search
    ks = (1, 2, 3) if quick else (1, 2, 3, 4)
    maxp = 3 if quick else 4
    for k in ks:
        for ns in (1, 2, 3):
            for cfg in itertools.product(range(1, maxp + 1), repeat=ns):
                if sum(cfg) > (7 if quick else 9): continue
                for wells in (1, 3):
                    try:
                        distinct += explore(cfg, k, wells, viol, stats)
                    except Exception as e:  # the policy raised on a well-formed input
                        if len(viol) < 3:
                            viol.append({"k": k, "plates_per_sample": list(cfg), "wells": wells, "batch": [], "what": "raised %r" % (e,), "site": "KPerSamplePlatePolicy.filter_eligible_plates"})
    e2e(a.seed, quick, ks, maxp, viol, stats)
    # multi-sample plate is refused
    scr = Screen(observations=np.zeros(2), observation_mask=np.zeros(2, bool), sample_names=np.array(["a", "b"]),
                 plate_names=np.array(["p", "p"]), treatment_names=np.array([["x", "y"]] * 2), treatment_doses=np.ones((2, 2)))
    try:
        KPerSamplePlatePolicy(2).filter_eligible_plates([], scr.plates, None)
        viol.append({"k": 2, "plates_per_sample": [], "wells": 0, "batch": [], "what": "two-sample plate not refused", "site": "KPerSamplePlatePolicy.filter_eligible_plates#raise"})
    except ValueError:
        pass
    print(json.dumps({"violations": viol, "bounded": [{"function": "KPerSamplePlatePolicy.filter_eligible_plates",
        "bound": "k<=%d, <=3 samples, <=%d plates per sample, 1 or 3 wells per plate, all policy-consistent histories up to 2k+1 plates; plus %d random histories through select_next_plate with ids recorded twice" % (ks[-1], maxp, 40 if quick else 400),
        "evaluations": stats["evals"], "distinct_nontrivial": distinct, "label": "bounded stand-in, not counted as proved"}]}))


main()
