"""Native harness for C04 (bounded stand-in + replay): replace masked observation values and compare everything computed
from the partially observed screen; check which rows each shipped model is trained on and what it refuses."""
import argparse, json, random
import numpy as np
from batchie.data import Screen, ExperimentSpace
from batchie.models.sparse_combo import SparseDrugCombo
from batchie.models.sparse_combo_interaction import SparseDrugComboInteraction
from batchie.scoring.main import score_chunk, select_next_plate
from batchie.scoring.size import SizeScorer
from batchie.core import ThetaHolder
from batchie.distance_calculation import calculate_pairwise_distance_matrix_on_predictions
from batchie.distance.mse import MSEDistance
from scipy.special import logit


def make(rnd, repl=None):
    n = 12
    r = random.Random(5)
    plates = np.array(["p%d" % (k // 3) for k in range(n)])
    mask = np.array([p in ("p0", "p2") for p in plates])
    obs = np.array([r.uniform(0.05, 0.95) for _ in range(n)])
    if repl is not None:
        obs = np.where(mask, obs, repl)
    names = np.array([[r.choice("ab"), r.choice(["a", "b", "control"])] for _ in range(n)])
    doses = np.array([[1.0, float(nm[1] != "control")] for nm in names])
    return Screen(observations=obs, observation_mask=mask, sample_names=np.array(["s%d" % (k % 2) for k in range(n)]), plate_names=plates,
                  treatment_names=names, treatment_doses=doses, control_treatment_name="control")


def trained(model):
    w = model.wrapped_model
    return [(round(float(y), 6), int(c), int(a), int(b)) for y, c, a, b in zip(w.y, w.cline, w.dd1, w.dd2)]


def main():
    ap = argparse.ArgumentParser()
    ap.add_argument("--tier", default="quick"); ap.add_argument("--seed", type=int, default=0)
    ap.add_argument("--search"); ap.add_argument("--replay")
    a = ap.parse_args()
    viol = []; evals = 0
    base = make(None)
    def everything(s):
        m = SparseDrugCombo(ExperimentSpace.from_screen(s), 2); m.add_observations(s.subset_observed())
        th = ThetaHolder(3)
        for k in range(3):
            st = m.get_model_state(); st.W0 = st.W0 + k; th.add_theta(st)
        d = calculate_pairwise_distance_matrix_on_predictions(th, MSEDistance(), s, 0, 1)
        sc = score_chunk(SizeScorer(), th, s, d, rng=np.random.default_rng(0))
        pl = select_next_plate(sc, s, None, [], np.random.default_rng(0))
        return trained(m), d.values.tolist(), sc.scores.tolist(), sc.plate_ids.tolist(), int(pl.plate_id)
    ref = everything(base)
    for repl in (0.0, 1.0, 0.37, 123.0, -1.0, float("nan")):
        evals += 1
        try: got = everything(make(None, repl))
        except Exception as e: got = "raised %r" % (e,)
        if got != ref and len(viol) < 5:
            viol.append({"replacement": repr(repl), "what": "masked values %r changed training data / distances / scores / selection" % repl, "site": "non-interference"})
    # exactly the observed rows, once, transformed as documented
    s = base; m = SparseDrugCombo(ExperimentSpace.from_screen(s), 2); m.add_observations(s.subset_observed()); evals += 1
    want = [(round(float(logit(np.clip(np.float32(s.observations[r]), 0.01, 0.99))), 6), int(s.sample_ids[r]), int(s.treatment_ids[r, 0]), int(s.treatment_ids[r, 1]))
            for r in range(s.size) if s.observation_mask[r]]
    if trained(m) != want: viol.append({"what": "SparseDrugCombo not trained on exactly the observed rows once", "site": "SparseDrugCombo._add_observations"})
    m.add_observations(s.subset_observed()); evals += 1
    if trained(m) != want + want: viol.append({"what": "second add_observations call did not append the same records again", "site": "SparseDrugCombo._add_observations#twice"})
    w = m.wrapped_model
    for lst, idxs in ((w.cline, w.cline_idxs), (w.dd1, w.dd1_idxs), (w.dd2, w.dd2_idxs)):
        for key in set(int(x) for x in lst):
            if [int(i) for i in idxs[key]] != [i for i, x in enumerate(lst) if int(x) == key]:
                viol.append({"what": "sampler index sets do not list exactly the records of each sample/treatment after two add_observations calls",
                             "site": "SparseDrugCombo._add_observations#index-sets"}); break
    for cls in (SparseDrugCombo, SparseDrugComboInteraction):
        mm = cls(ExperimentSpace.from_screen(s), 2); evals += 1
        try: mm.add_observations(s.subset(np.ones(s.size, bool))); viol.append({"what": "%s accepted masked rows" % cls.__name__, "site": cls.__name__ + ".add_observations"})
        except ValueError: pass
    for bad in (-0.5, float("nan")):
        full = Screen(observations=np.array([0.5, bad, 0.4]), sample_names=np.array(["a"] * 3), plate_names=np.array(["p"] * 3),
                      treatment_names=np.array([["x", "y"]] * 3), treatment_doses=np.ones((3, 2)))
        mm = SparseDrugCombo(ExperimentSpace.from_screen(full), 2); evals += 1
        try: mm.add_observations(full); viol.append({"what": "SparseDrugCombo accepted observation %r" % bad, "site": "SparseDrugCombo._add_observations#refuse"})
        except ValueError: pass
        mi = SparseDrugComboInteraction(ExperimentSpace.from_screen(full), 2); evals += 1
        try: mi.add_observations(full); viol.append({"what": "SparseDrugComboInteraction accepted observation %r" % bad, "site": "SparseDrugComboInteraction._add_observations#no-validation"})
        except ValueError: pass
    mi = SparseDrugComboInteraction(ExperimentSpace.from_screen(s), 2); mi.add_observations(s.subset_observed()); evals += 1
    rows = [r for r in range(s.size) if s.observation_mask[r] and (s.treatment_ids[r] != -1).all()]
    got = [(int(c), int(x), int(y)) for c, x, y in zip(mi.wrapped_model.cline, mi.wrapped_model.dd1, mi.wrapped_model.dd2)]
    if got != [(int(s.sample_ids[r]), int(s.treatment_ids[r, 0]), int(s.treatment_ids[r, 1])) for r in rows]:
        viol.append({"what": "SparseDrugComboInteraction not trained on exactly the observed combination rows", "site": "SparseDrugComboInteraction._add_observations#combo_mask"})
    seen = set(); v2 = []
    for v in viol:
        if v["site"] not in seen: seen.add(v["site"]); v2.append(v)
    print(json.dumps({"violations": v2, "bounded": [{"function": "train/score/select pipeline with replaced masked values; both shipped models' training rows and refusals",
                                                    "bound": "one 12-row partially observed screen x 6 replacement values; 2 models", "evaluations": evals, "distinct_nontrivial": evals,
                                                    "label": "bounded stand-in, not counted as proved"}]}))


main()
