"""Native harness for C03 (bounded stand-in + replay): prepared screens whose samples / (treatment, dose) pairs occur
only in held-out rows; every derived screen must give equal names equal ids and never-shrinking space sizes."""
import argparse, json, os, random, sys, tempfile
import numpy as np
from batchie.data import Screen, ExperimentSpace
from batchie.retrospective import (reveal_plates, mask_screen, unmask_screen, create_random_holdout,
                                   create_plate_balanced_holdout_set_among_masked_plates)

SCR = os.environ.get("PYVC_TMP") or tempfile.gettempdir()


def make(rnd):
    n = rnd.randrange(3, 10)
    plates = np.array(["p%d" % rnd.randrange(4) for _ in range(n)])
    obs_by = {p: rnd.random() < 0.3 for p in set(plates)}
    # a third of the prepared screens carry unusual stored readouts (inf, -inf, 0.0, NaN: failed wells, empty controls) behind or in front of the mask
    odd = (lambda: rnd.choice([float("inf"), float("-inf"), 0.0, float("nan")]) if rnd.random() < 0.25 else rnd.uniform(0.1, 1)) if rnd.random() < 0.34 else (lambda: rnd.uniform(0.1, 1))
    return Screen(observations=np.array([odd() for _ in range(n)]), observation_mask=np.array([obs_by[p] for p in plates]),
                  sample_names=np.array(["s%d" % rnd.randrange(4) for _ in range(n)]), plate_names=plates,
                  treatment_names=np.array([[rnd.choice("abcd"), rnd.choice(["a", "b", "control"])] for _ in range(n)]),
                  treatment_doses=np.array([[rnd.choice([1., 2.]), rnd.choice([0., 1.])] for _ in range(n)]), control_treatment_name="control")


def idmaps(s):
    sm = {nm: i for nm, i in zip(s.sample_names, s.sample_ids)}
    tm = {}
    for r in range(s.size):
        for c in range(s.treatment_arity):
            tm[(s.treatment_names[r, c], float(s.treatment_doses[r, c]))] = int(s.treatment_ids[r, c])
    return sm, tm


def compare(base, t, what):
    bs, bt = idmaps(base); ts, tt = idmaps(t)
    for k, v in ts.items():
        if bs.get(k) != v: return "%s: sample %r has id %r, prepared screen says %r" % (what, k, v, bs.get(k))
    for k, v in tt.items():
        if bt.get(k) != v: return "%s: treatment %r has id %r, prepared screen says %r" % (what, k, v, bt.get(k))
    eb, et = ExperimentSpace.from_screen(base), ExperimentSpace.from_screen(t)
    if et.n_unique_samples < eb.n_unique_samples or et.n_unique_treatments < eb.n_unique_treatments: return "%s: experiment-space size shrank" % what
    return None


def history(seed):
    rnd = random.Random(seed); base = make(rnd); rng = np.random.default_rng(seed)
    split = create_random_holdout if seed % 2 else create_plate_balanced_holdout_set_among_masked_plates
    train, test = split(base, rnd.choice([0.0, 0.3, 0.5, 1.0]), rng)
    for nm, s in (("training", train), ("hold-out", test)):
        if s.size == 0: continue
        r = compare(base, s, nm)
        if r: return r
        for step in range(rnd.randrange(1, 5)):
            op = rnd.choice(["reveal", "mask", "unmask", "saveload"])
            try:
                if op == "reveal": s = reveal_plates(s, sorted({rnd.randrange(s.n_plates) for _ in range(rnd.choice([1, 1, 2, 3]))}))
                elif op == "mask": s = mask_screen(s)
                elif op == "unmask": s = unmask_screen(s)
                else:
                    fn = os.path.join(SCR, "c03_%d.h5" % os.getpid()); s.save_h5(fn); s = Screen.load_h5(fn); os.unlink(fn)
            except ValueError:
                continue
            r = compare(base, s, "%s after %s" % (nm, op))
            if r: return r
    return None


def main():
    ap = argparse.ArgumentParser()
    ap.add_argument("--tier", default="quick"); ap.add_argument("--seed", type=int, default=0)
    ap.add_argument("--search"); ap.add_argument("--replay")
    a = ap.parse_args()
    if a.replay:
        d = json.load(open(a.replay))["input"]; r = history(d["seed"])
        print(json.dumps({"violations": [dict(d, what=r)] if r else []})); return
    N = 200 if (a.tier == "quick" or a.search) else 4000
    viol = []
    for k in range(N):
        seed = a.seed * 1000003 + k
        try: r = history(seed)
        except Exception as e: r = "raised %r" % (e,)
        if r and len(viol) < 5: viol.append({"seed": seed, "what": r, "site": "simulation lifecycle ids"})
    print(json.dumps({"violations": viol, "bounded": [{"function": "hold-out split + reveal/mask/unmask/save/load histories",
        "bound": "%d random prepared screens (<=9 rows, 4 samples, 4x3 treatments, a third with inf/-inf/0/NaN readouts) x histories of <=4 steps" % N, "evaluations": N, "distinct_nontrivial": N,
        "label": "bounded stand-in, not counted as proved"}]}))


main()
