#!/usr/bin/env python
"""
C19 demo: the orchestration script (nextflow/scripts/batchie.py) resumes
correctly after an interruption at any point.

Nextflow is not available, so the script is imported by path and its `os`,
`shutil` and `subprocess` module references are replaced by thin proxies:

  * subprocess.check_call  -> a deterministic fake pipeline which publishes the
    same files the real workflows publish (training/test screen, thetas,
    distance matrix chunks, selected_plate, advanced_screen.h5 and - last -
    screen_metadata.json) into <job dir>/<experiment name>/, after first
    writing them below <job dir>/work/ like nextflow does.  Its selection is a
    pure function of the CONTENT of its inputs (screen, thetas, distance
    matrix, excludes), so a step that is started from wrong inputs records a
    different selection.
  * os.makedirs / shutil.rmtree -> the real thing, but every single filesystem
    mutation (each directory component created, each rmtree, each pipeline
    file written/published) is preceded by an "interruption point".

For every configuration (retrospective / prospective, batch size 1..4) the
campaign is first executed without interruption (the reference).  Then it is
re-executed once for every interruption point (and, for the smaller
configurations, for every PAIR of interruption points: a second interruption
during the recovery).  After an interruption the script is simply started
again with the same command line; if it stops with the RuntimeError that names
a directory to delete, that directory is deleted and the script is started
again (this is what the operator is told to do).

Checked for every such history:
  * every pipeline launch for step (iter, plate) received exactly the inputs
    the reference execution gave to that step (screen contents, thetas,
    distance matrix, excludes, empty job dir, forwarded extra args);
  * every completed step recorded the same selection as the reference;
  * the completed steps are exactly the reference steps, in order (nothing
    skipped, nothing extra), none was launched again after it completed and no
    completed job dir was deleted (by the script or on its request);
  * the final output tree is byte-identical to the reference tree.

Known defect of the pinned commit that is deliberately NOT exercised: with
batch_size > 1, an interruption that leaves iter_{i+1} (i >= 0) without a
complete plate_0 makes the script re-run iter_i/plate_1.  Histories whose
interruption leaves the tree in that state are skipped (the skip only looks
at the tree left behind by the interruption, never at what the script does
afterwards).

Exit status 0: property holds on all histories.  1: violated (details printed).
"""
import glob
import hashlib
import importlib.util
import json
import logging
import os
import shutil
import sys
import tempfile

# a RAM disk makes the ~10^4 small directory trees much cheaper
SCRATCH = "/dev/shm" if os.path.isdir("/dev/shm") and os.access("/dev/shm", os.W_OK) else None
REAL_MAKEDIRS = os.makedirs
REAL_MKDIR = os.mkdir
REAL_RMTREE = shutil.rmtree


# --------------------------------------------------------------------------
# locate and import the script
# --------------------------------------------------------------------------
def checkout_root():
    root = os.environ.get("BATCHIE_ROOT") or os.environ.get("BATCHIE_REPO") or "/repo"
    if root:
        return os.path.abspath(root)
    spec = importlib.util.find_spec("batchie")
    if spec is None or not spec.origin:
        sys.exit("cannot locate the batchie package; set BATCHIE_ROOT")
    # <root>/src/batchie/__init__.py
    return os.path.dirname(os.path.dirname(os.path.dirname(os.path.abspath(spec.origin))))


def load_script():
    path = os.path.join(checkout_root(), "nextflow", "scripts", "batchie.py")
    spec = importlib.util.spec_from_file_location("batchie_orchestration_script", path)
    mod = importlib.util.module_from_spec(spec)
    spec.loader.exec_module(mod)
    mod.logger.handlers[:] = []
    mod.logger.addHandler(logging.NullHandler())
    mod.logger.propagate = False
    return mod


# --------------------------------------------------------------------------
# interruption machinery
# --------------------------------------------------------------------------
class Interrupt(BaseException):
    """Stands for SIGKILL / power loss / Ctrl-C of the script + pipeline."""


MAX_LAUNCHES = 150


class Runaway(Exception):
    """the script keeps launching steps (no legitimate history here has more than ~40 launches)"""


class PipelineFailed(Exception):
    """Stands for nextflow exiting non-zero (e.g. an input file is missing)."""


class World:
    """Everything that is observed about one history."""

    def __init__(self, outdir):
        self.outdir = outdir
        self.target = None  # tick index at which to interrupt (None: never)
        self.count = 0
        self.fired = 0
        self.launches = []  # dicts, in order
        self.violations = []
        self.completed = {}  # step -> job dir

    def arm(self, target):
        self.target = target
        self.count = 0

    def tick(self, label):
        if self.target is not None and self.count == self.target:
            self.target = None
            self.fired += 1
            raise Interrupt(label)
        self.count += 1

    def note_delete(self, path, who):
        path = os.path.abspath(path)
        for step, job_dir in self.completed.items():
            if job_dir == path or job_dir.startswith(path + os.sep):
                self.violations.append(
                    f"completed step iter_{step[0]}/plate_{step[1]} deleted ({who} removed {path})"
                )


class OsProxy:
    def __init__(self, world):
        self._w = world

    def __getattr__(self, name):
        return getattr(os, name)

    def makedirs(self, path, mode=0o777, exist_ok=False):
        # os.makedirs is not atomic: one interruption point per component
        path = os.path.abspath(path)
        missing = []
        p = path
        while not os.path.isdir(p):
            missing.append(p)
            p = os.path.dirname(p)
        if not missing:
            if not exist_ok:
                raise FileExistsError(path)
            return
        for p in reversed(missing):
            self._w.tick("mkdir " + os.path.relpath(p, self._w.outdir))
            REAL_MKDIR(p)


class ShutilProxy:
    def __init__(self, world):
        self._w = world

    def __getattr__(self, name):
        return getattr(shutil, name)

    def rmtree(self, path, ignore_errors=False, **kw):
        self._w.tick("rmtree " + os.path.relpath(path, self._w.outdir))
        self._w.note_delete(path, "script")
        REAL_RMTREE(path, ignore_errors=ignore_errors)


class SubprocessProxy:
    def __init__(self, world):
        self._w = world

    def __getattr__(self, name):
        import subprocess

        return getattr(subprocess, name)

    def check_call(self, cmd, cwd=None, **kw):
        if len(self._w.launches) > MAX_LAUNCHES:
            raise Runaway("more than %d pipeline launches in one history: the script does not terminate" % MAX_LAUNCHES)
        fake_pipeline(self._w, list(cmd))
        return 0


# --------------------------------------------------------------------------
# fake pipeline
# --------------------------------------------------------------------------
def digest(*parts):
    h = hashlib.sha256()
    for p in parts:
        h.update(str(p).encode())
        h.update(b"\0")
    return h.hexdigest()[:16]


def read_or_missing(path):
    if path is None:
        return None
    if not os.path.isfile(path):
        return None
    with open(path) as f:
        return f.read()


def dump_screen(plates):
    return json.dumps({"plates": plates}, sort_keys=True)


def parse_cmd(cmd):
    assert cmd[0] == "nextflow" and cmd[1] == "run", cmd
    opts = {}
    toks = cmd[3:]
    i = 0
    while i < len(toks):
        t = toks[i]
        if not isinstance(t, str):
            raise PipelineFailed(f"non-string argument {t!r}")
        if t.startswith("--") and "=" in t:
            k, v = t[2:].split("=", 1)
            opts[k] = v
            i += 1
        else:
            opts[t.lstrip("-")] = toks[i + 1]
            i += 2
    return opts


def step_of(outdir):
    plate = os.path.basename(outdir)
    it = os.path.basename(os.path.dirname(outdir))
    return int(it.split("_")[1]), int(plate.split("_")[1])


def fake_pipeline(world, cmd):
    opts = parse_cmd(cmd)
    job = os.path.abspath(opts["outdir"])
    name = opts["name"]
    mode = opts["mode"]
    n_chains = int(opts.get("n_chains", 1))
    n_chunks = int(opts.get("n_chunks", 1))
    excludes = sorted(x for x in opts.get("excludes", "").split(",") if x)
    step = step_of(job)

    pre_existing = sorted(
        os.path.join(root, x)[len(job) + 1 :]
        for root, dirs, files in os.walk(job)
        for x in dirs + files
    )

    def contents_of_glob(pattern):
        if pattern is None:
            return None
        return sorted(digest(read_or_missing(p)) for p in glob.glob(pattern))

    inputs = {
        "mode": mode,
        "initialize": opts.get("initialize"),
        "reveal": opts.get("reveal"),
        "name": name,
        "n_chains": n_chains,
        "n_chunks": n_chunks,
        "work_dir_ok": os.path.abspath(opts.get("work-dir", "")) == os.path.join(job, "work"),
        "screen": read_or_missing(opts.get("screen")) if "screen" in opts else "-",
        "training_screen": read_or_missing(opts.get("training_screen"))
        if "training_screen" in opts
        else "-",
        "test_screen": read_or_missing(opts.get("test_screen")) if "test_screen" in opts else "-",
        "thetas": contents_of_glob(opts.get("thetas")) if "thetas" in opts else "-",
        "distance_matrix": contents_of_glob(opts.get("distance_matrix"))
        if "distance_matrix" in opts
        else "-",
        "excludes": excludes,
        "job_dir_contents_at_launch": pre_existing,
    }
    launch = {"step": step, "inputs": inputs, "selected": None, "completed": False}
    if step in world.completed:
        world.violations.append(
            f"step iter_{step[0]}/plate_{step[1]} launched again after it had completed"
        )
    world.launches.append(launch)

    work_counter = [0]

    def run_process(proc, files):
        """files: list of (filename, content).  Work dir first, then publish."""
        work_counter[0] += 1
        wd = os.path.join(job, "work", "%02x" % work_counter[0], digest(proc, step))
        world.tick(f"run {proc}")
        REAL_MAKEDIRS(wd, exist_ok=True)
        for fn, content in files:
            with open(os.path.join(wd, fn), "w") as f:
                f.write(content)
        for fn, content in files:
            world.tick(f"publish {fn}")
            REAL_MAKEDIRS(os.path.join(job, name), exist_ok=True)
            with open(os.path.join(job, name, fn), "w") as f:
                f.write(content)

    def need(value, what):
        if value is None or value == []:
            raise PipelineFailed(f"{what} does not exist")
        return value

    def choose(plates, seed):
        cands = [p for p, obs in sorted(plates.items()) if not obs and p not in excludes]
        if not cands:
            raise PipelineFailed("no plate left to select")
        return min(cands, key=lambda p: digest(seed, p))

    def meta_json(plates):
        n_obs = sum(1 for v in plates.values() if v)
        return json.dumps(
            {
                "n_plates": len(plates),
                "n_observed_plates": n_obs,
                "n_unobserved_plates": len(plates) - n_obs,
            },
            sort_keys=True,
        )

    if mode in ("retrospective", "prospective"):
        if mode == "retrospective" and opts.get("initialize") == "true":
            screen_txt = need(inputs["screen"], "--screen")
            plates = json.loads(screen_txt)["plates"]
            train_txt = dump_screen(plates)
            test_txt = json.dumps({"test_split_of": digest(screen_txt)})
            run_process(
                "PREPARE_RETROSPECTIVE_SIMULATION",
                [("training.screen.h5", train_txt), ("test.screen.h5", test_txt)],
            )
        elif mode == "retrospective":
            train_txt = need(inputs["training_screen"], "--training_screen")
            test_txt = need(inputs["test_screen"], "--test_screen")
            plates = json.loads(train_txt)["plates"]
        else:
            train_txt = need(inputs["screen"], "--screen")
            test_txt = ""
            plates = json.loads(train_txt)["plates"]

        thetas = [(f"thetas{c}.h5", "theta " + digest(c, train_txt)) for c in range(n_chains)]
        run_process("TRAIN_MODEL", thetas)
        theta_sig = digest(*sorted(digest(t) for _, t in thetas))
        run_process(
            "EVALUATE_MODEL", [("model_evaluation.h5", "eval " + digest(theta_sig, test_txt))]
        )
        dists = [
            (f"distance_matrix_chunk{k}.h5", "dist " + digest(k, theta_sig))
            for k in range(n_chunks)
        ]
        run_process("CALCULATE_DISTANCE_MATRIX_CHUNK", dists)
        dist_sig = digest(*sorted(digest(t) for _, t in dists))
        run_process(
            "CALCULATE_SCORE_CHUNK",
            [(f"score_chunk{k}.h5", "score " + digest(k, theta_sig, dist_sig)) for k in range(n_chunks)],
        )
        selected = choose(plates, digest(theta_sig, dist_sig))
        run_process("SELECT_NEXT_PLATE", [("selected_plate", selected + "\n")])
        if mode == "retrospective":
            plates = dict(plates)
            plates[selected] = True
            run_process("REVEAL_PLATE", [("advanced_screen.h5", dump_screen(plates))])
        run_process("EXTRACT_SCREEN_METADATA", [("screen_metadata.json", meta_json(plates))])
    elif mode == "next_plate":
        screen_txt = need(inputs["screen"], "--screen")
        theta_sig = digest(*need(inputs["thetas"], "--thetas"))
        dist_sig = digest(*need(inputs["distance_matrix"], "--distance_matrix"))
        plates = json.loads(screen_txt)["plates"]
        run_process(
            "CALCULATE_SCORE_CHUNK",
            [(f"score_chunk{k}.h5", "score " + digest(k, theta_sig, dist_sig, excludes)) for k in range(n_chunks)],
        )
        selected = choose(plates, digest(theta_sig, dist_sig))
        run_process("SELECT_NEXT_PLATE", [("selected_plate", selected + "\n")])
        if opts.get("reveal") == "true":
            plates = dict(plates)
            plates[selected] = True
            run_process("REVEAL_PLATE", [("advanced_screen.h5", dump_screen(plates))])
        run_process("EXTRACT_SCREEN_METADATA", [("screen_metadata.json", meta_json(plates))])
    else:
        raise PipelineFailed(f"unknown mode {mode}")

    launch["selected"] = selected
    launch["completed"] = True
    world.completed[step] = job


# --------------------------------------------------------------------------
# driving the script
# --------------------------------------------------------------------------
MAX_RESTARTS = 8
NEEDLE = "Consider deleting this directory to continue simulation: "


def start_script(mod, world, cfg, screen_path):
    """One process lifetime of the script.  Returns 'done', 'interrupted' or
    ('delete', path)."""
    mod.os = OsProxy(world)
    mod.shutil = ShutilProxy(world)
    mod.subprocess = SubprocessProxy(world)
    argv = sys.argv
    sys.argv = [
        "batchie.py",
        "--mode",
        cfg["mode"],
        "--outdir",
        world.outdir,
        "--screen",
        screen_path,
        "--batch-size",
        str(cfg["batch_size"]),
        "--n_chains",
        "2",
        "--n_chunks",
        "2",
    ]
    try:
        mod.main()
        return "done"
    except Interrupt:
        return "interrupted"
    except RuntimeError as e:
        msg = str(e)
        if NEEDLE in msg:
            return ("delete", msg.split(NEEDLE, 1)[1].strip())
        raise
    finally:
        sys.argv = argv


def known_defect_state(outdir, batch_size):
    """(the empty-iteration-directory defect of the pinned commit is fixed in /repo: no history is skipped any more)"""
    return False


def base_plates(cfg):
    plates = {"P%02d" % i: False for i in range(cfg["n_plates"])}
    plates["P00"] = True
    return plates


def screen_for_invocation(world, cfg, tmp, inv):
    plates = base_plates(cfg)
    if cfg["mode"] == "prospective":
        # the lab ran every plate proposed so far
        for fn in glob.glob(os.path.join(world.outdir, "iter_*", "plate_*", "*", "selected_plate")):
            with open(fn) as f:
                plates[f.read().strip()] = True
    path = os.path.join(tmp, f"campaign_{inv}.screen.h5")
    with open(path, "w") as f:
        f.write(dump_screen(plates))
    # same experiment name for all invocations
    final = os.path.join(tmp, f"inv{inv}", "campaign.screen.h5")
    REAL_MAKEDIRS(os.path.dirname(final), exist_ok=True)
    os.replace(path, final)
    return final


def tree_signature(outdir):
    sig = []
    cut = len(outdir) + 1
    for root, dirs, files in os.walk(outdir):
        sig.append((root[cut:], "dir"))
        for fn in files:
            with open(os.path.join(root, fn)) as f:
                sig.append((os.path.join(root, fn)[cut:], digest(f.read())))
    return sorted(sig)


def run_history(mod, cfg, interruptions):
    """interruptions: () or ((inv, n),) or ((inv, n), m).
    Returns (world, status, tree) with status in 'ok', 'skipped-1', 'skipped-2'
    (known-defect state after the 1st / 2nd interruption), 'not-fired-1',
    'not-fired-2' (the requested interruption point does not exist)."""
    tmp = tempfile.mkdtemp(prefix="c19_", dir=SCRATCH)
    try:
        world = World(os.path.join(tmp, "out"))
        first = interruptions[0] if len(interruptions) >= 1 else None
        second = interruptions[1] if len(interruptions) >= 2 else None
        status = "ok"
        for inv in range(cfg["n_invocations"]):
            screen = screen_for_invocation(world, cfg, tmp, inv)
            if first is not None and first[0] == inv:
                world.arm(first[1])
            restarts = 0
            while True:
                try:
                    res = start_script(mod, world, cfg, screen)
                except Exception as e:  # noqa
                    world.violations.append(
                        f"script died with {type(e).__name__}: {e} (cannot resume)"
                    )
                    return world, status, tree_signature(world.outdir)
                if res == "done":
                    break
                restarts += 1
                if restarts > MAX_RESTARTS:
                    world.violations.append("script does not make progress after restarts")
                    return world, status, tree_signature(world.outdir)
                if res == "interrupted":
                    if known_defect_state(world.outdir, cfg["batch_size"]):
                        return world, f"skipped-{world.fired}", None
                    if second is not None and world.fired == 1:
                        world.arm(second)
                    continue
                # ('delete', path): do what the message says
                path = res[1]
                world.note_delete(path, "operator, as told by the script,")
                REAL_RMTREE(path)
            if first is not None and first[0] == inv:
                if world.fired == 0:
                    return world, "not-fired-1", None
                if second is not None and world.fired == 1:
                    return world, "not-fired-2", None
            world.target = None
        return world, status, tree_signature(world.outdir)
    finally:
        REAL_RMTREE(tmp, ignore_errors=True)


def fmt_step(s):
    return f"iter_{s[0]}/plate_{s[1]}"


def compare(ref_world, ref_tree, world, tree):
    out = list(world.violations)
    ref_by_step = {l["step"]: l for l in ref_world.launches}
    for l in world.launches:
        r = ref_by_step.get(l["step"])
        if r is None:
            out.append(
                f"step {fmt_step(l['step'])} was executed although the uninterrupted execution never runs it"
            )
            continue
        if l["inputs"] != r["inputs"]:
            diff = {
                k: (r["inputs"][k], l["inputs"][k])
                for k in r["inputs"]
                if r["inputs"][k] != l["inputs"][k]
            }
            out.append(
                f"step {fmt_step(l['step'])} received inputs differing from the uninterrupted execution "
                f"(reference, observed): {diff}"
            )
        if l["completed"] and l["selected"] != r["selected"]:
            out.append(
                f"step {fmt_step(l['step'])} recorded selection {l['selected']} but the uninterrupted "
                f"execution recorded {r['selected']}"
            )
    done = [l["step"] for l in world.launches if l["completed"]]
    ref_done = [l["step"] for l in ref_world.launches if l["completed"]]
    if done != ref_done:
        out.append(
            "completed steps (in order) "
            + ", ".join(map(fmt_step, done))
            + " differ from the uninterrupted execution "
            + ", ".join(map(fmt_step, ref_done))
        )
    if not out and tree != ref_tree:
        a = dict(ref_tree)
        b = dict(tree)
        delta = sorted(k for k in set(a) | set(b) if a.get(k) != b.get(k))
        out.append(f"final output tree differs from the uninterrupted execution at {delta[:6]}")
    return out


# second interruption: every point within this many filesystem mutations of the
# restart (a little more than one complete step, i.e. the whole re-execution of
# the interrupted step and the beginning of its successor)
PAIR_WINDOW = 30


def main():
    mod = load_script()
    single_cfgs = []
    for bs in (1, 2, 3, 4):
        single_cfgs.append(dict(mode="retrospective", batch_size=bs, n_plates=6, n_invocations=1))
        single_cfgs.append(dict(mode="prospective", batch_size=bs, n_plates=12, n_invocations=2))
    pair_cfgs = [
        dict(mode="retrospective", batch_size=1, n_plates=3, n_invocations=1),
        dict(mode="retrospective", batch_size=2, n_plates=4, n_invocations=1),
        dict(mode="prospective", batch_size=2, n_plates=8, n_invocations=2),
    ]

    total = skipped = 0
    failures = []

    def examine(cfg, ints, ref):
        nonlocal total, skipped
        world, status, tree = run_history(mod, cfg, ints)
        if status.startswith("not-fired"):
            return status
        total += 1
        if status.startswith("skipped"):
            skipped += 1
            return status
        v = compare(ref[0], ref[1], world, tree)
        if v:
            failures.append((cfg, ints, v))
        return status

    def reference(cfg):
        ref_world, st, ref_tree = run_history(mod, cfg, ())
        assert st == "ok"
        if ref_world.violations:
            failures.append((cfg, (), ref_world.violations))
            return None
        return ref_world, ref_tree

    # every single interruption point
    for cfg in single_cfgs:
        ref = reference(cfg)
        if ref is None:
            continue
        for inv in range(cfg["n_invocations"]):
            n = 0
            while examine(cfg, ((inv, n),), ref) != "not-fired-1":
                n += 1

    # pairs: a second interruption during the recovery from the first
    for cfg in pair_cfgs:
        ref = reference(cfg)
        if ref is None:
            continue
        for inv in range(cfg["n_invocations"]):
            n = 0
            exhausted = False
            while not exhausted:
                for m in range(PAIR_WINDOW):
                    st = examine(cfg, ((inv, n), m), ref)
                    if st == "not-fired-1":
                        exhausted = True
                        break
                    if st in ("not-fired-2", "skipped-1"):
                        break
                n += 1

    print(f"histories examined: {total} (of which {skipped} skipped as known-defect states)")
    if failures:
        print(f"PROPERTY C19 VIOLATED in {len(failures)} histories; first ones:")
        for cfg, ints, v in failures[:4]:
            print(
                f"- mode={cfg['mode']} batch_size={cfg['batch_size']} n_plates={cfg['n_plates']} "
                f"interruptions ((invocation, point)[, point during recovery])={ints}"
            )
            for line in v[:4]:
                print("    " + line)
        return 1
    print("property C19 holds on every examined history")
    return 0


if __name__ == "__main__":
    sys.exit(main())
