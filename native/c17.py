"""Native harness for C17 (bounded stand-in + replay): real sampling.sample with a counting stub model."""
import argparse, json, itertools
import numpy as np
from batchie.sampling import sample
from batchie.core import MCMCModel, VIModel, ThetaHolder


class M(MCMCModel):
    def __init__(self): self.steps = 0; self.log = []; self.rng = None
    def reset_model(self): self.steps = 0; self.log.append("reset")
    def set_rng(self, rng): self.rng = rng; self.log.append("rng")
    def step(self): self.steps += 1; self.log.append("step") if len(self.log) < 3 else None
    def get_model_state(self): return self.steps


class V(VIModel):
    def __init__(self): self.calls = []; self.rng = None
    def reset_model(self): pass
    def set_rng(self, rng): self.rng = rng
    def sample(self, num_samples): self.calls.append(num_samples); return list(range(num_samples))


def check(b, t, n, seed=1, n_chains=2, ci=1):
    m = M(); h = ThetaHolder(n)
    h.steps0 = m.steps = 7
    try:
        sample(m, h, seed=seed, n_chains=n_chains, chain_index=ci, n_burnin=b, thin=t)
    except Exception as e:
        return "raised %r" % (e,)
    if m.steps != b + n * t: return "total steps %d != %d" % (m.steps, b + n * t)
    if h.thetas != [b + (j + 1) * t for j in range(n)]: return "recorded at %r" % (h.thetas,)
    if not h.is_complete: return "incomplete"
    if m.log[:2] != ["reset", "rng"]: return "order %r" % (m.log[:3],)
    ref = np.random.default_rng(np.random.SeedSequence(seed).spawn(n_chains)[ci])
    if m.rng.integers(1 << 60) != ref.integers(1 << 60): return "generator differs from default_rng(SeedSequence(seed).spawn(n)[i])"
    return None


def main():
    ap = argparse.ArgumentParser()
    ap.add_argument("--tier", default="quick"); ap.add_argument("--seed", type=int, default=0)
    ap.add_argument("--search"); ap.add_argument("--replay")
    a = ap.parse_args()
    if a.replay:
        d = json.load(open(a.replay))["input"]
        r = check(d["b"], d["t"], d["n"])
        print(json.dumps({"violations": [dict(d, what=r)] if r else []})); return
    viol = []; evals = 0
    B, T, N = (7, 5, 5) if a.tier == "quick" or a.search else (14, 8, 8)
    cands = []
    if a.search:
        m = json.load(open(a.search)).get("model") or {}
        try: cands.append((int(m.get("n_burnin", 0)), int(m.get("thin", 1)), int(m.get("results._n_thetas", 1))))
        except Exception: pass
    for b, t, n in cands + list(itertools.product(range(B + 1), range(1, T + 1), range(0, N + 1))):
        if b < 0 or t < 1 or n < 0: continue
        evals += 1
        r = check(b, t, n)
        if r and len(viol) < 5: viol.append({"b": b, "t": t, "n": n, "what": r, "site": "sampling.sample"})
    # repeated calls with the same triple give the same generator; other chain index a different one
    for seed, nc in itertools.product(range(3), range(1, 4)):
        firsts = []
        for ci in range(nc):
            for rep in range(2):
                m = M(); sample(m, ThetaHolder(1), seed=seed, n_chains=nc, chain_index=ci, n_burnin=0, thin=1)
                firsts.append((ci, int(m.rng.integers(1 << 60)))); evals += 1
        by = {}
        for ci, v in firsts: by.setdefault(ci, set()).add(v)
        if any(len(s) != 1 for s in by.values()) and len(viol) < 5:
            viol.append({"b": 0, "t": 1, "n": 1, "what": "same (seed,n_chains,chain_index) gave different generators", "site": "sampling.sample#rng"})
        if len({next(iter(s)) for s in by.values()}) != len(by) and len(viol) < 5:
            viol.append({"b": 0, "t": 1, "n": 1, "what": "two chain indices share a stream", "site": "sampling.sample#rng"})
    for n in range(0, 4):
        v = V(); h = ThetaHolder(n); sample(v, h, seed=3); evals += 1
        if v.calls != [n] or h.thetas != list(range(n)):
            viol.append({"b": 0, "t": 1, "n": n, "what": "VI branch: calls %r thetas %r" % (v.calls, h.thetas), "site": "sampling.sample#vi"})
    print(json.dumps({"violations": viol, "bounded": [{"function": "sampling.sample", "bound": "b<=%d, t<=%d, n<=%d exhaustive; seeds<3, n_chains<=3 for generator identity" % (B, T, N),
                                                      "evaluations": evals, "distinct_nontrivial": evals, "label": "bounded stand-in, not counted as proved"}]}))


main()
