"""Native harness for C05 (bounded stand-in + replay): native/c05_oracle.py compares, on the real code, every DBAL entry point (vectorised
kernel, homoscedastic / heteroscedastic wrappers, GaussianDBALScorer.score) with a direct unpadded loop-by-loop evaluation of the documented
estimator when all triples are enumerated, and checks the invariances (other plates, padding, scorer batch size, experiment order, relabelling
of posterior samples), over variances spanning six orders of magnitude, size-1 plates and single plates."""
import argparse, json, os, sys
os.environ["C05_AS_MODULE"] = "1"
sys.path.insert(0, os.path.dirname(os.path.abspath(__file__)))
import io, contextlib


def run():
    import importlib
    O = importlib.import_module("c05_oracle")
    O.FAILURES.clear()
    cnt = [0]
    real_check = O.check
    def counting(*a, **k):
        cnt[0] += 1
        return real_check(*a, **k)
    O.check = counting
    buf = io.StringIO()
    with contextlib.redirect_stdout(buf):
        for name in ("scenario_entry_points_match_reference", "scenario_invariances", "scenario_wide_dynamic_range", "scenario_scorer"):
            try:
                getattr(O, name)()
            except Exception as e:  # the code under test raised where the reference computes a value
                O.FAILURES.append("%s: the real code raised %r" % (name, e))
    return [f for f in O.FAILURES if f], cnt[0]


def main():
    ap = argparse.ArgumentParser()
    ap.add_argument("--tier", default="quick"); ap.add_argument("--seed", type=int, default=0)
    ap.add_argument("--search"); ap.add_argument("--replay")
    a = ap.parse_args()
    fails, out = run()
    if a.replay:
        print(json.dumps({"violations": [{"what": str(fails[0])[:600]}] if fails else []})); return
    n = out
    viol = [{"seed": 0, "what": str(fails[0])[:600], "site": "DBAL scoring (gaussian_dbal)"}] if fails else []
    print(json.dumps({"violations": viol, "bounded": [{"function": "dbal_fast_gauss_scoring_vectorized, dbal_fast_gaussian_scoring_homoscedastic/heteroscedastic, GaussianDBALScorer.score",
        "bound": "the fixed scenario families of native/c05_oracle.py (3..7 posterior samples with all triples enumerated, 1..5 plates of 1..9 experiments, variances 1e-3..1e3, zero distances, scorer chunk sizes 1..all)",
        "evaluations": max(n, 1), "distinct_nontrivial": max(n, 1), "label": "bounded stand-in, not counted as proved"}]}))


main()
