"""Native harness for C18 (bounded stand-in + replay): run randomised operations twice with identically seeded generators
and differently perturbed global numpy state; outputs must be identical and the global state untouched."""
import argparse, json, os, sys, tempfile, subprocess, hashlib
import numpy as np
from batchie.data import Screen
from batchie import retrospective as R
from batchie.scoring.rand import RandomScorer
from batchie.scoring.main import score_chunk, select_next_plate, ChunkedScoresHolder
from batchie.policies.k_per_sample import KPerSamplePlatePolicy

SCR = os.environ.get("PYVC_TMP") or tempfile.gettempdir()


def screen(seed, observed=True):
    r = np.random.default_rng(1000 + seed); n = 24
    names = np.array([[r.choice(["a", "b", "c", "d"]), r.choice(["a", "b", "c", "control"])] for _ in range(n)])
    doses = np.array([[float(r.integers(1, 3)), float(r.integers(0, 3))] for _ in range(n)])
    plates = np.array(["p%d" % (k // 4) for k in range(n)])
    return Screen(observations=r.uniform(0.1, 1, n), observation_mask=np.ones(n, bool) if observed else np.array([p in ("p0",) for p in plates]),
                  sample_names=np.array(["s%d" % (k % 3) for k in range(n)]), plate_names=plates, treatment_names=names, treatment_doses=doses,
                  control_treatment_name="control")


def digest(s):
    if isinstance(s, tuple): return tuple(digest(x) for x in s)
    if isinstance(s, Screen):
        return hashlib.sha1(b"|".join(np.ascontiguousarray(getattr(s, a)).tobytes() if getattr(s, a).dtype.kind != "U" else "\x00".join(getattr(s, a).ravel().tolist()).encode()
                                      for a in ("plate_names", "observation_mask", "sample_names", "observations"))).hexdigest()
    return repr(s)


def ops(seed):
    part = screen(seed, observed=False); full = screen(seed, True)
    yield "SparseCover", lambda g: R.SparseCoverPlateGenerator(False).generate_and_unmask_initial_plate(full, g)
    yield "SampleSegregating", lambda g: R.SampleSegregatingPermutationPlateGenerator(5).generate_plates(part, g)
    yield "PlatePermutation", lambda g: R.PlatePermutationPlateGenerator().generate_plates(part, g)
    yield "FixedSizeSmoother", lambda g: R.FixedSizeSmoother(3).smooth_plates(part, g)
    yield "OptimalSizeSmoother", lambda g: R.OptimalSizeSmoother().smooth_plates(part, g)
    yield "MergeMin", lambda g: R.MergeMinPlateSmoother(6).smooth_plates(part, g)
    yield "random_holdout", lambda g: R.create_random_holdout(part, 0.3, g)
    yield "balanced_holdout", lambda g: R.create_plate_balanced_holdout_set_among_masked_plates(part, 0.3, g)
    yield "RandomScorer", lambda g: sorted(RandomScorer().score({p.plate_id: p for p in part.plates}, None, None, g, False).items())
    def sel(g):
        h = ChunkedScoresHolder(part.n_plates)
        for p in part.plates: h.add_score(p.plate_id, 1.0)
        pl = select_next_plate(h, part, None, [], g)
        return None if pl is None else int(pl.plate_id)
    yield "select_next_plate", sel


def reusable(seed):
    """strategy objects that live across several calls (a scorer scoring plate after plate in one process, a generator reused for several screens):
    (name, factory, call(obj, generator)).  Each call's output may depend on the inputs and the generator only - not on what the object did before."""
    from batchie.core import ThetaHolder
    from batchie.distance_calculation import ChunkedDistanceMatrix
    from batchie.models.sparse_combo import SparseDrugComboMCMCSample
    from batchie.scoring.gaussian_dbal import GaussianDBALScorer
    part = screen(seed, observed=False); full = screen(seed, True)
    r = np.random.default_rng(77 + seed); nth = 9; D = 2
    ns, nt = part.n_unique_samples, part.n_unique_treatments
    h = ThetaHolder(nth)
    for _ in range(nth):
        h.add_theta(SparseDrugComboMCMCSample(W=r.normal(size=(ns, D)), W0=r.normal(size=ns), V2=r.normal(size=(nt, D)), V1=r.normal(size=(nt, D)),
                                              V0=r.normal(size=nt), alpha=float(r.normal()), precision=float(r.uniform(0.5, 3))))
    dm = ChunkedDistanceMatrix(nth)
    for i in range(nth):
        for j in range(i): dm.add_value(i, j, float(r.uniform(0.1, 2)))
    plates = {p.plate_id: p for p in part.plates if not p.is_observed}
    yield "GaussianDBALScorer(sub-sampled triples)", lambda: GaussianDBALScorer(max_chunk=2, max_triples=12), lambda o, g: sorted((int(k), float(v)) for k, v in o.score(plates, dm, h, g, False).items())
    yield "GaussianDBALScorer via score_chunk", lambda: GaussianDBALScorer(max_chunk=50, max_triples=20), (
        lambda o, g: (lambda sh: (sh.plate_ids.tolist(), sh.scores.tolist()))(score_chunk(scorer=o, thetas=h, screen=part, distance_matrix=dm, rng=g, n_chunks=1, chunk_index=0)))
    yield "RandomScorer", lambda: RandomScorer(), lambda o, g: sorted(o.score(plates, None, None, g, False).items())
    yield "SampleSegregating", lambda: R.SampleSegregatingPermutationPlateGenerator(5), lambda o, g: o.generate_plates(part, g)
    yield "PlatePermutation", lambda: R.PlatePermutationPlateGenerator(), lambda o, g: o.generate_plates(part, g)
    yield "SparseCover", lambda: R.SparseCoverPlateGenerator(False), lambda o, g: o.generate_and_unmask_initial_plate(full, g)
    yield "FixedSizeSmoother", lambda: R.FixedSizeSmoother(3), lambda o, g: o.smooth_plates(part, g)
    yield "KPerSamplePolicy", lambda: KPerSamplePlatePolicy(1), lambda o, g: sorted(int(p.plate_id) for p in o.filter_eligible_plates([], [p for p in part.plates if len(set(p.sample_ids)) == 1 and not p.is_observed], g))


def check_reuse(seed, viol):
    n = 0
    for name, make, call in reusable(seed):
        obj = make()
        for sd in (seed, seed + 101, seed, seed + 202, seed + 101):
            try:
                got = digest(call(obj, np.random.default_rng(sd))); want = digest(call(make(), np.random.default_rng(sd)))
            except Exception as e:
                got, want = "raised %s" % type(e).__name__, None
                if isinstance(e, ValueError): got = want = "ValueError"
            n += 2
            if got != want:
                if len(viol) < 5: viol.append({"op": name, "seed": seed, "what": "a reused %s gives a different result than a fresh one for the same inputs and an identically seeded generator "
                                                                                 "(the output depends on what the object did before)" % name, "site": "native-reuse:" + name})
                break
    return n


def main():
    ap = argparse.ArgumentParser()
    ap.add_argument("--tier", default="quick"); ap.add_argument("--seed", type=int, default=0)
    ap.add_argument("--search"); ap.add_argument("--replay")
    a = ap.parse_args()
    viol = []; evals = 0
    seeds = range(3) if (a.tier == "quick" or a.search or a.replay) else range(25)
    for sd in seeds:
        for name, op in ops(sd):
            outs = []
            for pert in (11, 9999):
                np.random.seed(pert); np.random.random(pert % 7)
                before = np.random.get_state()[1].copy()
                try: o = digest(op(np.random.default_rng(sd)))
                except Exception as e: o = "raised %s" % type(e).__name__
                after = np.random.get_state()[1]
                evals += 1
                if not np.array_equal(before, after) and len(viol) < 5:
                    viol.append({"op": name, "seed": sd, "what": "perturbed the global numpy state", "site": "native:" + name})
                outs.append(o)
            if outs[0] != outs[1] and len(viol) < 5:
                viol.append({"op": name, "seed": sd, "what": "two runs with identically seeded generators differ", "site": "native:" + name})
    for sd in seeds:
        evals += check_reuse(sd, viol)
    print(json.dumps({"violations": viol, "bounded": [{"function": "generators, smoothers, hold-out splits, RandomScorer, select_next_plate, GaussianDBALScorer (sub-sampled triples)",
        "bound": "%d seeds x 10 operations x 2 global-state perturbations on a 24-row screen; 8 strategy objects reused over 5 calls with interleaved seeds vs fresh objects" % len(list(seeds)), "evaluations": evals, "distinct_nontrivial": evals // 2,
        "label": "bounded stand-in, not counted as proved"}]}))


main()
