"""Native harness for C13 (bounded stand-in + replay): shape guarantees of every shipped generator / smoother, of the sparse-cover
initial plate and of the combination filter, on random screens; each clause is compared with an independent reference."""
import argparse, json, math, random, heapq
from collections import Counter, defaultdict
import numpy as np
from batchie.data import Screen, filter_dataset_to_treatments_that_appear_in_at_least_one_combo as combo_filter
from batchie import retrospective as R


def make(rnd, one_sample_per_plate, all_observed=False, arity=2, max_plates=3, max_rows=5, p_obs=0.3):
    ns = rnd.randrange(1, 4)
    rows = []
    for s in range(ns):
        for pl in range(rnd.randrange(1, max_plates + 1)):
            for _ in range(rnd.randrange(1, max_rows + 1)):
                rows.append(("s%d" % s, ("s%d_p%d" % (s, pl)) if one_sample_per_plate else "p%d" % rnd.randrange(3)))
    rnd.shuffle(rows)
    obs_by = {p: (True if all_observed else rnd.random() < p_obs) for p in {r[1] for r in rows}}
    tn, td = [], []
    for _ in rows:
        names, doses = [], []
        for c in range(arity):
            ctl = c > 0 and rnd.random() < 0.3
            names.append("control" if ctl else rnd.choice("abcdef")); doses.append(0.0 if ctl else float(rnd.randrange(1, 3)))
        tn.append(names); td.append(doses)
    return Screen(observations=np.array([round(rnd.uniform(0.1, 1), 6) for _ in rows]), observation_mask=np.array([obs_by[r[1]] for r in rows]),
                  sample_names=np.array([r[0] for r in rows]), plate_names=np.array([r[1] for r in rows]),
                  treatment_names=np.array(tn), treatment_doses=np.array(td), control_treatment_name="control")


def unobs_plates(s):
    """{plate name: (set of sample names, size)} of the unobserved plates"""
    out = {}
    for p in set(s.plate_names.tolist()):
        rows = s.plate_names == p
        if not s.observation_mask[rows].all():
            out[p] = (set(s.sample_names[rows].tolist()), int(rows.sum()))
    return out


def row_key(s, r): return (s.sample_names[r], tuple(s.treatment_names[r]), tuple(s.treatment_doses[r].tolist()), float(s.observations[r]))


def one(seed):
    rnd = random.Random(seed); rng = np.random.default_rng(seed)
    # --- generators: single-sample unobserved plates, size limit
    s = make(rnd, rnd.random() < 0.5, arity=rnd.choice([2, 3]))
    m = rnd.randrange(1, 6)
    out = R.SampleSegregatingPermutationPlateGenerator(m).generate_plates(s, rng)
    for p, (smp, sz) in unobs_plates(out).items():
        if len(smp) != 1: return "segregating generator: unobserved plate %s mixes samples %s" % (p, sorted(smp)), "SampleSegregatingPermutationPlateGenerator._generate_plates"
        if sz > m: return "segregating generator: plate %s has %d > max_plate_size %d experiments" % (p, sz, m), "SampleSegregatingPermutationPlateGenerator._generate_plates"
    try:
        out = R.PairwisePlateGenerator(rnd.choice([1, 2, 3]), rnd.choice([0, 0, 1])).generate_plates(s, rng)
        for p, (smp, sz) in unobs_plates(out).items():
            if len(smp) != 1: return "pairwise generator: unobserved plate %s mixes samples %s" % (p, sorted(smp)), "PairwisePlateGenerator._generate_plates"
    except ValueError:
        pass
    # --- sparse cover initial plate
    f = make(rnd, False, all_observed=True)
    for reveal in (False, True):
        out = R.SparseCoverPlateGenerator(reveal).generate_and_unmask_initial_plate(f, rng)
        om = out.observation_mask
        if set(out.sample_names[om].tolist()) != set(f.sample_names.tolist()): return "sparse cover: a sample has no observed experiment", "SparseCoverPlateGenerator._generate_and_unmask_initial_plate"
        tr = lambda S, msk: {(a, b) for a, b in zip(S.treatment_names[msk].flatten().tolist(), S.treatment_doses[msk].flatten().tolist()) if a != "control" and b > 0}  # noqa
        if tr(out, om) != tr(f, np.ones(f.size, bool)): return "sparse cover: a treatment has no observed experiment", "SparseCoverPlateGenerator._generate_and_unmask_initial_plate"
        if len(set(out.plate_names[~om].tolist())) > 1 or (set(out.plate_names[~om].tolist()) & set(out.plate_names[om].tolist())):
            return "sparse cover: the rest is not one unobserved plate", "SparseCoverPlateGenerator._generate_and_unmask_initial_plate"
        if Counter(row_key(out, r) for r in range(out.size)) != Counter(row_key(f, r) for r in range(f.size)): return "sparse cover: experiments changed", "SparseCoverPlateGenerator._generate_and_unmask_initial_plate"
    # --- combination filter
    for ar in (2, 3):
        g = make(rnd, False, arity=ar)
        full = [r for r in range(g.size) if (g.treatment_ids[r] != -1).all()]
        in_combo = {int(t) for r in full for t in g.treatment_ids[r]}
        want = Counter(row_key(g, r) for r in range(g.size) if all(int(t) == -1 or int(t) in in_combo for t in g.treatment_ids[r]))
        try:
            out = combo_filter(g)
            got = Counter(row_key(out, r) for r in range(out.size))
        except ValueError:
            got = Counter()
        if got != want: return "combination filter keeps %d experiments, reference keeps %d" % (sum(got.values()), sum(want.values())), "filter_dataset_to_treatments_that_appear_in_at_least_one_combo"
    # --- size smoothers
    s = make(rnd, rnd.random() < 0.5)
    before = unobs_plates(s)
    k = rnd.randrange(1, 5)
    for nm, op in (("FixedSizeSmoother", R.FixedSizeSmoother(k)), ("OptimalSizeSmoother", R.OptimalSizeSmoother())):
        if not before: break
        try: out = op.smooth_plates(s, rng)
        except ValueError: continue
        sizes = [sz for _, sz in unobs_plates(out).values()]
        if len(set(sizes)) > 1: return "%s leaves unobserved plates of different sizes %s" % (nm, sorted(sizes)), nm + "._smooth_plates"
        if nm == "FixedSizeSmoother":
            if any(z != k for z in sizes): return "FixedSizeSmoother(%d) leaves a plate of size %s" % (k, sizes), nm + "._smooth_plates"
            if len(sizes) != sum(1 for _, z in before.values() if z >= k): return "FixedSizeSmoother(%d) keeps %d plates, %d qualify" % (k, len(sizes), sum(1 for _, z in before.values() if z >= k)), nm + "._smooth_plates"
        else:
            best = max(z * sum(1 for _, y in before.values() if y >= z) for z in range(1, max(y for _, y in before.values()) + 1))
            if sum(sizes) != best: return "OptimalSizeSmoother retains %d experiments, the best common size retains %d" % (sum(sizes), best), nm + "._smooth_plates"
    # --- per-sample smoothers (one-sample-per-plate designs)
    s1 = make(rnd, True, max_plates=rnd.choice([3, 6, 9]), max_rows=rnd.choice([1, 3]), p_obs=0.15)
    per = defaultdict(list)
    for p, (smp, sz) in unobs_plates(s1).items(): per[next(iter(smp))].append(sz)
    if per:
        n = rnd.randrange(1, 4)
        out = R.NPlatePerCellLineSmoother(n).smooth_plates(s1, rng)
        cnt = Counter(next(iter(smp)) for smp, _ in unobs_plates(out).values())
        if any(c < n for c in cnt.values()): return "NPlatePerCellLineSmoother(%d) leaves a sample with %s unobserved plates" % (n, dict(cnt)), "NPlatePerCellLineSmoother._smooth_plates"
        if set(cnt) != {x for x, v in per.items() if len(v) >= n}: return "NPlatePerCellLineSmoother(%d) dropped a sample with enough plates" % n, "NPlatePerCellLineSmoother._smooth_plates"
        ms = rnd.randrange(1, 9)
        out = R.MergeMinPlateSmoother(ms).smooth_plates(make_copy(s1), rng)
        got = defaultdict(list)
        for p, (smp, sz) in unobs_plates(out).items():
            if len(smp) != 1: return "MergeMinPlateSmoother merged plates of different samples", "MergeMinPlateSmoother._smooth_plates"
            got[next(iter(smp))].append(sz)
        for smp, sizes in per.items():
            h = list(sizes); heapq.heapify(h)
            while len(h) > 1:
                a, b = heapq.heappop(h), heapq.heappop(h)
                if a + b > ms: h += [a, b]; break
                heapq.heappush(h, a + b)
            if sorted(h) != sorted(got[smp]): return "MergeMinPlateSmoother(%d): sample %s plate sizes %s, reference %s (from %s)" % (ms, smp, sorted(got[smp]), sorted(h), sorted(sizes)), "MergeMinPlateSmoother._smooth_plates"
        # the shipped ensemble (merge-min, top-bottom, optimal size, per-sample minimum): the guarantees of its last two stages must hold
        e_min = rnd.randrange(1, 3)
        try:
            out = R.BatchieEnsemblePlateSmoother(min_size=rnd.randrange(1, 6), n_iterations=rnd.randrange(0, 3), min_n_cell_line_plates=e_min).smooth_plates(make_copy(s1), rng)
            up = unobs_plates(out)
            if len({sz for _, sz in up.values()}) > 1: return "ensemble smoother leaves unobserved plates of different sizes %s" % sorted(sz for _, sz in up.values()), "BatchieEnsemblePlateSmoother._smooth_plates"
            if any(len(smp) != 1 for smp, _ in up.values()): return "ensemble smoother leaves a plate mixing samples", "BatchieEnsemblePlateSmoother._smooth_plates"
            cnt = Counter(next(iter(smp)) for smp, _ in up.values())
            if any(c < e_min for c in cnt.values()): return "ensemble smoother leaves a sample with %s unobserved plates (< %d)" % (dict(cnt), e_min), "BatchieEnsemblePlateSmoother._smooth_plates"
        except ValueError:
            pass
        it = rnd.randrange(1, 4)
        out = R.MergeTopBottomPlateSmoother(it).smooth_plates(make_copy(s1), rng)
        got = Counter()
        for p, (smp, sz) in unobs_plates(out).items():
            if len(smp) != 1: return "MergeTopBottomPlateSmoother merged plates of different samples", "MergeTopBottomPlateSmoother._smooth_plates"
            got[next(iter(smp))] += 1
        for smp, sizes in per.items():
            c = len(sizes)
            for _ in range(it): c = math.ceil(c / 2)
            if got[smp] != c: return "MergeTopBottomPlateSmoother(%d): sample %s has %d plates, expected %d (from %d)" % (it, smp, got[smp], c, len(sizes)), "MergeTopBottomPlateSmoother._smooth_plates"
    return None


def make_copy(s):
    return Screen(observations=s.observations.copy(), observation_mask=s.observation_mask.copy(), sample_names=s.sample_names.copy(), plate_names=s.plate_names.copy(),
                  treatment_names=s.treatment_names.copy(), treatment_doses=s.treatment_doses.copy(), control_treatment_name=s.control_treatment_name)


def safe_one(seed):
    import logging; logging.disable(logging.CRITICAL)
    try: return one(seed)
    except Exception as e: return ("raised %r" % (e,), "harness")


def main():
    ap = argparse.ArgumentParser()
    ap.add_argument("--tier", default="quick"); ap.add_argument("--seed", type=int, default=0)
    ap.add_argument("--search"); ap.add_argument("--replay")
    a = ap.parse_args()
    if a.replay:
        d = json.load(open(a.replay))["input"]; r = one(d["seed"])
        print(json.dumps({"violations": [dict(d, what=r[0], site=r[1])] if r else []})); return
    N = 160 if (a.tier == "quick" or a.search) else 4000
    viol, sites = [], set()
    from concurrent.futures import ProcessPoolExecutor
    seeds = [a.seed * 1000003 + k for k in range(N)]
    with ProcessPoolExecutor(max_workers=12) as ex:
        results = list(ex.map(safe_one, seeds, chunksize=8))
    for seed, r in zip(seeds, results):
        if r and r[1] not in sites:
            sites.add(r[1]); viol.append({"seed": seed, "what": r[0], "site": r[1]})
    print(json.dumps({"violations": viol, "bounded": [{"function": "SampleSegregating/Pairwise generators, SparseCover initial plate, combination filter (arity 2,3), FixedSize/OptimalSize/NPlatePerCellLine/MergeMin/MergeTopBottom smoothers",
        "bound": "%d random screens (<=3 samples x <=3 (merge smoothers: <=9) plates x <=5 rows, arity 2 and 3, controls, observed and unobserved plates), random parameters" % N, "evaluations": N * 12, "distinct_nontrivial": N,
        "label": "bounded stand-in, not counted as proved"}]}))


main()
